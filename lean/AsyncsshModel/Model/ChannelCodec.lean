import AsyncsshModel.Model.Channel
/-
  The text layer of a channel with `encoding='utf-8'`, `errors='strict'` (the defaults): ONE incremental UTF-8
  decoder (`codecs.getincrementaldecoder(encoding)(errors)`) fed chunk by chunk, as `_deliver_data` feeds the
  decoder of a data type; `decoder.decode(b'', True)` is the final check `_flush_recv_buf` makes once the buffer is
  empty after EOF / CLOSE.  A `UnicodeDecodeError` becomes a `ProtocolError`.
  Which decoder a chunk goes to — one per data type since repair 98283c0, one per channel (shared by stdout and
  stderr) before — and when the decoders are reset is `Model/ChannelDecode.lean`.

  The decoder is modelled byte-exactly as the well-formedness automaton of Unicode Table 3-7 (what CPython's
  `unicode_decode_utf8` implements, including *when* an ill-formed sequence is reported: at the first byte that
  cannot continue a well-formed sequence, also when the sequence is still incomplete — with the one exception
  CPython makes: a truncated surrogate `ED A0..BF` is reported one byte later).  State = the bytes of
  the incomplete sequence that CPython's incremental decoder keeps buffered.

  Code points are `Nat`s; `encCp` is UTF-8 encoding by arithmetic (the sender side: `encoder.encode(data)`
  in `write`, channel.py:932-936, stateless for UTF-8).

  Mathlib-free.
-/
namespace AsyncsshModel.ChannelCodec
open AsyncsshModel AsyncsshModel.Channel

/-- decoder state: the buffered bytes of an incomplete sequence (as numbers) -/
inductive St where
  | s0
  | s1 (b0 : Nat)
  | s2 (b0 b1 : Nat)
  | s3 (b0 b1 b2 : Nat)
  deriving DecidableEq, Repr, Inhabited

def isCont (b : Nat) : Bool := decide (0x80 ≤ b ∧ b ≤ 0xBF)

/-- second byte after lead byte `b0` that does not raise at once (Unicode Table 3-7: excludes overlong forms and
    > U+10FFFF).  A surrogate prefix `ED A0..BF` is NOT rejected here: CPython's incremental decoder keeps a
    truncated surrogate at the end of a chunk buffered ("Truncated surrogate code in range D800-DFFF" in
    `unicode_decode_utf8`) and raises on the next byte; `stepByte` does the same through `surrogatePrefix`. -/
def secondOk (b0 b : Nat) : Bool :=
  if b0 = 0xE0 then decide (0xA0 ≤ b ∧ b ≤ 0xBF)
  else if b0 = 0xF0 then decide (0x90 ≤ b ∧ b ≤ 0xBF)
  else if b0 = 0xF4 then decide (0x80 ≤ b ∧ b ≤ 0x8F)
  else isCont b

/-- `ED A0..BF`: the first two bytes of an encoded surrogate, ill-formed whatever follows -/
def surrogatePrefix (b0 b1 : Nat) : Bool := decide (b0 = 0xED ∧ 0xA0 ≤ b1)

/-- length of the sequence introduced by lead byte `b0`; 0 = not a lead byte -/
def seqLen (b0 : Nat) : Nat :=
  if b0 < 0x80 then 1
  else if 0xC2 ≤ b0 ∧ b0 ≤ 0xDF then 2
  else if 0xE0 ≤ b0 ∧ b0 ≤ 0xEF then 3
  else if 0xF0 ≤ b0 ∧ b0 ≤ 0xF4 then 4
  else 0

/-- one byte; `none` = `UnicodeDecodeError`; the optional output is a completed code point -/
def stepByte (st : St) (b : Nat) : Option (St × Option Nat) :=
  match st with
  | .s0 =>
    match seqLen b with
    | 1 => some (.s0, some b)
    | 0 => none
    | _ => some (.s1 b, none)
  | .s1 b0 =>
    if secondOk b0 b then
      if seqLen b0 = 2 then some (.s0, some ((b0 - 0xC0) * 64 + (b - 0x80)))
      else some (.s2 b0 b, none)
    else none
  | .s2 b0 b1 =>
    if isCont b ∧ ¬ surrogatePrefix b0 b1 then
      if seqLen b0 = 3 then some (.s0, some ((b0 - 0xE0) * 4096 + (b1 - 0x80) * 64 + (b - 0x80)))
      else some (.s3 b0 b1 b, none)
    else none
  | .s3 b0 b1 b2 =>
    if isCont b then
      some (.s0, some ((b0 - 0xF0) * 262144 + (b1 - 0x80) * 4096 + (b2 - 0x80) * 64 + (b - 0x80)))
    else none

/-- `decoder.decode(chunk)`: feed a chunk, return the new state and the code points completed in it -/
def decode (st : St) : Bytes → Option (St × List Nat)
  | [] => some (st, [])
  | b :: rest =>
    match stepByte st b.toNat with
    | none => none
    | some (st1, o) =>
      match decode st1 rest with
      | none => none
      | some (st2, os) => some (st2, o.toList ++ os)

/-- `decoder.decode(b'', True)`: an incomplete sequence at the end is an error -/
def finalOk (st : St) : Bool := decide (st = .s0)

/-- feed the chunks of successive `_deliver_data` calls; every callback gets the text completed by its chunk
    (possibly empty) with the chunk's datatype -/
def decodeChunks (st : St) : Buf → Option (St × List (List Nat × DType))
  | [] => some (st, [])
  | (bs, dt) :: rest =>
    match decode st bs with
    | none => none
    | some (st1, cps) =>
      match decodeChunks st1 rest with
      | none => none
      | some (st2, outs) => some (st2, (cps, dt) :: outs)

/-- a Unicode scalar value -/
def isScalar (cp : Nat) : Prop := cp < 0xD800 ∨ (0xE000 ≤ cp ∧ cp < 0x110000)

instance (cp : Nat) : Decidable (isScalar cp) := by unfold isScalar; exact inferInstance

/-- UTF-8 encoding of a code point (meaningful for scalar values) -/
def encCp (cp : Nat) : Bytes :=
  if cp < 0x80 then [UInt8.ofNat cp]
  else if cp < 0x800 then [UInt8.ofNat (0xC0 + cp / 64), UInt8.ofNat (0x80 + cp % 64)]
  else if cp < 0x10000 then
    [UInt8.ofNat (0xE0 + cp / 4096), UInt8.ofNat (0x80 + cp / 64 % 64), UInt8.ofNat (0x80 + cp % 64)]
  else
    [UInt8.ofNat (0xF0 + cp / 262144), UInt8.ofNat (0x80 + cp / 4096 % 64), UInt8.ofNat (0x80 + cp / 64 % 64),
     UInt8.ofNat (0x80 + cp % 64)]

/-- `encoder.encode(str)` -/
def encStr (cps : List Nat) : Bytes := cps.flatMap encCp

end AsyncsshModel.ChannelCodec
