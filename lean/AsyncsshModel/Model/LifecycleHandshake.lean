import AsyncsshModel.Model.Lifecycle
/-
  The close handshake of ONE channel seen from both ends: two channel objects (`Model/Lifecycle.lean`, the very
  functions the connection model uses), one FIFO link per direction carrying the channel messages, and per side
  the number of `call_soon(self._cleanup)` callbacks not yet run.  The connection stays up (transport cuts are
  the connection model's business); a protocol error would tear it down and is recorded in `err`.
-/
namespace AsyncsshModel.Lifecycle

structure HS where
  a : Chan
  b : Chan
  ab : List CMsg := []      -- in flight from a to b
  ba : List CMsg := []
  ca : Nat := 0             -- scheduled `_cleanup` calls of a
  cb : Nat := 0
  err : Bool := false
  deriving Repr

/-- messages among the actions (the recipient number is the peer's and plays no role here) -/
def sentMsgs : List Act → List CMsg
  | [] => []
  | .send _ m :: rest => m :: sentMsgs rest
  | _ :: rest => sentMsgs rest

def schedCount : List Act → Nat
  | [] => 0
  | .sched _ :: rest => schedCount rest + 1
  | _ :: rest => schedCount rest

/-- store the outcome of a method call of one side -/
def HS.put (h : HS) (sideA : Bool) (r : R) : HS :=
  let h1 : HS :=
    if sideA then { h with a := r.c, ab := h.ab ++ sentMsgs r.acts, ca := h.ca + schedCount r.acts }
    else { h with b := r.c, ba := h.ba ++ sentMsgs r.acts, cb := h.cb + schedCount r.acts }
  { h1 with err := h1.err || r.err.isSome }

inductive HEv where
  | app (sideA : Bool) (o : AppOp)      -- the application of one side calls write / write_eof / close / abort / ...
  | deliver (toB : Bool)                -- the next packet of one link reaches its receiver
  | cleanup (sideA : Bool)              -- the event loop runs a scheduled `_cleanup`
  deriving DecidableEq, Repr, Inhabited

def HEv.isApp : HEv → Bool
  | .app _ _ => true
  | _ => false

def HS.enabled (h : HS) : HEv → Bool
  | .app _ _ => !h.err
  | .deliver true => !h.err && !h.ab.isEmpty
  | .deliver false => !h.err && !h.ba.isEmpty
  | .cleanup true => !h.err && decide (0 < h.ca)
  | .cleanup false => !h.err && decide (0 < h.cb)

/-- application calls that raise (BrokenPipeError from `write`) are the caller's business, not a protocol error -/
def HS.step (h : HS) (ev : HEv) : HS :=
  if h.enabled ev = false then h
  else
    match ev with
    | .app true o => h.put true { appOp h.a o with err := none }
    | .app false o => h.put false { appOp h.b o with err := none }
    | .deliver true =>
      (match h.ab with
       | [] => h
       | m :: rest => ({ h with ab := rest } : HS).put false (processMsg h.b m))
    | .deliver false =>
      (match h.ba with
       | [] => h
       | m :: rest => ({ h with ba := rest } : HS).put true (processMsg h.a m))
    | .cleanup true => ({ h with ca := h.ca - 1 } : HS).put true (cleanup h.a .clean)
    | .cleanup false => ({ h with cb := h.cb - 1 } : HS).put false (cleanup h.b .clean)

/-- the two-endpoint system with the channel methods as they were BEFORE the repairs (peer's CLOSE does not resume a
    paused writer; dropped / discarded data is not credited) -/
def HS.stepPreFix (h : HS) (ev : HEv) : HS :=
  if h.enabled ev = false then h
  else
    match ev with
    | .app true o => h.put true { appOpPreFix h.a o with err := none }
    | .app false o => h.put false { appOpPreFix h.b o with err := none }
    | .deliver true =>
      (match h.ab with
       | [] => h
       | m :: rest => ({ h with ab := rest } : HS).put false (processMsgPreFix h.b m))
    | .deliver false =>
      (match h.ba with
       | [] => h
       | m :: rest => ({ h with ba := rest } : HS).put true (processMsgPreFix h.a m))
    | .cleanup true => ({ h with ca := h.ca - 1 } : HS).put true (cleanup h.a .clean)
    | .cleanup false => ({ h with cb := h.cb - 1 } : HS).put false (cleanup h.b .clean)

def HS.runPreFix (h : HS) (evs : List HEv) : HS := evs.foldl HS.stepPreFix h

/-- an established channel: both directions open, sessions attached, windows `w`, nothing in flight -/
def HS.init (w : Nat) : HS :=
  { a := { server := false, sendSt := .opn, recvSt := .opn, sendChan := some 0, sendWin := w, recvWin := w, initWin := w,
           paused := .no, session := true, trace := [.made] },
    b := { server := true, sendSt := .opn, recvSt := .opn, sendChan := some 0, sendWin := w, recvWin := w, initWin := w,
           paused := .no, session := true, trace := [.made], fo := .finished } }

def HS.run (h : HS) (evs : List HEv) : HS := evs.foldl HS.step h

/-- number of steps of `evs` that actually happen (a disabled event is a no-op) -/
def HS.effective : HS → List HEv → Nat
  | _, [] => 0
  | h, ev :: rest => (if h.enabled ev then 1 else 0) + HS.effective (h.step ev) rest

/-! ### the termination measure -/

def wMsg : CMsg → Nat
  | .data => 2
  | .adjust _ => 1
  | .eof => 1
  | .close => 1
  | .req _ w => if w then 2 else 1
  | .success => 1
  | .failure => 1

def wMsgs (l : List CMsg) : Nat := (l.map wMsg).sum

/-- packets a send state may still cause to be emitted without the application doing anything -/
def phiS : St → Nat
  | .closed => 0
  | .closePending => 2
  | .eof => 1
  | .eofPending => 2
  | .opn => 2

def phiR : St → Nat
  | .closed => 0
  | _ => 1

def pot (c : Chan) : Nat := phiS c.sendSt + phiR c.recvSt + 3 * c.sendBuf + c.recvBuf

/-- the measure: every delivery and every `_cleanup` strictly decreases it -/
def HS.mu (h : HS) : Nat := pot h.a + pot h.b + wMsgs h.ab + wMsgs h.ba + h.ca + h.cb

def HS.quiescent (h : HS) : Prop := h.ab = [] ∧ h.ba = [] ∧ h.ca = 0 ∧ h.cb = 0

/-- `_cleanup` has run: session told, channel unregistered, `_close_event` set -/
def cleaned (c : Chan) : Prop := c.session = false ∧ c.reg = false ∧ c.closeEvent = true

end AsyncsshModel.Lifecycle
