import AsyncsshModel.Base.PySlice
/-
  Model of the SSH binary packet layer of asyncssh (asyncssh/connection.py):
    sender   : `SSHConnection.send_packet`      (framing, padding, sequence number)
    receiver : `_recv_data` / `_recv_pkthdr` / `_recv_packet` / `_finish_recv_packet`
  for one key epoch of one direction.  The cipher/MAC shim (asyncssh/encryption.py) is a parameter:
  a `Shim` gives `decrypt_header` and `decrypt_packet`; the cleartext phase is the instance `plainShim`.
-/
namespace AsyncsshModel.Transport
open AsyncsshModel

/-- receive-side parameters: `_recv_blocksize`, `_recv_macsize` -/
structure Params where
  bs : Nat
  mac : Nat
  deriving Repr

/-- `Encryption.decrypt_header(seq, first_block, 4)` and `decrypt_packet(seq, first, rest, 4, mac)` -/
structure Shim where
  decryptHeader : Nat → Bytes → Bytes × Nat
  decryptPacket : Nat → Bytes → Bytes → Bytes → Option Bytes

/-- no encryption yet: `pktlen = self._packet[:4]`, `packet_data = self._packet[4:] + rest` -/
def plainShim : Shim where
  decryptHeader := fun _ fb => (fb, beNat (fb.take 4))
  decryptPacket := fun _ first rest _ => some (first.drop 4 ++ rest)

inductive Phase where
  | hdr
  | body (first : Bytes) (pktlen : Nat)
  deriving Repr, DecidableEq

inductive Err where
  | mac          -- MACError('MAC verification failed')
  | internal     -- an exception other than DisconnectError (e.g. IndexError on empty packet data)
  deriving Repr, DecidableEq

structure RState where
  buf : Bytes
  phase : Phase
  seq : Nat
  closed : Option Err
  deriving Repr

def RState.init (seq : Nat) : RState := { buf := [], phase := .hdr, seq := seq, closed := none }

/-- `orig_payload = packet_data[1:-packet_data[0]]` (`none`: IndexError on empty data) -/
def extractPayload (pd : Bytes) : Option Bytes :=
  match pd with
  | [] => none
  | padlen :: _ => some (pySlice pd 1 (-(padlen.toNat : Int)))

/-- the next sequence number: `(seq + 1) & 0xffffffff` -/
def nextSeq (seq : Nat) : Nat := (seq + 1) % 4294967296

/-- One call of the current `_recv_handler`.  `none`: the handler returned `False` (needs more bytes)
    or the connection is closed.  Otherwise the new state and the payload dispatched, if any. -/
def stepOnce (p : Params) (sh : Shim) (encrypted : Bool) (st : RState) : Option (RState × Option Bytes) :=
  match st.closed with
  | some _ => none
  | none =>
    match st.phase with
    | .hdr =>
      if st.buf.length < p.bs then none
      else
        let fb := st.buf.take p.bs
        let (first, pktlen) := sh.decryptHeader st.seq fb
        some ({ st with buf := st.buf.drop p.bs, phase := .body first pktlen }, none)
    | .body first pktlen =>
      let rem : Int := 4 + (pktlen : Int) + (p.mac : Int) - (p.bs : Int)
      if (st.buf.length : Int) < rem then none
      else
        let rest := pyTake st.buf (rem - p.mac)
        let mac := pySlice st.buf (rem - p.mac) rem
        match sh.decryptPacket st.seq first rest mac with
        | none => some ({ st with closed := some .mac }, none)
        | some pd =>
          if encrypted && pd.isEmpty then some ({ st with closed := some .mac }, none)
          else
            match extractPayload pd with
            | none => some ({ st with closed := some .internal }, none)
            | some payload =>
              some ({ buf := pyDrop st.buf rem, phase := .hdr, seq := nextSeq st.seq, closed := none },
                    some payload)

/-- `while self._inpbuf and self._recv_handler(): pass` with explicit fuel -/
def drain (p : Params) (sh : Shim) (enc : Bool) : Nat → RState → RState × List Bytes
  | 0, st => (st, [])
  | fuel + 1, st =>
    if st.buf.isEmpty then (st, [])
    else
      match stepOnce p sh enc st with
      | none => (st, [])
      | some (st', out) =>
        let (st'', outs) := drain p sh enc fuel st'
        (st'', out.toList ++ outs)

/-- enough fuel for any buffer: every header step consumes `bs ≥ 1` bytes and phases alternate -/
def fuelFor (st : RState) : Nat := 2 * st.buf.length + 2

/-- `data_received(chunk)`: append to `_inpbuf`, then run the handler loop -/
def feed (p : Params) (sh : Shim) (enc : Bool) (st : RState) (chunk : Bytes) : RState × List Bytes :=
  let st1 := { st with buf := st.buf ++ chunk }
  drain p sh enc (fuelFor st1) st1

/-- a whole sequence of `data_received` calls -/
def feedAll (p : Params) (sh : Shim) (enc : Bool) : RState → List Bytes → RState × List Bytes
  | st, [] => (st, [])
  | st, c :: cs =>
    let (st1, o1) := feed p sh enc st c
    let (st2, o2) := feedAll p sh enc st1 cs
    (st2, o1 ++ o2)

/-! ### sender -/

/-- the padding rule of `send_packet`, on naturals: `padlen = -(enchdrlen + len) % bs; if padlen < 4: += bs` -/
def padLen (enchdrlen payloadLen bs : Nat) : Nat :=
  let r := (bs - (enchdrlen + payloadLen) % bs) % bs
  if r < 4 then r + bs else r

/-- cleartext packet body `Byte(padlen) + payload + padding` (padding bytes chosen by the caller,
    `os.urandom(padlen)` in the code) -/
def packetBody (payload padding : Bytes) : Bytes :=
  UInt8.ofNat padding.length :: payload ++ padding

/-- the unencrypted wire form `UInt32(pktlen) + packet` -/
def plainFrame (payload padding : Bytes) : Bytes :=
  be32 (packetBody payload padding).length ++ packetBody payload padding

end AsyncsshModel.Transport

namespace AsyncsshModel.Transport
open AsyncsshModel

/-- cleartext sender: `packet = hdr + packet`, no MAC -/
def plainEnc (_seq : Nat) (pd : Bytes) : Bytes := be32 pd.length ++ pd

/-- Ideal authenticated channel (the idealisation under which tamper-evidence is proved, and the shim the
    C01 driver runs): it accepts under sequence number `s` exactly the bytes recorded as sealed under `s`.
    `lenOf` is what the unauthenticated length peek returns for a first block. -/
def idealShim (enc : Nat → Bytes → Bytes) (sent : Nat → Option Bytes) (lenOf : Nat → Bytes → Nat) : Shim where
  decryptHeader := fun s fb => (fb, lenOf s fb)
  decryptPacket := fun s first rest mac =>
    match sent s with
    | some pd => if first ++ rest ++ mac = enc s pd then some pd else none
    | none => none

/-- a toy sealed form with the length in clear (ETM/AEAD layout): length ‖ body ‖ `mac` zero bytes -/
def toyEnc (mac : Nat) (_seq : Nat) (pd : Bytes) : Bytes := be32 pd.length ++ pd ++ List.replicate mac 0

end AsyncsshModel.Transport

namespace AsyncsshModel.Transport
open AsyncsshModel

/-- RFC 4253 §6 reference decoder for one cleartext frame
    `uint32 packet_length ‖ byte padding_length ‖ payload ‖ random padding`, written from the RFC text (not from
    the code).  `hdrlen = 5` when the length field counts towards the block alignment, `1` for the
    encrypt-then-MAC / AEAD layouts where it does not. -/
def rfcDecode (bs hdrlen : Nat) (frame : Bytes) : Except String Bytes :=
  if frame.length < 5 then .error "short"
  else
    let len := beNat (frame.take 4)
    if len + 4 ≠ frame.length then .error "length-field"
    else
      let padlen := (frame.getD 4 0).toNat
      if padlen < 4 then .error "padding<4"
      else if len < padlen + 1 then .error "padding>packet"
      else if (hdrlen - 1 + len) % (max 8 bs) ≠ 0 then .error "alignment"
      else .ok ((frame.drop 5).take (len - padlen - 1))

/-- `Kex.compute_key` (asyncssh/kex.py): `while len(key) < keylen: key += H(k + h + (key if key else x + sid))` -/
def ckLoop (H : Bytes → Bytes) (k h x sid : Bytes) (keylen : Nat) : Nat → Bytes → Bytes
  | 0, key => key
  | fuel + 1, key =>
    if key.length < keylen then
      ckLoop H k h x sid keylen fuel (key ++ H (k ++ h ++ (if key.isEmpty then x ++ sid else key)))
    else key

def computeKey (H : Bytes → Bytes) (k h x sid : Bytes) (keylen : Nat) : Bytes :=
  (ckLoop H k h x sid keylen keylen []).take keylen

/-- RFC 4253 §7.2: `K1 = HASH(K ‖ H ‖ X ‖ session_id)`, `K(n+1) = HASH(K ‖ H ‖ K1 ‖ … ‖ Kn)`;
    `rfcStream n = K1 ‖ … ‖ Kn` -/
def rfcStream (H : Bytes → Bytes) (k h x sid : Bytes) : Nat → Bytes
  | 0 => []
  | n + 1 =>
    let prev := rfcStream H k h x sid n
    prev ++ H (k ++ h ++ (if n = 0 then x ++ sid else prev))

end AsyncsshModel.Transport
