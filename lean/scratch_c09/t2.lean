import AsyncsshModel.Lemmas.Lifecycle
namespace AsyncsshModel.Lifecycle

/-- effect summary of an ordinary channel method (anything but `_cleanup`, the open confirmation and the
    resumption of `create()`) on the fields the connection-level invariants talk about -/
structure Plain (c : Chan) (r : R) : Prop where
  inv : CInv r.c
  reg : r.c.reg = c.reg
  ow : r.c.openWaiter = true → c.openWaiter = true
  wv : r.c.wakeVal.isSome = true → c.wakeVal.isSome = true ∨ Act.wake ∈ r.acts
  okv : r.c.wakeVal = some .openOk → c.wakeVal = some .openOk
  sess : r.c.session = true → c.session = true ∨ r.c.reg = true
  sched : ∀ e, Act.sched e ∈ r.acts → r.c.openWaiter = false

theorem sendPkt_sends (c : Chan) (m : CMsg) : ∀ a ∈ sendPkt c m, ∃ rc m', a = Act.send rc m' := by
  intro a ha
  unfold sendPkt at ha
  split at ha
  · simp at ha; exact ⟨_, _, ha⟩
  · simp at ha

theorem closeSend_plain (c : Chan) (h : CInv c) : Plain c (closeSend c) := by
  refine ⟨closeSend_inv c h, ?_, ?_, ?_, ?_, ?_, ?_⟩ <;> simp only [closeSend, R.ok, sendPkt] <;> grind

theorem discardRecv_plain (c : Chan) (h : CInv c) : Plain c (discardRecv c) := by
  have := h.ow
  refine ⟨discardRecv_inv c h, ?_, ?_, ?_, ?_, ?_, ?_⟩ <;> simp only [discardRecv, R.ok, sendPkt] <;> grind

end AsyncsshModel.Lifecycle
