import AsyncsshModel.Model.Lifecycle
namespace AsyncsshModel.Lifecycle

/-- acceptor for `made · (anything but made/lost)* · lost?` : state 0 fresh, 1 live, 2 over -/
def dfa : Nat → Cb → Option Nat
  | 0, .made => some 1
  | 1, .made => none
  | 1, .lost _ => some 2
  | 1, _ => some 1
  | _, _ => none

def runDfa (tr : List Cb) : Option Nat := tr.foldl (fun st cb => st.bind (dfa · cb)) (some 0)

@[simp] theorem runDfa_nil : runDfa [] = some 0 := rfl
@[simp] theorem runDfa_snoc (tr : List Cb) (x : Cb) : runDfa (tr ++ [x]) = (runDfa tr).bind (dfa · x) := by
  simp [runDfa, List.foldl_append]

structure CInv (c : Chan) : Prop where
  trT : c.session = true → runDfa c.trace = some 1
  trF : c.session = false → runDfa c.trace = some 0 ∨ runDfa c.trace = some 2
  ow : c.openWaiter = true → c.reg = true ∧ c.stage = .waitOpen
  rw : c.reqWaiter = true → c.reg = true ∧ (c.stage = .waitPty ∨ c.stage = .waitReq)
  sc : c.sendChan.isSome = true → c.reg = true
  ce : c.reg = false → c.closeEvent = true
  wc : c.closeEvent = true → c.wcPending = 0
  wo : c.stage = .waitOpen → runDfa c.trace = some 0 ∧ c.session = false ∧ c.sendSt = .closed ∧ c.recvSt = .closed
  fo : (c.fo = .start ∨ c.fo = .awaiting) → runDfa c.trace = some 0 ∧ c.session = false ∧ c.sendSt = .closed ∧ c.recvSt = .closed

theorem cleanup_inv (c : Chan) (e : Exc) (h : CInv c) : CInv (cleanup c e).c := by
  obtain ⟨h1, h2, h3, h4, h5, h6, h7, h8, h9⟩ := h
  constructor <;> simp only [cleanup, R.ok] <;> grind [dfa, runDfa_snoc]

theorem closeSend_inv (c : Chan) (h : CInv c) : CInv (closeSend c).c := by
  obtain ⟨h1, h2, h3, h4, h5, h6, h7, h8, h9⟩ := h
  constructor <;> simp only [closeSend, R.ok] <;> grind [dfa, runDfa_snoc]

end AsyncsshModel.Lifecycle
