import Lean
import AsyncsshModel.Props.C13
open Lean Elab Command in
run_cmd do
  let env ← getEnv
  for modName in [`AsyncsshModel.Props.C13] do
    let some idx := env.getModuleIdx? modName | throwError "module not loaded"
    for n in env.header.moduleData[idx.toNat]!.constNames do
      if n.isInternalDetail then continue
      match env.find? n with
      | some (.thmInfo _) =>
        let axs ← collectAxioms n
        logInfo m!"AXIOMS {n} := {axs.toList}"
      | _ => pure ()
