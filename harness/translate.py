"""T1 translator helpers: Python AST -> Lean 4 terms (Int arithmetic, booleans) and table dumps.

Only a small, explicit fragment is translated; anything else raises `Untranslatable`, which the runner records
as a broken tie for that item (never a violation by itself).

Python `%` and `//` with a positive divisor coincide with Lean's `Int.emod`/`Int.ediv` (`%`, `/` on `Int`);
callers must only use them where the divisor is positive (block sizes, 2^32).
"""

from __future__ import annotations

import ast
import os
import random
import subprocess
import textwrap
from typing import Any, Callable, Dict, List, Optional, Sequence, Tuple

import vlib


class Untranslatable(Exception):
    pass


def read_source(relpath: str) -> str:
    with open(os.path.join(vlib.REPO, relpath)) as f:
        return f.read()


def find_def(tree: ast.AST, qualname: str) -> ast.AST:
    parts = qualname.split('.')
    body = tree.body  # type: ignore
    node: Any = None
    for part in parts:
        node = None
        for n in body:
            if isinstance(n, (ast.FunctionDef, ast.AsyncFunctionDef, ast.ClassDef)) and n.name == part:
                node = n
                break
        if node is None:
            raise Untranslatable(f'{qualname}: {part} not found')
        body = node.body
    return node


def find_assign(func: ast.AST, target: str, nth: int = 0) -> ast.Assign:
    """The nth assignment `target = ...` (by source order) inside func."""
    found = []
    for n in ast.walk(func):
        if isinstance(n, ast.Assign) and len(n.targets) == 1 and _name_of(n.targets[0]) == target:
            found.append(n)
    found.sort(key=lambda n: (n.lineno, n.col_offset))
    if len(found) <= nth:
        raise Untranslatable(f'assignment to {target} #{nth} not found')
    return found[nth]


def _name_of(n: ast.AST) -> Optional[str]:
    if isinstance(n, ast.Name):
        return n.id
    if isinstance(n, ast.Attribute) and isinstance(n.value, ast.Name) and n.value.id == 'self':
        return 'self.' + n.attr
    return None


_BINOPS = {ast.Add: '+', ast.Sub: '-', ast.Mult: '*', ast.FloorDiv: '/', ast.Mod: '%'}
_CMPOPS = {ast.Lt: '<', ast.LtE: '≤', ast.Gt: '>', ast.GtE: '≥', ast.Eq: '=', ast.NotEq: '≠'}


def expr_to_lean(n: ast.AST, env: Dict[str, str]) -> str:
    """Translate an integer/boolean expression.  `env` maps Python names (`x`, `self._y`, `len(z)`) to Lean names."""
    src = ast.unparse(n)
    if src in env:
        return env[src]
    if isinstance(n, ast.Constant) and isinstance(n.value, bool):
        return 'True' if n.value else 'False'
    if isinstance(n, ast.Constant) and isinstance(n.value, int):
        return f'({n.value} : Int)' if n.value >= 0 else f'(({n.value}) : Int)'
    nm = _name_of(n)
    if nm is not None:
        if nm in env:
            return env[nm]
        raise Untranslatable(f'unbound name {nm}')
    if isinstance(n, ast.UnaryOp) and isinstance(n.op, ast.USub):
        return f'(-{expr_to_lean(n.operand, env)})'
    if isinstance(n, ast.UnaryOp) and isinstance(n.op, ast.Not):
        return f'(¬ {expr_to_lean(n.operand, env)})'
    if isinstance(n, ast.BinOp):
        if isinstance(n.op, ast.BitAnd):
            # x & 0xffffffff  ==  x % 2^32 for the two's complement ints Python uses
            if isinstance(n.right, ast.Constant) and isinstance(n.right.value, int) and \
                    (n.right.value + 1) & n.right.value == 0:
                return f'({expr_to_lean(n.left, env)} % ({n.right.value + 1} : Int))'
            raise Untranslatable('bit-and with a non-mask')
        if type(n.op) in _BINOPS:
            return f'({expr_to_lean(n.left, env)} {_BINOPS[type(n.op)]} {expr_to_lean(n.right, env)})'
        raise Untranslatable(f'operator {type(n.op).__name__}')
    if isinstance(n, ast.Compare) and len(n.ops) == 1 and isinstance(n.ops[0], (ast.In, ast.NotIn)) and \
            isinstance(n.comparators[0], (ast.Set, ast.Tuple, ast.List)):
        lhs = expr_to_lean(n.left, env)
        alts = ' ∨ '.join(f'({lhs} = {expr_to_lean(e, env)})' for e in n.comparators[0].elts)
        return f'({alts})' if isinstance(n.ops[0], ast.In) else f'(¬ ({alts}))'
    if isinstance(n, ast.Compare) and len(n.ops) == 1 and type(n.ops[0]) in _CMPOPS:
        return f'({expr_to_lean(n.left, env)} {_CMPOPS[type(n.ops[0])]} {expr_to_lean(n.comparators[0], env)})'
    if isinstance(n, ast.Compare) and len(n.ops) == 2 and all(type(o) in _CMPOPS for o in n.ops):
        a, b, c = n.left, n.comparators[0], n.comparators[1]
        return (f'(({expr_to_lean(a, env)} {_CMPOPS[type(n.ops[0])]} {expr_to_lean(b, env)}) ∧ '
                f'({expr_to_lean(b, env)} {_CMPOPS[type(n.ops[1])]} {expr_to_lean(c, env)}))')
    if isinstance(n, ast.BoolOp):
        op = ' ∧ ' if isinstance(n.op, ast.And) else ' ∨ '
        return '(' + op.join(expr_to_lean(v, env) for v in n.values) + ')'
    if isinstance(n, ast.IfExp):
        return f'(if {expr_to_lean(n.test, env)} then {expr_to_lean(n.body, env)} else {expr_to_lean(n.orelse, env)})'
    if isinstance(n, ast.Call) and isinstance(n.func, ast.Name) and n.func.id in ('min', 'max') and len(n.args) == 2:
        return f'({n.func.id} {expr_to_lean(n.args[0], env)} {expr_to_lean(n.args[1], env)})'
    raise Untranslatable(f'expression {src!r}')


def lean_str(b: Any) -> str:
    s = b.decode('latin1') if isinstance(b, (bytes, bytearray)) else str(b)
    return '"' + s.replace('\\', '\\\\').replace('"', '\\"') + '"'


def lean_list(items: Sequence[str]) -> str:
    return '[' + ', '.join(items) + ']'


def lean_bool(b: bool) -> str:
    return 'true' if b else 'false'


def header(prop: str, sources: Sequence[str]) -> str:
    return textwrap.dedent(f'''\
        /-
          GENERATED by /verif/harness (translate() of props/{prop}.py) from the current working tree of
          ronf/asyncssh: {", ".join(sources)}.
          Regenerated on every run of ./check {prop}; do not edit.
        -/
        ''')


def self_test_exprs(cases: List[Tuple[str, Callable[..., int], List[Tuple[int, ...]]]], lean_module: str,
                    namespace: str) -> List[str]:
    """Evaluate generated Lean definitions and the Python originals on the same integer tuples.
    cases: (lean def name, python callable, argument tuples).  Returns a list of mismatch descriptions."""
    lines = [f'import {lean_module}', f'open {namespace}']
    expected: List[str] = []
    for name, fn, argsets in cases:
        for args in argsets:
            lean_args = ' '.join(f'({a} : Int)' for a in args)
            lines.append(f'#eval ({name} {lean_args} : Int)')
            expected.append(str(fn(*args)))
    ok, log = vlib.lake_build([lean_module])      # the generated file may just have changed
    if not ok:
        return ['generated module does not build: ' + log[-400:]]
    path = os.path.join(vlib.LEAN_DIR, 'Audit', f'_selftest_{namespace.replace(".", "_")}.lean')
    vlib.write_if_changed(path, '\n'.join(lines) + '\n')
    p = subprocess.run(['lake', 'env', 'lean', path], cwd=vlib.LEAN_DIR, text=True,
                       stdout=subprocess.PIPE, stderr=subprocess.STDOUT, timeout=600)
    got = [l.strip() for l in p.stdout.split('\n') if l.strip()]
    if p.returncode != 0 or len(got) != len(expected):
        return [f'self-test did not run: rc={p.returncode} {p.stdout[-400:]}']
    return [f'case {i}: lean {g} python {e}' for i, (g, e) in enumerate(zip(got, expected)) if g != e]
