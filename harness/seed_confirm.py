"""Confirm an independently produced breaking change and run our check against it.

usage: seed_confirm.py <seed-id> <property> <source-dir> [--skip-suite]
 - copies patch.diff / demo.py / notes.md into /verif/seeded/<seed-id>/
 - in a fresh scratch worktree: demo passes on HEAD, fails with the patch; the 161 baseline tests still pass
 - runs ./check <property> (quick) against the patched worktree and records what it reported
 - writes meta.json; removes the worktree
"""
import json, os, shutil, subprocess, sys, tempfile, xml.etree.ElementTree as ET

VERIF = os.path.dirname(os.path.dirname(os.path.abspath(__file__)))


def sh(cmd, cwd=None, env=None, timeout=3000):
    p = subprocess.run(cmd, shell=True, cwd=cwd, env=env, text=True, stdout=subprocess.PIPE, stderr=subprocess.STDOUT,
                       timeout=timeout)
    return p.returncode, p.stdout


def main():
    sid, prop, src = sys.argv[1:4]
    skip_suite = '--skip-suite' in sys.argv
    dst = os.path.join(VERIF, 'seeded', sid)
    os.makedirs(dst, exist_ok=True)
    for f in ('patch.diff', 'demo.py', 'notes.md'):
        if os.path.exists(os.path.join(src, f)):
            shutil.copy(os.path.join(src, f), os.path.join(dst, f))
    wt = tempfile.mkdtemp(prefix=f'sc-{sid}-', dir='/tmp')
    os.rmdir(wt)
    rc, out = sh(f'git -C /repo worktree add -q {wt} HEAD')
    assert rc == 0, out
    env = dict(os.environ, PYTHONPATH=wt, PYTHONWARNINGS='ignore', PYTHONDONTWRITEBYTECODE='1')
    old_history = None
    if os.path.exists(os.path.join(dst, 'meta.json')):
        try:
            old_history = json.load(open(os.path.join(dst, 'meta.json'))).get('history')
        except Exception:
            pass
    meta = {'seed': sid, 'property': prop, 'repo_head': sh('git -C /repo rev-parse --short HEAD')[1].strip()}
    try:
        rc0, out0 = sh(f'/venv/bin/python {dst}/demo.py', cwd=wt, env=env, timeout=300)
        meta['demo_on_clean_tree'] = {'exit': rc0, 'tail': out0[-400:]}
        rca, outa = sh(f'git apply {dst}/patch.diff', cwd=wt)
        meta['patch_applies'] = rca == 0
        if rca != 0:
            meta['apply_error'] = outa[-400:]
        rc1, out1 = sh(f'/venv/bin/python {dst}/demo.py', cwd=wt, env=env, timeout=300)
        meta['demo_with_change'] = {'exit': rc1, 'tail': out1[-600:]}
        if not skip_suite:
            b = json.load(open('/root/.vp/BASELINE.json'))
            xml = os.path.join(wt, '_junit.xml')
            sh(f'/venv/bin/python -m pytest -ra -q -p no:cacheprovider --timeout=900 --continue-on-collection-errors '
               f'--junitxml={xml}', cwd=wt, env=env, timeout=3000)
            passed = set()
            for tc in ET.parse(xml).getroot().iter('testcase'):
                if not any(ch.tag in ('failure', 'error', 'skipped') for ch in tc):
                    passed.add(f"{tc.get('classname')}::{tc.get('name')}")
            norm = lambda s: s.replace('/', '.').replace('.py::', '.').replace('::', '.')  # noqa: E731
            pn = {norm(p) for p in passed}
            missing = [w for w in b['stable_pass'] if norm(w) not in pn]
            meta['suite'] = {'passed': len(passed), 'baseline_missing': missing}
        rcc, outc = sh(f'VERIF_REPO={wt} ./check {prop} --tier quick', cwd=VERIF, timeout=3000)
        lines = [l for l in outc.split('\n') if l.strip()]
        meta['check'] = {'exit': rcc, 'violation_line': next((l for l in lines if l.startswith('VIOLATION')), None),
                         'tail': lines[-8:]}
        if old_history:
            meta['history'] = old_history
        meta['confirmed'] = bool(rc0 == 0 and rc1 != 0 and meta['patch_applies'] and
                                 (skip_suite or not meta['suite']['baseline_missing']))
        meta['caught_by_check'] = rcc == 1 and meta['check']['violation_line'] is not None
    finally:
        sh(f'git -C /repo worktree remove --force {wt}')
        # evidence/replays written by the mutant run must not stay
        sh(f'git checkout -- evidence/{prop}.json', cwd=VERIF)
    json.dump(meta, open(os.path.join(dst, 'meta.json'), 'w'), indent=1)
    print(json.dumps({k: meta[k] for k in ('seed', 'confirmed', 'caught_by_check')}), meta['check']['violation_line'])


main()
