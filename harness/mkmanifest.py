"""Regenerate /verif/MANIFEST.json from the property modules (harness/props/Cxx.py: MANIFEST dict)."""
import importlib
import json
import os
import sys

HERE = os.path.dirname(os.path.abspath(__file__))
sys.path.insert(0, HERE)
VERIF = os.path.dirname(HERE)

props = [json.loads(l)['id'] for l in open(os.path.join(VERIF, 'properties.jsonl'))]
ready = set(open(os.path.join(HERE, 'ready.txt')).read().split())
checks, na = [], []
for pid in props:
    path = os.path.join(HERE, 'props', f'{pid}.py')
    if pid not in ready or not os.path.exists(path):
        na.append({'property_id': pid, 'reason': 'check not built yet (planned in DESIGN.md section 4); not claimed'})
        continue
    src = open(path).read()
    # read MANIFEST dict without importing asyncssh-heavy modules
    ns = {}
    start = src.index('MANIFEST = ')
    depth, i = 0, src.index('{', start)
    j = i
    while True:
        if src[j] == '{':
            depth += 1
        elif src[j] == '}':
            depth -= 1
            if depth == 0:
                break
        j += 1
    exec('MANIFEST = ' + src[i:j + 1], ns)
    m = ns['MANIFEST']
    checks.append({
        'property_id': pid,
        'quick_cmd': f'./check {pid} --tier quick',
        'thorough_cmd': f'./check {pid} --tier thorough',
        'evidence_file': f'evidence/{pid}.json',
        'replay_cmd_template': f'./check {pid} --replay {{path}}',
        'engine': 'lean4-model+correspondence',
        'level_claimed': {'category': 'proof', 'text': m['text'], 'design_ref': m.get('design_ref', f'DESIGN.md section 4 ({pid})')},
        'level_note': m['note'],
        'technique': m.get('technique', 'Lean 4 theorems about an executable model; model tied to the code by '
                                       'regenerated tables and a differential correspondence run'),
    })
manifest = {
    'version': 1,
    'setup_cmd': './setup.sh',
    'hooks': {
        'guard': 'ASYNCSSH_VERIF',
        'enable': 'no source hooks: checks import /repo as it is and intercept from outside (in-memory transports, '
                  'hostile in-process peers, patched clocks)',
        'baseline_off_cmd': 'cd /repo && /venv/bin/python -m pytest -ra -q -p no:cacheprovider --timeout=900 '
                            '--continue-on-collection-errors',
        'source_commits': [],
        'add_only': True,
    },
    'engines': [{
        'name': 'lean4-model+correspondence', 'path': 'harness/run.py',
        'serves_properties': [c['property_id'] for c in checks],
        'kind_free_text': 'Lean 4 proofs (lean/AsyncsshModel/Props) about executable models; translator + '
                          'line-protocol correspondence against the real Python code; always-on direct oracle as '
                          'failing-input search',
    }],
    'checks': checks,
    'not_applicable': na,
    'notes': 'Every check: ./check Cxx --tier quick|thorough. Exit 0 held / 1 violation (also when a phase cannot complete against the tree: no-failing-input-found) / 2 usage or missing check. '
             'known_findings.json lists recorded and fixed defects.',
}
with open(os.path.join(VERIF, 'MANIFEST.json'), 'w') as f:
    json.dump(manifest, f, indent=1)
print(f'{len(checks)} checks, {len(na)} not claimed')
