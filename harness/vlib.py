"""Shared machinery of the /verif checks.

Every property check goes through `run_property` (see harness/run.py):

  1. translate   : regenerate lean/AsyncsshModel/Gen/*.lean from /repo's current tree
  2. lake build  : re-check the property theorems (Props/Cxx.lean) against it
  3. audit       : `#print axioms`-style audit of every theorem + forbidden-token grep
  4. correspond  : run model (Lean driver) and implementation on the same inputs, diff
  5. oracle      : evaluate the property's observable predicate on the real code
  6. verdict     : exit 0 / KNOWN-FINDING lines / VIOLATION line + replay; evidence file

Exit codes: 0 held, 1 violation (with a VIOLATION line), 2 infrastructure problem.
"""

from __future__ import annotations

import contextlib
import dataclasses
import fcntl
import hashlib
import json
import os
import random
import re
import shutil
import subprocess
import sys
import tempfile
import time
from typing import Any, Callable, Dict, Iterable, List, Optional, Sequence, Tuple

VERIF = os.path.dirname(os.path.dirname(os.path.abspath(__file__)))
LEAN_DIR = os.path.join(VERIF, 'lean')
REPO = os.environ.get('VERIF_REPO', '/repo')
EVIDENCE_DIR = os.path.join(VERIF, 'evidence')
REPLAY_DIR = os.path.join(VERIF, 'replays')
KNOWN_FINDINGS = os.path.join(VERIF, 'known_findings.json')

ALLOWED_AXIOMS = {'propext', 'Classical.choice', 'Quot.sound'}
FORBIDDEN_TOKENS = re.compile(
    r'\b(sorry|admit|native_decide|bv_decide|implemented_by|unsafe)\b|^\s*axiom\s|maxHeartbeats\s+0\b',
    re.M)

TRUSTED_BASE_COMMON = [
    'Lean 4.33.0 kernel (thorough tier re-checks the .olean files with leanchecker)',
    'axioms allowed in any property theorem: propext, Classical.choice, Quot.sound '
    '(audited per theorem on every run; no native_decide, no bv_decide, no user axioms, no sorry)',
    'the Python translator (harness/translate.py) for regenerated tables/expressions, self-tested every run',
    'the correspondence harness and its canonicalisation; CPython 3.12 and its stdlib',
]


class Infra(Exception):
    """Infrastructure problem (exit 2, never a violation)."""


# ---------------------------------------------------------------------------
# results exchanged between property modules and the runner


@dataclasses.dataclass
class Failure:
    """The property fails on the real implementation for a concrete input."""
    signature: str              # stable classifier, matched against known_findings.json
    what: str                   # human-readable description
    replay: Dict[str, Any]      # enough to replay (input, op sequence, history)


@dataclasses.dataclass
class Disagreement:
    """Model and implementation differ on an input (not by itself a violation)."""
    case: Any
    model: Any
    impl: Any
    name: str = 'correspondence'


@dataclasses.dataclass
class CorrResult:
    cases: int = 0
    disagreements: List[Disagreement] = dataclasses.field(default_factory=list)
    histogram: Dict[str, int] = dataclasses.field(default_factory=dict)
    samples: List[Any] = dataclasses.field(default_factory=list)
    nontrivial: int = 0
    rule: str = ''
    exhaustive: bool = False
    notes: List[str] = dataclasses.field(default_factory=list)

    def merge(self, other: 'CorrResult') -> None:
        self.cases += other.cases
        self.disagreements += other.disagreements
        for k, v in other.histogram.items():
            self.histogram[k] = self.histogram.get(k, 0) + v
        self.samples += other.samples[:3]
        self.nontrivial += other.nontrivial
        if other.rule:
            self.rule = (self.rule + ' | ' + other.rule) if self.rule else other.rule
        self.notes += other.notes


@dataclasses.dataclass
class OracleResult:
    evaluations: int = 0
    failures: List[Failure] = dataclasses.field(default_factory=list)
    histogram: Dict[str, int] = dataclasses.field(default_factory=dict)
    samples: List[Any] = dataclasses.field(default_factory=list)
    nontrivial: int = 0
    rule: str = ''
    notes: List[str] = dataclasses.field(default_factory=list)

    def merge(self, other: 'OracleResult') -> None:
        self.evaluations += other.evaluations
        self.failures += other.failures
        for k, v in other.histogram.items():
            self.histogram[k] = self.histogram.get(k, 0) + v
        self.samples += other.samples[:3]
        self.nontrivial += other.nontrivial
        if other.rule:
            self.rule = (self.rule + ' | ' + other.rule) if self.rule else other.rule
        self.notes += other.notes


class Hist(dict):
    def hit(self, key: str, n: int = 1) -> None:
        self[key] = self.get(key, 0) + n


# ---------------------------------------------------------------------------
# context handed to property modules


class Ctx:
    def __init__(self, prop: str, tier: str, seed: int):
        self.prop = prop
        self.tier = tier
        self.seed = seed
        self.rng = random.Random(f'{prop}:{seed}')
        self.escalated = False          # set when a proof or the correspondence broke
        self.suspects: List[Any] = []   # inputs from disagreements, to be tried by the oracle first
        self.deadline = time.time() + (600 if tier == 'quick' else 3600)
        self._tmp: List[str] = []
        self.translator_fallbacks: List[str] = []
        self.notes: List[str] = []

    # volume helper: quick n, thorough n*k, escalated at least thorough
    def n(self, quick: int, thorough: Optional[int] = None) -> int:
        if thorough is None:
            thorough = quick * 10
        return thorough if (self.tier == 'thorough' or self.escalated) else quick

    def subrng(self, label: str) -> random.Random:
        return random.Random(f'{self.prop}:{self.seed}:{label}')

    def tmpdir(self) -> str:
        base = os.environ.get('TMPDIR', '/tmp')
        d = tempfile.mkdtemp(prefix=f'verif-{self.prop}-', dir=base)
        self._tmp.append(d)
        return d

    def cleanup(self) -> None:
        for d in self._tmp:
            shutil.rmtree(d, ignore_errors=True)
        self._tmp = []

    def model(self, driver: str, lines: Sequence[str], timeout: int = 600) -> List[str]:
        return run_driver(driver, lines, timeout=timeout)


# ---------------------------------------------------------------------------
# Lean side


@contextlib.contextmanager
def lean_lock():
    os.makedirs(os.path.join(LEAN_DIR, '.lake'), exist_ok=True)
    with open(os.path.join(LEAN_DIR, '.lake', 'verif.lock'), 'w') as f:
        fcntl.flock(f, fcntl.LOCK_EX)
        try:
            yield
        finally:
            fcntl.flock(f, fcntl.LOCK_UN)


def write_if_changed(path: str, content: str) -> bool:
    try:
        with open(path) as f:
            if f.read() == content:
                return False
    except FileNotFoundError:
        pass
    os.makedirs(os.path.dirname(path), exist_ok=True)
    tmp = path + '.tmp%d' % os.getpid()
    with open(tmp, 'w') as f:
        f.write(content)
    os.replace(tmp, path)
    return True


def module_path(mod: str) -> str:
    return os.path.join(LEAN_DIR, *mod.split('.')) + '.lean'


_THEOREM_RE = re.compile(r'^(?:@\[[^\]]*\]\s*)?(?:protected\s+|private\s+)?theorem\s+([^\s:({\[]+)', re.M)


def strip_lean_comments(src: str) -> str:
    out = []
    i, n, depth = 0, len(src), 0
    while i < n:
        if src.startswith('/-', i):
            depth += 1
            i += 2
        elif depth and src.startswith('-/', i):
            depth -= 1
            i += 2
        elif depth:
            if src[i] == '\n':
                out.append('\n')
            i += 1
        elif src.startswith('--', i):
            while i < n and src[i] != '\n':
                i += 1
        else:
            out.append(src[i])
            i += 1
    return ''.join(out)


def theorems_in(mod: str) -> List[Tuple[str, int]]:
    """(name, line) of every theorem declared in a Props module's source."""
    src = strip_lean_comments(open(module_path(mod)).read())
    res = []
    for m in _THEOREM_RE.finditer(src):
        res.append((m.group(1), src.count('\n', 0, m.start()) + 1))
    return res


def lake_build(targets: Sequence[str], timeout: int = 1800) -> Tuple[bool, str]:
    with lean_lock():
        p = subprocess.run(['lake', 'build', *targets], cwd=LEAN_DIR, text=True,
                           stdout=subprocess.PIPE, stderr=subprocess.STDOUT, timeout=timeout)
    return p.returncode == 0, p.stdout


def failing_theorems(log: str, props_mods: Sequence[str]) -> Dict[str, List[str]]:
    """Map build-log errors to the theorem they fall in.  Returns {module: [theorem,...]};
    a module with an error that cannot be placed (or an import that failed) maps to ['<module>']."""
    res: Dict[str, List[str]] = {}
    for mod in props_mods:
        rel = os.path.join(*mod.split('.')) + '.lean'
        thms = theorems_in(mod)
        bad: List[str] = []
        for m in re.finditer(r'error: (?:\./)?' + re.escape(rel) + r':(\d+):\d+', log):
            line = int(m.group(1))
            owner = None
            for name, l in thms:
                if l <= line:
                    owner = name
            bad.append(owner or '<module>')
        if not bad and re.search(r'(error|✖).*' + re.escape(mod) + r'\b', log):
            bad.append('<module>')
        if bad:
            res[mod] = sorted(set(bad))
    return res


AUDIT_TEMPLATE = '''import Lean
{imports}
open Lean Elab Command in
run_cmd do
  let env ← getEnv
  for modName in [{mods}] do
    let some idx := env.getModuleIdx? modName | throwError "module not loaded"
    for n in env.header.moduleData[idx.toNat]!.constNames do
      if n.isInternalDetail then continue
      match env.find? n with
      | some (.thmInfo _) =>
        let axs ← collectAxioms n
        logInfo m!"AXIOMS {{n}} := {{axs.toList}}"
      | _ => pure ()
'''


def audit(props_mods: Sequence[str], prop: str) -> Tuple[Dict[str, List[str]], List[str]]:
    """Returns ({theorem: [axioms]}, problems)."""
    problems: List[str] = []
    imports = '\n'.join(f'import {m}' for m in props_mods)
    mods = ', '.join('`' + m for m in props_mods)
    path = os.path.join(LEAN_DIR, 'Audit', f'{prop}.lean')
    write_if_changed(path, AUDIT_TEMPLATE.format(imports=imports, mods=mods))
    p = subprocess.run(['lake', 'env', 'lean', path], cwd=LEAN_DIR, text=True,
                       stdout=subprocess.PIPE, stderr=subprocess.STDOUT, timeout=900)
    axioms: Dict[str, List[str]] = {}
    for m in re.finditer(r'AXIOMS (\S+) := \[(.*?)\]', p.stdout):
        axs = [a.strip() for a in m.group(2).split(',') if a.strip()]
        axioms[m.group(1)] = axs
        extra = [a for a in axs if a not in ALLOWED_AXIOMS]
        if extra:
            problems.append(f'theorem {m.group(1)} depends on disallowed axioms {extra}')
    if p.returncode != 0:
        problems.append('audit file failed to elaborate: ' + p.stdout[-800:])
    # forbidden tokens anywhere in the import closure of the property's modules (comments stripped)
    for mod in import_closure(props_mods):
        fp = module_path(mod)
        try:
            src = strip_lean_comments(open(fp).read())
        except FileNotFoundError:
            continue
        m = FORBIDDEN_TOKENS.search(src)
        if m:
            problems.append(f'forbidden token {m.group(0).strip()!r} in {os.path.relpath(fp, LEAN_DIR)}')
    return axioms, problems


def import_closure(mods: Sequence[str]) -> List[str]:
    """All AsyncsshModel.* modules reachable through `import` lines from the given modules."""
    seen: List[str] = []
    todo = list(mods)
    while todo:
        m = todo.pop()
        if m in seen:
            continue
        seen.append(m)
        try:
            src = open(module_path(m)).read()
        except FileNotFoundError:
            continue
        for im in re.findall(r'^import\s+(AsyncsshModel\.[\w.]+)', src, re.M):
            todo.append(im)
    return seen


def run_driver(driver: str, lines: Sequence[str], timeout: int = 600) -> List[str]:
    """Pipe `lines` through `lake env lean --run <driver>`; one output line per input line."""
    data = ''.join(l + '\n' for l in lines)
    for l in lines:
        if '\n' in l:
            raise Infra('newline inside a driver line')
    p = subprocess.run(['lake', 'env', 'lean', '--run', driver], cwd=LEAN_DIR, input=data,
                       text=True, stdout=subprocess.PIPE, stderr=subprocess.PIPE, timeout=timeout)
    out = p.stdout.split('\n')
    if out and out[-1] == '':
        out.pop()
    if p.returncode != 0 or len(out) != len(lines):
        raise DriverBroken(f'driver {driver} rc={p.returncode} lines in={len(lines)} out={len(out)}: '
                           + (p.stderr or p.stdout)[-600:])
    return out


class DriverBroken(Exception):
    """The Lean driver does not build/run (treated as a broken correspondence)."""


def leanchecker(mods: Sequence[str]) -> Tuple[bool, str]:
    p = subprocess.run(['lake', 'env', 'leanchecker', *mods], cwd=LEAN_DIR, text=True,
                       stdout=subprocess.PIPE, stderr=subprocess.STDOUT, timeout=3000)
    return p.returncode == 0, p.stdout[-1500:]


# ---------------------------------------------------------------------------
# hex helpers for the line protocol


def hx(b: bytes) -> str:
    return b.hex() if b else '-'


def unhx(s: str) -> bytes:
    return b'' if s == '-' else bytes.fromhex(s)


# ---------------------------------------------------------------------------
# known findings


def load_known_findings(prop: str) -> List[Dict[str, Any]]:
    try:
        data = json.load(open(KNOWN_FINDINGS))
    except FileNotFoundError:
        return []
    out = [e for e in data.get('findings', []) if e.get('property') == prop]
    extra = os.environ.get('VERIF_KNOWN_EXTRA')     # development only: entries not yet merged into the file
    if extra and os.path.exists(extra):
        out += [e for e in json.load(open(extra)).get('findings', []) if e.get('property') == prop]
    return out


# ---------------------------------------------------------------------------
# misc


def ast_pin(path: str, qualname: str) -> str:
    """Normalised-AST hash of a function/class in the repo (T3 pins; escalation only)."""
    import ast
    src = open(os.path.join(REPO, path)).read()
    tree = ast.parse(src)
    parts = qualname.split('.')

    def find(body, parts):
        for node in body:
            if isinstance(node, (ast.FunctionDef, ast.AsyncFunctionDef, ast.ClassDef)) and node.name == parts[0]:
                if len(parts) == 1:
                    return node
                return find(node.body, parts[1:])
        return None
    node = find(tree.body, parts)
    if node is None:
        return 'missing'
    # drop docstrings
    for n in ast.walk(node):
        if isinstance(n, (ast.FunctionDef, ast.AsyncFunctionDef, ast.ClassDef)) and n.body and \
                isinstance(n.body[0], ast.Expr) and isinstance(getattr(n.body[0], 'value', None), ast.Constant) \
                and isinstance(n.body[0].value.value, str):
            n.body = n.body[1:] or [ast.Pass()]
    return hashlib.sha256(ast.dump(node, annotate_fields=False).encode()).hexdigest()[:16]


def shrink_list(items: List[Any], still_fails: Callable[[List[Any]], bool], budget: int = 200) -> List[Any]:
    """Greedy delta-debugging over a list."""
    cur = list(items)
    chunk = max(1, len(cur) // 2)
    while chunk >= 1 and budget > 0:
        i = 0
        changed = False
        while i < len(cur) and budget > 0:
            cand = cur[:i] + cur[i + chunk:]
            budget -= 1
            if cand != cur and still_fails(cand):
                cur = cand
                changed = True
            else:
                i += chunk
        if not changed:
            chunk //= 2
    return cur
