"""Run the repository's pinned test suite (guard off) and compare with /root/.vp/BASELINE.json stable_pass."""
import json, subprocess, sys, tempfile, xml.etree.ElementTree as ET
b = json.load(open('/root/.vp/BASELINE.json'))
with tempfile.NamedTemporaryFile(suffix='.xml') as f:
    import os
    repo = os.environ.get('VERIF_REPO')       # another checkout (a scratch worktree with a candidate repair)
    env = dict(os.environ, PYTHONPATH=repo) if repo else None
    cmd = b['cmd'].replace('<file>', f.name)
    if repo:
        cmd = cmd.replace('cd /repo ', 'cd %s ' % repo)
    subprocess.run(cmd, shell=True, stdout=subprocess.DEVNULL, stderr=subprocess.DEVNULL, env=env)
    root = ET.parse(f.name).getroot()
passed = set()
for tc in root.iter('testcase'):
    if not any(ch.tag in ('failure', 'error', 'skipped') for ch in tc):
        passed.add(f"{tc.get('classname')}::{tc.get('name')}")
want = set(b['stable_pass'])
norm = lambda s: s.replace('/', '.').replace('.py::', '.').replace('::', '.')
pn = {norm(p) for p in passed}
missing = [w for w in want if norm(w) not in pn]
print(f'passed now {len(passed)}, baseline {len(want)}, baseline tests not passing now: {len(missing)}')
for m in missing[:20]:
    print('  MISSING', m)
sys.exit(1 if missing else 0)
