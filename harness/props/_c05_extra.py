"""C05 helpers: the parts of the check that need real files or real authorized_keys options.

* `options_scripts` / `run_options_script`: a real server whose users' keys come from an authorized_keys list WITH
  options; a raw scripted client sends probes, bad signatures, good signatures and passwords in any order; afterwards
  the restrictions in force (`get_key_option`, `check_key_permission`, `get_certificate_option`) must be those of the
  credential that was accepted (property text: "the restrictions attached to the accepted credential are the ones
  enforced afterwards").  The same scripts drive the Lean model (`run2o`: Auth.St.keyOpts).
* `keysfile_cases` / `run_keysfile_case`: a server configured with `AuthorizedKeysFile dir/%u dir/%u.2`; users whose
  files are missing / hold no key / hold a key, logging in with a valid password or key through the real client
  (property text: "a client presenting a valid credential ... is admitted").
"""

from __future__ import annotations

import asyncio
import os
import random
import struct
from typing import Any, Dict, List, Optional, Tuple
from unittest import mock

import asyncssh
from asyncssh import connection as connmod
from asyncssh import packet as packetmod

import capture
import pair

MSG_USERAUTH_REQUEST = 50
ALGS = dict(encryption_algs=['chacha20-poly1305@openssh.com'], kex_algs=['curve25519-sha256'],
            compression_algs=['none'], mac_algs=())

_KEYS: Dict[str, Any] = {}


def key(name: str) -> Any:
    if name not in _KEYS:
        _KEYS[name] = asyncssh.generate_private_key('ssh-ed25519')
    return _KEYS[name]


def pub(name: str) -> str:
    return key(name).export_public_key('openssh').decode().strip()


def S(b: bytes) -> bytes:
    return struct.pack('>I', len(b)) + b


class RawClient:
    """a real SSHClientConnection taken through key exchange and the service request with its own authentication
    switched off; the harness writes the USERAUTH packets"""

    def __init__(self) -> None:
        self.c: Any = None
        self.s: Any = None
        self._stack: List[Any] = []

    async def open(self, server_factory: Any, server_opts: Dict[str, Any]) -> bool:
        p = mock.patch.object(connmod.SSHClientConnection, 'try_next_auth', lambda self_, **kw: None)
        self.tap, self.kt = capture.PacketTap(), capture.KeyTap()
        for cm in (p, self.tap, self.kt):
            cm.__enter__()
            self._stack.append(cm)
        coro, self.s, self.hub = await pair.make_pair(server_factory=server_factory, connect=False,
                                                      server_opts=dict(**server_opts, **ALGS), client_opts=dict(**ALGS))
        self.task = asyncio.ensure_future(coro)
        for _ in range(600):
            t = self.hub.trans.get('client')
            self.c = t.proto if t is not None else None
            if self.c is not None and getattr(self.c, '_auth_in_progress', False):
                break
            await asyncio.sleep(0.005)
        if self.c is None or not getattr(self.c, '_auth_in_progress', False):
            return False
        await pair.settle(5)
        c = self.c

        class DummyAuth(packetmod.SSHPacketLogger):
            """stands in for the client's auth object so that the real client tolerates every reply"""
            _conn = c           # capture.PacketTap attributes the packets it is handed to this connection

            @property
            def logger(self_) -> Any:
                return c.logger

            def auth_failed(self_) -> None:
                pass

            def auth_succeeded(self_) -> None:
                pass

            def cancel(self_) -> None:
                pass

            def process_packet(self_, *a: Any) -> bool:
                return True
        self._dummy = DummyAuth
        c._auth = DummyAuth()
        self.sid = self.kt.keys[id(c)][0][1]
        self.recv0 = len(self.tap.recv.get(id(c), []))
        return True

    def request(self, payload: bytes) -> None:
        if getattr(self.c, '_auth', None) is None and not getattr(self.c, '_auth_complete', False):
            self.c._auth = self._dummy()
        self.c.send_packet(MSG_USERAUTH_REQUEST, payload)

    def replies(self) -> str:
        types = [p[0] for _q, p, _n in self.tap.recv.get(id(self.c), [])[self.recv0:]]
        return ''.join({51: 'F', 52: 'S', 60: 'P', 3: 'U'}.get(t, '') for t in types)

    async def close(self) -> None:
        for conn in (self.c, self.s):
            try:
                if conn is not None:
                    conn.abort()
            except Exception:
                pass
        if getattr(self, 'task', None) is not None:
            self.task.cancel()
            await asyncio.gather(self.task, return_exceptions=True)
        await pair.settle(5)
        for cm in reversed(self._stack):
            cm.__exit__(None, None, None)
        self._stack = []


# ---------------------------------------------------------------------------------------------------------------
# key / certificate options


class OptionsServer(asyncssh.SSHServer):
    def __init__(self, rec: Dict[str, Any]):
        self.rec = rec

    def begin_auth(self, username: str) -> bool:
        return True

    def password_auth_supported(self) -> bool:
        return True

    def validate_password(self, username: str, password: str) -> bool:
        return username == 'user1' and password == 'pw1'

    def auth_completed(self) -> None:
        self.rec['auth_completed'] = True


def authorized_keys_with_options() -> Any:
    """key0: forced command, no pty, an environment variable; key1: another environment variable; key2: not listed;
    a CA whose certificates may carry their own options"""
    return asyncssh.import_authorized_keys(
        'command="key0",no-pty,no-port-forwarding,environment="K=0" %s\n'
        'environment="K=1" %s\n'
        'cert-authority %s\n' % (pub('opt0'), pub('opt1'), pub('optca')))


def _cert() -> Any:
    if 'cert' not in _KEYS:
        _KEYS['cert'] = key('optca').generate_user_certificate(
            key('optcertkey'), 'somebody', principals=['user1'], force_command='cert-forced', permit_pty=False,
            permit_port_forwarding=False)
    return _KEYS['cert']


def options_request(tok: str, sid: bytes) -> bytes:
    head = S(b'user1') + S(b'ssh-connection')
    kind, _, arg = tok.partition(':')
    if kind == 'pw':
        return head + S(b'password') + b'\0' + S(b'pw' + arg.encode())
    if kind == 'certprobe':
        crt = _cert()
        return head + S(b'publickey') + b'\0' + S(crt.algorithm) + S(crt.public_data)
    k = key('opt' + arg)
    if kind == 'probe':
        return head + S(b'publickey') + b'\0' + S(k.algorithm) + S(k.public_data)
    body = head + S(b'publickey') + b'\1' + S(k.algorithm) + S(k.public_data)
    signed = S(sid) + bytes([MSG_USERAUTH_REQUEST]) + body
    sig = k.sign(signed, k.algorithm)
    if kind == 'badsig':
        sig = sig[:-1] + bytes([sig[-1] ^ 1])
    return body + S(sig)


OPTION_TOKENS = ['probe:0', 'probe:1', 'probe:2', 'sig:0', 'sig:1', 'sig:2', 'badsig:0', 'badsig:1', 'pw:1', 'pw:0',
                 'certprobe']

OPTION_CORPUS = [
    ['probe:0', 'pw:1'],                    # A-C05 D1: a probed key's options on a password session
    ['badsig:0', 'pw:1'],                   # ... a key whose signature failed
    ['pw:1'],
    ['probe:0', 'sig:0'],
    ['probe:0', 'sig:1'],                   # options of key 0 must give way to those of key 1
    ['probe:1', 'badsig:0', 'sig:1'],
    ['sig:0', 'probe:1', 'pw:1'],           # everything after success is ignored
    ['probe:0', 'sig:2', 'pw:0', 'pw:1'],
    ['certprobe', 'sig:1'],                 # D1b: a probed certificate's options on a session of a plain key
    ['certprobe', 'pw:1'],
    ['certprobe', 'probe:0', 'sig:0'],
]


def options_scripts(rng: random.Random, n: int) -> List[List[str]]:
    out = [list(x) for x in OPTION_CORPUS]
    for _ in range(n):
        out.append([rng.choice(OPTION_TOKENS) for _ in range(rng.randint(1, 5))])
    return out


async def run_options_script(tokens: List[str]) -> Dict[str, Any]:
    rec: Dict[str, Any] = {'auth_completed': False}
    out: Dict[str, Any] = {'tokens': tokens}
    rc = RawClient()
    try:
        if not await rc.open(lambda: OptionsServer(rec), dict(authorized_client_keys=authorized_keys_with_options())):
            out['skip'] = 'client-never-reached-auth'
            return out
        for tok in tokens:
            rc.request(options_request(tok, rc.sid))
            await pair.settle(12)
        await pair.settle(10)
        s = rc.s
        out['replies'] = rc.replies()
        out['complete'] = rec['auth_completed'] and s.get_extra_info('username') == 'user1'
        out['closed'] = s.is_closed()
        env = s.get_key_option('environment') or {}
        out['command'] = s.get_key_option('command')
        out['env'] = dict(env) if isinstance(env, dict) else env
        out['pty'] = s.check_key_permission('pty')
        out['portfwd'] = s.check_key_permission('port-forwarding')
        out['cert_command'] = s.get_certificate_option('force-command')
        out['cert_pty'] = s.check_certificate_permission('pty')
    finally:
        await rc.close()
    return out


def options_model_line(tokens: List[str]) -> str:
    """the same script for the Lean driver: user 1, keys 0 and 1 authorised, password 1 valid, begin_auth synchronous;
    every validation completes at once (authorized_keys lookups and this server's validate_password do not suspend)"""
    evs = []
    for i, tok in enumerate(tokens):
        kind, _, arg = tok.partition(':')
        if kind == 'certprobe':
            # a certificate of a key nobody here signs with: the model's key 2 is "not authorised", the probe of
            # the certificate itself is accepted by the CA line; the model has no certificates (oracle only)
            return ''
        m = {'pw': 'password', 'probe': 'pkprobe', 'sig': 'pksig1', 'badsig': 'pksig0'}[kind]
        evs += [f'req:1:{m}:{arg}', f'val:{i}']
    q = os.environ.get('VERIF_C05_QUIRKS', '')       # developer aid, see C05.model_line
    return f'run2o{"q" + q if q else ""} 0010 - 1:1 1:0,1:1 - - - - - - - ' + ' '.join(evs)


def options_impl_line(o: Dict[str, Any]) -> str:
    opts = '0' if o['command'] == 'key0' else ('1' if o['env'].get('K') == '1' else '-')
    return (f'out={o["replies"]} complete={1 if o["complete"] else "-"} closed={1 if o["closed"] else 0} '
            f'opts={opts}')


def options_expected(tokens: List[str]) -> Optional[Dict[str, Any]]:
    """judged from the property text: the restrictions of the credential that was accepted (the first request that
    presents a valid credential), or None if no request does"""
    for tok in tokens:
        if tok == 'pw:1':
            return dict(command=None, env={}, pty=True, portfwd=True, cert_command=None, cert_pty=True, by='password')
        if tok == 'sig:0':
            return dict(command='key0', env={'K': '0'}, pty=False, portfwd=False, cert_command=None, cert_pty=True,
                        by='key 0')
        if tok == 'sig:1':
            return dict(command=None, env={'K': '1'}, pty=True, portfwd=True, cert_command=None, cert_pty=True,
                        by='key 1')
    return None


# ---------------------------------------------------------------------------------------------------------------
# AuthorizedKeysFile per user


class KeysFileServer(asyncssh.SSHServer):
    def __init__(self, rec: Dict[str, Any]):
        self.rec = rec

    def connection_lost(self, exc: Optional[Exception]) -> None:
        self.rec['lost'] = type(exc).__name__ if exc else 'None'

    def begin_auth(self, username: str) -> bool:
        self.rec['calls'].append(('begin_auth', username))
        return True

    def password_auth_supported(self) -> bool:
        return True

    def validate_password(self, username: str, password: str) -> bool:
        self.rec['calls'].append(('validate_password', username))
        return password == 'pw-' + username


def keysfile_setup(tmp: str) -> str:
    """alice: a key in the first file; bob: no file at all; carol: first file holds a comment, second a key;
    dave: a key in the first file, no second; erin: a comment only"""
    line = pub('userkey') + '\n'
    files = {'alice': line, 'carol': '# no keys yet\n', 'carol.2': line, 'dave': line, 'erin': '# nothing\n',
             'frank.2': line}
    for name, text in files.items():
        with open(os.path.join(tmp, name), 'w') as f:
            f.write(text)
    cfg = os.path.join(tmp, 'sshd_config')
    with open(cfg, 'w') as f:
        f.write(f'AuthorizedKeysFile {tmp}/%u {tmp}/%u.2\n')
    return cfg


# (user, credential, must be admitted, description of the user's authorized_keys files)
KEYSFILE_CASES: List[Tuple[str, str, bool, str]] = [
    ('alice', 'password', True, 'first file holds a key'),
    ('alice', 'key', True, 'first file holds a key'),
    ('bob', 'password', True, 'no authorized_keys file exists'),
    ('bob', 'key', False, 'no authorized_keys file exists'),
    ('bob', 'wrong-password', False, 'no authorized_keys file exists'),
    ('carol', 'password', True, 'first file holds only a comment, second a key'),
    ('carol', 'key', True, 'first file holds only a comment, second a key'),
    ('dave', 'password', True, 'first file holds a key, second is missing'),
    ('dave', 'key', True, 'first file holds a key, second is missing'),
    ('erin', 'password', True, 'only file holds only a comment'),
    ('erin', 'key', False, 'only file holds only a comment'),
    ('frank', 'key', True, 'first file is missing, second holds a key'),
    ('frank', 'other-key', False, 'first file is missing, second holds a key'),
]


async def run_keysfile_case(cfg: str, user: str, cred: str) -> Dict[str, Any]:
    rec: Dict[str, Any] = {'calls': []}
    copts: Dict[str, Any] = dict(username=user, **ALGS)
    if cred == 'password':
        copts['password'] = 'pw-' + user
    elif cred == 'wrong-password':
        copts['password'] = 'nope'
    elif cred == 'key':
        copts['client_keys'] = [key('userkey')]
    else:
        copts['client_keys'] = [key('strangerkey')]
    out: Dict[str, Any] = {'user': user, 'cred': cred}
    try:
        c, s, _hub = await asyncio.wait_for(pair.make_pair(
            server_factory=lambda: KeysFileServer(rec), server_opts=dict(config=[cfg], **ALGS), client_opts=copts), 20)
    except Exception as e:
        out['admitted'] = False
        out['detail'] = f'{type(e).__name__}: {e}'
        out['server_lost'] = rec.get('lost')
        out['calls'] = rec['calls']
        return out
    out['admitted'] = s.get_extra_info('username') == user
    out['detail'] = 'authenticated as %r' % s.get_extra_info('username')
    out['calls'] = rec['calls']
    c.abort()
    await pair.settle(5)
    return out
