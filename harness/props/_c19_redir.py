"""C19 helpers for the half of asyncssh/process.py that FEEDS a channel (redirect sources: set_reader / feed_data /
feed_eof / pause-resume fan-out / the `_should_block_drain` override) and for two streams sharing one session.

Everything here drives the real code in-process through `pair.make_pair` (socket-free client/server pair) or through
the session's own entry points; no model knowledge.  Each scenario returns None or (signature, description).

Scenario families (one root cause each, see the audit findings A-C19-1..8):
  drain_gone        drain() on a stream fed by a redirect source while the channel / connection goes away
  two_sources       stdout AND stderr of a server process redirected from two sources; one ends first
  other_stream      unread data of the other stream brings the session to its pause limit; readline/readuntil
  late_redirect     redirect(stdout=<another process's stdin>, recv_eof=False) after EOF has arrived
  backpressure      two StreamReader sources, one runs into flow control while the other is idle
  closed_channel    a source delivers / ends after its channel was closed; the connection's other channels
  cancelled_read    a readexactly() cancelled while it waits (recorded finding)
  undecodable       undecodable text flushed out of a paused channel inside read() (recorded finding)
"""

from __future__ import annotations

import asyncio
import os
from typing import Any, Dict, List, Optional, Sequence, Tuple

import asyncssh
from asyncssh.constants import EXTENDED_DATA_STDERR
from asyncssh.process import SSHServerProcess
from asyncssh.stream import SSHWriter

import pair
from vlib import hx
from props import _c19_impl as I

SIG_DRAIN_GONE = 'drain:never-returns:channel-gone-while-redirect-source-active'
SIG_DRAIN_CUT_RETURNS = 'drain:returns-normally:connection-lost-while-redirect-source-active'
SIG_TWO_SOURCES = 'redirect-sources:eof-sent-when-first-of-two-sources-ended:data-of-the-other-lost'
SIG_OTHER_EMPTY = 'stream-read:empty-result-without-eof:other-stream-filled-the-pause-limit'
SIG_OTHER_CUT = 'stream-read:line-cut-without-eof:other-stream-filled-the-pause-limit'
SIG_OTHER_SPIN = 'stream-read:async-for-spins-without-yielding:other-stream-filled-the-pause-limit'
SIG_LATE_REDIRECT = 'redirect-process:recv_eof-false-ignored:eof-arrived-before-redirect'
SIG_BACKPRESSURE = 'redirect-sources:resume-after-back-pressure:connection-torn-down'
SIG_CLOSED_CHANNEL = 'redirect-sources:source-active-after-its-channel-closed:connection-torn-down'
SIG_CANCELLED_READ = 'stream-read:cancelled-read-loses-collected-data'
SIG_UNDECODABLE = 'exit-status-with-output-hole:undecodable-text-flushed-inside-read'

SIG_DRAIN_PEER_CLOSE_HANGS = 'drain:never-returns:peer-closed-with-data-unsent-while-received-data-is-unread'
SIG_DRAIN_PEER_CLOSE_RETURNS = 'drain:returns-normally:peer-closed-with-data-unsent'
SIG_DRAIN_FALSE_FAILURE = 'drain:fails-although-all-data-was-sent-and-the-channel-is-still-there'

Bad = Optional[Tuple[str, str]]


async def idle(hub: Any, rounds: int = 20) -> None:
    """until nothing is in flight in either direction and the loop has run dry"""
    for _ in range(4000):
        if not (hub.queues[pair.C2S] or hub.queues[pair.S2C]):
            await pair.settle(rounds)
            if not (hub.queues[pair.C2S] or hub.queues[pair.S2C]):
                return
        await asyncio.sleep(0)


def outcome(task: 'asyncio.Future[Any]') -> str:
    if not task.done():
        return 'pending'
    if task.cancelled():
        return 'cancelled'
    e = task.exception()
    if e is None:
        return 'returned'
    return 'raised:' + type(e).__name__


class LostRecorder(asyncssh.SSHServer):
    """server object that remembers with what its connection was closed"""
    lost: List[Any] = []

    def begin_auth(self, username: str) -> bool:
        return False

    def connection_lost(self, exc: Optional[Exception]) -> None:
        type(self).lost.append(exc)


def lost_recorder() -> Any:
    return type('LostRec', (LostRecorder,), {'lost': []})


# ---------------------------------------------------------------------------
# A-C19-1: drain() and the loss of the channel while a redirect source is registered


async def drain_gone(side: str, how: str) -> Bad:
    """side 'client': stdin of a client process redirected from a source that never ends, drain() on p.stdin;
    side 'server': stdout of a server process redirected likewise, drain() in the handler.
    how: 'exit' (the peer closes the channel in an orderly way), 'cut' (transport lost), 'disconnect' (peer closes the
    connection)."""
    st: Dict[str, Any] = {}
    go = asyncio.Event()

    async def handler(process: Any) -> None:
        st['proc'] = process
        if side == 'server':
            st['src'] = asyncio.StreamReader()
            await process.redirect(stdout=st['src'])
            t = asyncio.ensure_future(process.stdout.drain())
            st['drain'] = t
            await asyncio.wait([t])
            return
        await go.wait()
        if how == 'exit':
            process.exit(0)
        elif how == 'disconnect':
            process.channel.get_connection().close()
        await asyncio.sleep(3600)
    c, sconn, hub = await pair.make_pair(server_opts=dict(process_factory=handler, encoding=None))
    try:
        if side == 'client':
            src = asyncio.StreamReader()
            p = await c.create_process('x', stdin=src, encoding=None)
            st['drain'] = asyncio.ensure_future(p.stdin.drain())
        else:
            p = await c.create_process('x', encoding=None)
        await idle(hub)
        t = st.get('drain')
        if t is None:
            return 'process-scenario:failed:drain-gone', 'the handler never reached drain()'
        if t.done():
            return None         # nothing to wait for in this tree: no claim
        if how == 'cut':
            hub.cut_transport()
        elif side == 'client':
            go.set()
        elif how == 'exit':
            p.close()
        else:
            c.close()
        await idle(hub, 40)
        await pair.settle(40)
        what = '%s side, stream fed by a redirect source that has not ended, drain() waiting; then %s' % (
            side, {'exit': 'the peer closed the channel', 'cut': 'the transport was lost',
                   'disconnect': 'the peer closed the connection'}[how])
        o = outcome(t)
        if o == 'pending':
            t.cancel()
            return SIG_DRAIN_GONE, '%s: drain() neither returned nor raised (the channel is closed)' % what
        if how == 'cut' and o == 'returned':
            return SIG_DRAIN_CUT_RETURNS, '%s: drain() returned normally' % what
        return None
    finally:
        c.abort()
        await pair.settle(10)


# ---------------------------------------------------------------------------
# drain() and the peer's CLOSE (C09 E9) / drain() after the data really went out


async def drain_peer_close(total: int, window: int, unread: int) -> Bad:
    """the documented write/drain idiom against a command that ignores its stdin: the client writes `total` bytes
    (the server's window lets a fraction through: writing pauses) and waits in drain(); the server prints `unread`
    bytes (between one and two client windows: the first window pauses the reader, the rest waits in the client's channel),
    exits and closes.  The peer's CLOSE throws the client's unsent data away; connection_lost has to wait until the
    application reads - which it does after drain().  drain() must end, and must not report success."""
    async def handler(process: Any) -> None:
        try:
            process.stdout.write(b'o' * unread)
            process.exit(1)
        except Exception:       # noqa: BLE001
            pass
    c, sconn, hub = await pair.make_pair(server_opts=dict(process_factory=handler, encoding=None, window=16384))
    try:
        p = await c.create_process('work', encoding=None, window=window)
        p.stdin.write(b'i' * total)
        t = asyncio.ensure_future(p.stdin.drain())
        await idle(hub, 40)
        await pair.settle(40)
        where = ('client wrote %d bytes to stdin (server window 16384: writing paused) and waits in drain(); the server '
                 'ignored stdin, wrote %d bytes to stdout (client window %d, nothing read yet), exited with status 1 and '
                 'closed the channel' % (total, unread, window))
        o = outcome(t)
        if not p.channel.is_closing():
            if not t.done():
                t.cancel()
            return None         # the peer's CLOSE has not come (flow control held it back): not this scenario
        if o == 'pending':
            t.cancel()
            return SIG_DRAIN_PEER_CLOSE_HANGS, ('%s: drain() neither returned nor raised (connection still up: %r); '
                                                'the application cannot get to its reads' % (where, not c.is_closed()))
        if o == 'returned':
            return SIG_DRAIN_PEER_CLOSE_RETURNS, ('%s: drain() returned normally although %d bytes were never sent and '
                                                  'nothing more can be written' % (where, total - 16384))
        try:
            r = await asyncio.wait_for(p.wait(), 10)
        except BaseException as e:      # noqa: BLE001
            return 'drain:peer-close:wait-raised:' + type(e).__name__, '%s: drain() %s, then wait() raised %r' % (where, o, e)
        if r.exit_status != 1 or len(r.stdout) != unread:
            return ('exit-status-with-incomplete-output:after-failed-drain', '%s: drain() %s; wait() gave exit status %r '
                    'with stdout %d of %d bytes' % (where, o, r.exit_status, len(r.stdout), unread))
        return None
    finally:
        c.abort()
        await pair.settle(10)


async def drain_idiom(kind: str, total: int, window: int) -> Bad:
    """a drain() that has to wait and whose data IS delivered: 'eof' = write(total); write_eof(); drain() in a
    server handler; 'redirect' = redirect(stdout=source); drain() (examples/redirect_server.py), the source delivers
    `total` bytes and ends.  The client reads everything.  The call must return normally: the channel is still there."""
    st: Dict[str, Any] = {}
    src = asyncio.StreamReader()
    ready = asyncio.Event()

    async def handler(process: Any) -> None:
        try:
            if kind == 'eof':
                process.stdout.write(b'x' * total)
                process.stdout.write_eof()
            else:
                await process.redirect(stdout=src)
            ready.set()
            await process.stdout.drain()
            st['drain'] = 'returned'
        except BaseException as e:      # noqa: BLE001
            st['drain'] = 'raised ' + type(e).__name__
        try:
            process.exit(0)
        except Exception:       # noqa: BLE001
            pass
    c, sconn, hub = await pair.make_pair(server_opts=dict(process_factory=handler, encoding=None))
    try:
        p = await c.create_process('x', encoding=None, window=window, stdin=asyncssh.DEVNULL)
        await asyncio.wait_for(ready.wait(), 10)
        await idle(hub)
        if 'drain' in st and kind == 'redirect':
            return None         # nothing to wait for in this tree: no claim
        if kind == 'redirect':
            src.feed_data(b'x' * total)
            src.feed_eof()
        try:
            r = await asyncio.wait_for(p.wait(), 15)
            got = (r.exit_status, len(r.stdout))
        except BaseException as e:      # noqa: BLE001
            got = ('wait() raised ' + type(e).__name__, 0)
        await pair.settle(20)
        what = {'eof': 'server handler: stdout.write(%d bytes); stdout.write_eof(); await stdout.drain()' % total,
                'redirect': 'server handler: await process.redirect(stdout=source); await process.stdout.drain(); the '
                            'source delivered %d bytes and ended' % total}[kind]
        if got[1] == total and st.get('drain', '').startswith('raised'):
            return SIG_DRAIN_FALSE_FAILURE, ('%s (client window %d): the client received all %d bytes and EOF, the '
                                             'channel was open, yet drain() %s' % (what, window, total, st['drain']))
        if got != (0, total) or st.get('drain') != 'returned':
            return ('drain:idiom:data-or-exit-status-lost', '%s: client got %r, drain() %r' % (what, got, st.get('drain')))
        return None
    finally:
        c.abort()
        await pair.settle(10)


# ---------------------------------------------------------------------------
# A-C19-2: two sources


class Source:
    """a redirect source the scenario feeds by hand: an asyncio.StreamReader or the read end of an OS pipe"""

    def __init__(self, kind: str):
        self.kind = kind
        if kind == 'stream':
            self.obj: Any = asyncio.StreamReader()
        else:
            r, self.w = os.pipe()
            self.obj = os.fdopen(r, 'rb', buffering=0)
        self.ended = False

    def feed(self, data: bytes) -> None:
        if self.kind == 'stream':
            self.obj.feed_data(data)
        else:
            os.write(self.w, data)

    def end(self) -> None:
        if self.ended:
            return
        self.ended = True
        if self.kind == 'stream':
            self.obj.feed_eof()
        else:
            os.close(self.w)

    def dispose(self) -> None:
        if self.kind != 'stream' and not self.ended:
            self.ended = True
            try:
                os.close(self.w)
            except OSError:
                pass


async def two_sources(kind: str, script: Sequence[Tuple], status: int = 3) -> Bad:
    """server process: stdout and stderr redirected from two sources (send_eof as by default); `script` is a list of
    ('d'|'D', bytes) / ('z',) / ('Z',) steps (stdout data / stdout source ends / ...), each followed by a settle;
    then the handler drains both streams and exits.  The client waits for the result."""
    srcs = {'out': Source(kind), 'err': Source(kind)}
    sent = {'out': b'', 'err': b''}
    redirected = asyncio.Event()
    played = asyncio.Event()
    st: Dict[str, Any] = {}
    rec = lost_recorder()

    async def handler(process: Any) -> None:
        try:
            await process.redirect(stdout=srcs['out'].obj, stderr=srcs['err'].obj)
            redirected.set()
            await played.wait()
            await asyncio.wait_for(process.stdout.drain(), 5)
            await asyncio.wait_for(process.stderr.drain(), 5)
            process.exit(status)
        except BaseException as e:      # noqa: BLE001
            st['handler'] = type(e).__name__
    c, sconn, hub = await pair.make_pair(server_factory=rec, server_opts=dict(process_factory=handler, encoding=None))
    try:
        p = await c.create_process('x', encoding=None, stdin=asyncssh.DEVNULL)
        await asyncio.wait_for(redirected.wait(), 10)
        for stp in script:
            if stp[0] in 'dD':
                k = 'err' if stp[0] == 'D' else 'out'
                srcs[k].feed(stp[1])
                sent[k] += stp[1]
            else:
                srcs['err' if stp[0] == 'Z' else 'out'].end()
            await idle(hub, 12)
        for s in srcs.values():
            s.end()
        await idle(hub, 12)
        played.set()
        try:
            r = await asyncio.wait_for(p.wait(), 10)
            got = (r.exit_status, bytes(r.stdout), bytes(r.stderr))
        except asyncio.TimeoutError:
            got = ('wait() never returned', b'', b'')
        except BaseException as e:      # noqa: BLE001
            got = ('wait() raised ' + type(e).__name__, b'', b'')
        first = next((x[0] for x in script if x[0] in 'zZ'), None)
        if got[1] != sent['out'] or got[2] != sent['err']:
            late_other = False      # did the other source deliver after the first one had ended?
            seen_end = False
            for x in script:
                if x[0] in 'zZ':
                    seen_end = True
                elif seen_end:
                    late_other = True
            what = ('server process with stdout and stderr redirected from two %s sources, steps [%s]: the client got '
                    'exit status %r with stdout %d of %d bytes, stderr %d of %d bytes; server connection closed with %r'
                    % (kind, ' '.join(x[0] + (hx(x[1]) if len(x) > 1 else '') for x in script), got[0],
                       len(got[1]), len(sent['out']), len(got[2]), len(sent['err']), (rec.lost or ['-'])[0]))
            if first is not None and late_other:
                return SIG_TWO_SOURCES, what
            return 'redirect-sources:data-or-eof-not-copied', what
        if got[0] != status:
            return ('redirect-sources:no-exit-status', 'two %s sources, all data arrived, but wait() gave %r (handler: %r)'
                    % (kind, got[0], st.get('handler')))
        return None
    finally:
        for s in srcs.values():
            s.dispose()
        c.abort()
        await pair.settle(10)


# ---------------------------------------------------------------------------
# A-C19-3: two streams of one session share the pause limit


async def other_stream_direct(limit: int, other: int, mine: bytes, op: str) -> Bad:
    """a session with two read streams driven through its own entry points: `other` bytes are buffered for the other
    stream, `mine` (no newline, no EOF) for the stream under test; then readline()/readuntil(b'\\n') is called.
    Judged: the call must not report an end that has not come.  (When this stream's OWN data reaches the limit the
    call cannot wait for more - the documented way out of a line longer than the window - no claim then.)"""
    f = I.DirectFeeder(limit, False, two_streams=True)
    if mine:
        f.chan.accept_data(mine)
    f.other_arrives(other)
    await pair.settle(4)
    coro = f.reader.readline() if op == 'readline' else f.reader.readuntil(b'\n')
    t = asyncio.ensure_future(coro)
    await pair.settle(6)
    where = ('pause limit %d, %d unread bytes on the other stream, %r buffered for this one, no EOF: %s'
             % (limit, other, mine, op))
    try:
        if not t.done():
            return None
        try:
            res: Any = t.result()
            desc = 'returned %r' % (res,)
            part = res
        except asyncio.IncompleteReadError as e:
            desc = 'raised IncompleteReadError(partial=%r)' % (e.partial,)
            part = e.partial
        except BaseException as e:      # noqa: BLE001
            return 'stream-read:two-streams:raised:' + type(e).__name__, '%s raised %r' % (where, e)
        if f.reader.at_eof():
            return 'stream-read:two-streams:at-eof-without-eof', where + ' ' + desc + ' and at_eof() is true'
        if len(mine) >= limit > 0:
            return None
        if not part:
            return SIG_OTHER_EMPTY, '%s %s although nothing was buffered and no EOF received (at_eof() false)' % (where, desc)
        return SIG_OTHER_CUT, '%s %s: a line cut short of its newline with no EOF, no signal' % (where, desc)
    finally:
        if not t.done():
            t.cancel()
            try:
                await t
            except BaseException:       # noqa: BLE001
                pass


async def other_stream_wire(window: int, pre: bytes, rest: bytes) -> Bad:
    """real client process: the server fills the client's window with stderr (after `pre` on stdout), the client
    reads lines from stdout; later it reads stderr and the server sends `rest` (ends the line) and exits"""
    go = asyncio.Event()
    sent = {'n': 0}

    async def handler(process: Any) -> None:
        try:
            if pre:
                process.stdout.write(pre)
            process.stderr.write(b'E' * (window - len(pre)))
            await go.wait()
            process.stdout.write(rest)
            process.exit(0)
        except Exception:       # noqa: BLE001
            pass
    c, sconn, hub = await pair.make_pair(server_opts=dict(process_factory=handler, encoding=None))
    try:
        p = await c.create_process('x', encoding=None, window=window)
        await idle(hub)
        where = ('client window %d; the server wrote %r to stdout and %d bytes to stderr (unread), no EOF'
                 % (window, pre, window - len(pre)))
        t = asyncio.ensure_future(p.stdout.readline())
        await pair.settle(10)
        if t.done():
            try:
                line = t.result()
            except BaseException as e:      # noqa: BLE001
                return 'stream-read:two-streams:raised:' + type(e).__name__, '%s: readline() raised %r' % (where, e)
            if not line:
                # the documented meaning of b'' is "EOF received and buffer empty"; what does `async for` make of it?
                n = 0

                async def it() -> None:
                    nonlocal n
                    async for _line in p.stdout:
                        n += 1
                        if n >= 20000:
                            break
                ticks = 0

                async def ticker() -> None:
                    nonlocal ticks
                    while True:
                        await asyncio.sleep(0)
                        ticks += 1
                tk = asyncio.ensure_future(ticker())
                try:
                    await asyncio.wait_for(it(), 5)
                except asyncio.TimeoutError:
                    pass
                tk.cancel()
                return SIG_OTHER_EMPTY, ('%s: stdout.readline() returned b\'\' with at_eof() %r; `async for line in '
                                         'stdout` then yielded %d empty lines while the event loop ran other tasks %d '
                                         'times' % (where, p.stdout.at_eof(), n, ticks))
            if not line.endswith(b'\n'):
                return SIG_OTHER_CUT, '%s: stdout.readline() returned %r (the line continues with %r)' % (where, line, rest)
            return 'stream-read:two-streams:line-from-nowhere', '%s: readline() returned %r' % (where, line)
        # the call waits, as it should: the application reads stderr, the server completes the line
        got_err = await asyncio.wait_for(p.stderr.readexactly(window - len(pre)), 10)
        go.set()
        try:
            line = await asyncio.wait_for(t, 10)
        except asyncio.TimeoutError:
            return ('stream-read:two-streams:readline-never-returns', '%s: after stderr was read and the server sent %r '
                    'readline() still waits' % (where, rest))
        want = (pre + rest).split(b'\n')[0] + b'\n'
        if line != want or len(got_err) != window - len(pre):
            return 'stream-read:readline:differs-from-specification', '%s: readline() returned %r, expected %r' % (where, line, want)
        return None
    finally:
        c.abort()
        await pair.settle(10)


# ---------------------------------------------------------------------------
# A-C19-4: redirect into another process's stdin with recv_eof=False, set up after EOF has arrived


async def late_redirect(early: bool, first: bytes, second: bytes) -> Bad:
    got: Dict[str, Any] = {'data': b'', 'eof': False}

    async def handler(process: Any) -> None:
        try:
            if process.command == 'sink':
                while True:
                    d = await process.stdin.read(65536)
                    if not d:
                        break
                    got['data'] += d
                got['eof'] = True
                process.exit(0)
            else:
                process.stdout.write(first if process.command == 'src1' else second)
                process.stdout.write_eof()
                await asyncio.sleep(3600)
        except Exception:       # noqa: BLE001
            pass
    c, sconn, hub = await pair.make_pair(server_opts=dict(process_factory=handler, encoding=None))
    try:
        sink = await c.create_process('sink', encoding=None)
        s1 = await c.create_process('src1', encoding=None)
        if not early:
            await idle(hub)         # src1's data and EOF have arrived
        await s1.redirect_stdout(sink.stdin, recv_eof=False)
        await idle(hub)
        where = ('redirect_stdout(<stdin of another process>, recv_eof=False) called %s the source\'s EOF arrived'
                 % ('before' if early else 'AFTER'))
        if got['eof']:
            return SIG_LATE_REDIRECT, ('%s: the target got EOF (received %r so far); a target redirected with '
                                       'recv_eof=False must stay open for further redirects' % (where, got['data']))
        s2 = await c.create_process('src2', encoding=None)
        await s2.redirect_stdout(sink.stdin, recv_eof=True)
        await idle(hub)
        if got['data'] != first + second or not got['eof']:
            return ('redirect-process:data-or-eof-not-copied', '%s, then a second source redirected into the same target '
                    'with recv_eof=True: target received %r eof=%r, expected %r and EOF'
                    % (where, got['data'], got['eof'], first + second))
        return None
    except Exception as e:      # noqa: BLE001
        return 'redirect-process:raised:' + type(e).__name__, 'late_redirect(early=%r): %s: %s' % (early, type(e).__name__, e)
    finally:
        c.abort()
        await pair.settle(10)


# ---------------------------------------------------------------------------
# A-C19-6: pause/resume fan-out over two StreamReader sources


async def backpressure(big: int, window: int, send_eof: bool) -> Bad:
    """stdout and stderr redirected from two asyncio.StreamReaders; `big` bytes on stdout run into flow control while
    stderr is idle; the client then reads, writing resumes, both sources deliver a little more and end."""
    rec = lost_recorder()
    st: Dict[str, Any] = {}
    redirected = asyncio.Event()
    fed = asyncio.Event()

    async def handler(process: Any) -> None:
        try:
            st['out'], st['err'] = asyncio.StreamReader(), asyncio.StreamReader()
            await process.redirect(stdout=st['out'], stderr=st['err'], send_eof=send_eof)
            redirected.set()
            await fed.wait()
            await asyncio.wait_for(process.stdout.drain(), 10)
            await asyncio.wait_for(process.stderr.drain(), 10)
            process.exit(7)
        except BaseException as e:      # noqa: BLE001
            st['handler'] = type(e).__name__
    c, sconn, hub = await pair.make_pair(server_factory=rec, server_opts=dict(process_factory=handler, encoding=None))
    try:
        p = await c.create_process('x', encoding=None, window=window, stdin=asyncssh.DEVNULL)
        await asyncio.wait_for(redirected.wait(), 10)
        await idle(hub)
        st['out'].feed_data(b'o' * big)
        await idle(hub)
        # the client starts reading: the window re-opens, the server's send buffer drains, writing resumes
        out_t = asyncio.ensure_future(p.stdout.readexactly(big))
        try:
            await asyncio.wait_for(out_t, 20)
        except (asyncio.TimeoutError, asyncio.IncompleteReadError, asyncssh.Error):
            pass
        await idle(hub)
        st['err'].feed_data(b'e' * 10)
        st['out'].feed_data(b'O' * 10)
        await idle(hub)
        st['out'].feed_eof()
        st['err'].feed_eof()
        await idle(hub)
        fed.set()
        try:
            r = await asyncio.wait_for(p.wait(), 10)
            got = (r.exit_status, len(r.stdout) + (big if out_t.done() and not out_t.cancelled() and
                                                   out_t.exception() is None else 0), bytes(r.stderr))
        except BaseException as e:      # noqa: BLE001
            got = ('wait() raised ' + type(e).__name__, 0, b'')
        if got != (7, big + 10, b'e' * 10):
            exc = (rec.lost or [None])[0]
            what = ('server process with stdout and stderr redirected from two asyncio.StreamReaders (send_eof=%r); '
                    '%d bytes on stdout (client window %d) paused writing while the stderr source was idle; after '
                    'the client had read and writing resumed both sources delivered 10 bytes and ended: the client '
                    'got exit status %r, stdout %d of %d bytes, stderr %r; server connection closed with %r'
                    % (send_eof, big, window, got[0], got[1], big + 10, got[2], exc))
            if isinstance(exc, RuntimeError) or (exc is not None and 'already waiting' in str(exc)):
                return SIG_BACKPRESSURE, what
            return 'redirect-sources:back-pressure:data-or-exit-status-lost', what
        return None
    finally:
        c.abort()
        await pair.settle(10)


# ---------------------------------------------------------------------------
# A-C19-8: a source that outlives its channel


async def closed_channel(what_later: str, kind: str = 'stream') -> Bad:
    """a server process redirects stdout from a source; the client closes THAT channel and keeps the connection;
    later the source delivers data ('data') or ends ('eof').  Another channel of the connection must go on working."""
    rec = lost_recorder()
    st: Dict[str, Any] = {}
    redirected = asyncio.Event()

    async def handler(process: Any) -> None:
        try:
            if process.command == 'redir':
                st['src'] = asyncio.StreamReader()
                await process.redirect(stdout=st['src'], send_eof=(kind != 'no-eof'))
                process.stdout.write(b'ready\n')
                redirected.set()
                await process.wait_closed()
            else:
                await process.stdin.readline()
                process.stdout.write(b'still alive\n')
                process.exit(0)
        except BaseException as e:      # noqa: BLE001
            st.setdefault('handler', []).append(type(e).__name__)
    c, sconn, hub = await pair.make_pair(server_factory=rec, server_opts=dict(process_factory=handler, encoding=None))
    try:
        other = await c.create_process('other', encoding=None)
        p = await c.create_process('redir', encoding=None)
        await asyncio.wait_for(redirected.wait(), 10)
        await asyncio.wait_for(p.stdout.readline(), 10)
        p.close()
        await asyncio.wait_for(p.wait_closed(), 10)
        await idle(hub)
        if what_later == 'data':
            st['src'].feed_data(b'late data')
        else:
            st['src'].feed_eof()
        await idle(hub, 30)
        try:
            other.stdin.write(b'\n')
            r = await asyncio.wait_for(other.wait(), 10)
            got: Any = (r.exit_status, bytes(r.stdout))
        except BaseException as e:      # noqa: BLE001
            got = type(e).__name__
        if got != (0, b'still alive\n'):
            exc = (rec.lost or [None])[0]
            return (SIG_CLOSED_CHANNEL,
                    'the client closed the channel of a process whose stdout is redirected from an asyncio.StreamReader '
                    'and kept the connection; the source then %s: another channel of the same connection gave %r '
                    '(expected exit status 0 and its output); server connection closed with %r'
                    % ('delivered data' if what_later == 'data' else 'ended', got, exc))
        return None
    finally:
        c.abort()
        await pair.settle(10)


# ---------------------------------------------------------------------------
# A-C19-5 (recorded): a cancelled read loses what it had collected


async def cancelled_read(first: bytes, n: int, rest: bytes, op: str = 'readexactly') -> Bad:
    f = I.DirectFeeder(0, False)
    f.chan.accept_data(first)
    t = asyncio.ensure_future(f.reader.readexactly(n) if op == 'readexactly' else f.reader.read(-1))
    await pair.settle(4)
    if t.done():
        return None
    t.cancel()          # what asyncio.wait_for does when its timeout expires
    try:
        await t
    except BaseException:       # noqa: BLE001
        pass
    f.chan.accept_data(rest)
    f.chan.accept_eof()
    got = await asyncio.wait_for(f.reader.read(-1), 5)
    if got != first + rest:
        return SIG_CANCELLED_READ, ('%r buffered, %s waiting for more was cancelled (an asyncio.wait_for timeout), then '
                                    '%r and EOF arrived: read() returned %r, the stream was %r'
                                    % (first, 'readexactly(%d)' % n if op == 'readexactly' else 'read()', rest, got,
                                       first + rest))
    return None


# ---------------------------------------------------------------------------
# A-C19-7 (recorded): undecodable text flushed out of the paused channel inside read()


async def undecodable(window: int) -> Bad:
    async def handler(process: Any) -> None:
        try:
            process.stdout.write(b'a' * window)                         # fills the window: the client pauses reading
            process.stdout.write(b'b' * 10 + b'\xff\xfe' + b'c' * 10)     # sent after the adjust: queued in the channel
            await asyncio.sleep(0)
            for _ in range(400):
                await asyncio.sleep(0)
            process.stdout.write(b'd' * 10)
            process.exit(0)
        except Exception:       # noqa: BLE001
            pass
    c, sconn, hub = await pair.make_pair(server_opts=dict(process_factory=handler, encoding=None))
    try:
        p = await c.create_process('x', window=window)      # utf-8 text session
        for _ in range(100):
            await asyncio.sleep(0)
        await pair.settle(20)
        raised = None
        try:
            await asyncio.wait_for(p.stdout.read(window // 2 + 8), 5)
        except asyncio.TimeoutError:
            return None
        except BaseException as e:      # noqa: BLE001
            raised = e
        try:
            r = await asyncio.wait_for(p.wait(), 10)
        except BaseException:       # noqa: BLE001
            return None     # the connection was closed with the protocol error: nothing is reported as complete
        if r.exit_status is not None and raised is not None:
            return SIG_UNDECODABLE, ('text session, window %d: the peer sent %d x a, then 10 x b ff fe 10 x c (queued while '
                                     'reading was paused), then 10 x d and exit status 0: read() raised %s, the connection '
                                     'stayed open, and wait() reported exit status %r with stdout %r'
                                     % (window, window, type(raised).__name__, r.exit_status, r.stdout))
        return None
    finally:
        c.abort()
        await pair.settle(10)


# ---------------------------------------------------------------------------
# correspondence legs: drain on a process session, redirect sources


class StandInProcChannel(I.StandInChannel):
    """stand-in channel for a directly driven SSHServerProcess: also takes what the process writes"""

    def __init__(self, loop: Any):
        super().__init__(loop, 0, None)
        self.eofs = 0

    def get_write_datatypes(self) -> Any:
        return {EXTENDED_DATA_STDERR}

    def write(self, data: Any, datatype: Any = None) -> None:
        pass

    def write_eof(self) -> None:
        self.eofs += 1


class DummySource(asyncssh.process._ReaderProtocol):      # type: ignore
    """a redirect source as `set_reader` sees it"""

    def pause_reading(self) -> None:
        pass

    def resume_reading(self) -> None:
        pass

    def close(self) -> None:
        pass


async def run_proc_drain(cases: Sequence[Tuple[List[str], List[str]]]) -> List[str]:
    """events: p r l0 l1 as for the stream session; s = a redirect source is registered for stdout (set_reader),
    f = the source ends (feed_eof; skipped when none is registered)"""
    out = []
    loop = asyncio.get_event_loop()
    for pre, post in cases:
        chan = StandInProcChannel(loop)
        sess: Any = SSHServerProcess(lambda _p: None, None, 0, False)
        chan.session = sess
        sess.connection_made(chan)
        writer = SSHWriter(sess, chan)      # type: ignore
        registered = False

        def apply(ev: str) -> None:
            nonlocal registered
            if ev == 'p':
                chan.pause_session()
            elif ev == 'r':
                chan.resume_session()
            elif ev in ('c0', 'c1'):
                chan.peer_close(ev == 'c1')
            elif ev == 'l0':
                sess.connection_lost(None)
                registered = False
            elif ev == 'l1':
                sess.connection_lost(asyncssh.ConnectionLost('lost'))
                registered = False
            elif ev == 's':
                sess.set_reader(DummySource(), False, None)
                registered = True
            elif registered:
                sess.feed_eof(None)
                registered = False
        for ev in pre:
            apply(ev)
        task = asyncio.ensure_future(writer.drain())
        await pair.settle(3)
        for ev in post:
            if task.done():
                break
            apply(ev)
            await pair.settle(3)
        if not task.done():
            task.cancel()
            try:
                await task
            except BaseException:       # noqa: BLE001
                pass
            out.append('blocked')
        else:
            try:
                task.result()
                out.append('returned')
            except BrokenPipeError:
                out.append('brokenpipe')
            except asyncssh.ConnectionLost:
                out.append('exc')
            except BaseException as e:  # noqa: BLE001
                out.append('raised:' + type(e).__name__)
    return out


def src_ev_str(e: Tuple) -> str:
    if e[0] in 'dD':
        return e[0] + hx(e[1])
    if e[0] in 'oE':
        return '%s%d' % (e[0], e[1])
    return e[0]


def gen_source_script(rng: Any) -> List[Tuple]:
    """redirects (o/E with send_eof 0/1), data only from a registered source, ends only of registered sources"""
    evs: List[Tuple] = []
    reg = {'o': False, 'E': False}
    for _ in range(rng.randint(2, 9)):
        r = rng.random()
        k = rng.choice('oE')
        if r < 0.3 or not (reg['o'] or reg['E']):
            evs.append((k, rng.choice([1, 1, 1, 0])))
            reg[k] = True
        elif r < 0.7:
            k = rng.choice([x for x in 'oE' if reg[x]])
            evs.append(('d' if k == 'o' else 'D', bytes([rng.choice(b'abc')]) * rng.randint(1, 5)))
        else:
            k = rng.choice([x for x in 'oE' if reg[x]])
            evs.append(('z' if k == 'o' else 'Z',))
            reg[k] = False
    return evs


async def run_source_script(evs: Sequence[Tuple]) -> str:
    """real server process; returns `out=<hex> err=<hex> eof=<0|1>` as the client saw it, or `refused` when the server
    connection was torn down by an exception out of a feeder"""
    rec = lost_recorder()
    st: Dict[str, Any] = {}
    ready = asyncio.Event()

    async def handler(process: Any) -> None:
        st['proc'] = process
        ready.set()
        await asyncio.sleep(3600)
    c, sconn, hub = await pair.make_pair(server_factory=rec, server_opts=dict(process_factory=handler, encoding=None))
    got = {'out': b'', 'err': b'', 'eof': False}

    async def collect(reader: Any, k: str) -> None:
        try:
            while True:
                d = await reader.read(65536)
                if not d:
                    break
                got[k] += d
            if k == 'out':
                got['eof'] = True
        except BaseException:       # noqa: BLE001
            pass
    try:
        p = await c.create_process('x', encoding=None, stdin=asyncssh.DEVNULL)
        await asyncio.wait_for(ready.wait(), 10)
        tasks = [asyncio.ensure_future(collect(p.stdout, 'out')), asyncio.ensure_future(collect(p.stderr, 'err'))]
        srcs: Dict[str, Any] = {}
        proc = st['proc']
        for e in evs:
            if sconn.is_closed():
                break
            if e[0] in 'oE':
                srcs[e[0]] = asyncio.StreamReader()
                if e[0] == 'o':
                    await proc.redirect(stdout=srcs['o'], send_eof=bool(e[1]))
                else:
                    await proc.redirect(stderr=srcs['E'], send_eof=bool(e[1]))
            elif e[0] in 'dD':
                srcs['o' if e[0] == 'd' else 'E'].feed_data(e[1])
            else:
                srcs['o' if e[0] == 'z' else 'E'].feed_eof()
            await idle(hub, 8)
        await idle(hub, 12)
        died = [x for x in rec.lost if x is not None]
        for t in tasks:
            t.cancel()
        if died or (sconn.is_closed() and not c.is_closed()):
            return 'refused'
        return 'out=%s err=%s eof=%d' % (hx(got['out']), hx(got['err']), 1 if got['eof'] else 0)
    finally:
        c.abort()
        await pair.settle(10)


def canon_source_model(ans: str) -> str:
    """the model's answer in the observable form: a refused write tears the connection down"""
    parts = dict(x.split('=') for x in ans.split())
    if parts.get('refused', '0') != '0':
        return 'refused'
    return 'out=%s err=%s eof=%s' % (parts['out'], parts['err'], parts['eof'])
