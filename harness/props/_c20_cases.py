"""C20 oracle cases about the edges of a forward's life: the address a request names against the address the
socket layer acts on, listen addresses the resolver rejects, an SSH connection lost while the destination is being
connected, and a channel open that ends with an exception other than ChannelOpenError.

Every case drives the real client and server (SSH link = pair.make_pair, no socket) with real loopback TCP / UNIX
endpoints and is judged from the property text only:
  * "served only if the server application and the credential's restrictions permit that destination": whatever
    socket asyncssh makes for a request it served must be for the address the application was asked about;
  * "closing either end closes both" / a forward request must not take down the other forwards: a bystander
    forward on the same SSH connection must still work after a request that is merely refused;
  * "all listeners and relayed sockets are released when their connection ends".

Each function returns a list of problems  (signature, description, replay dict).
"""

from __future__ import annotations

import asyncio
import os
import socket
from typing import Any, Callable, Dict, List, Optional, Tuple

import asyncssh
from asyncssh.constants import MSG_CHANNEL_OPEN_CONFIRMATION
from asyncssh.packet import UInt32

import pair
from props import _c20_real as R

Problem = Tuple[str, str, Dict[str, Any]]


def _loop_errors(err0: int) -> List[Tuple[Any, str]]:
    out = [(e.get('message'), type(e.get('exception')).__name__) for e in pair.LOOP_ERRORS[err0:]]
    del pair.LOOP_ERRORS[err0:]
    return out


def free_port(low: bool = True) -> int:
    """a port nobody listens on right now (bound and released)"""
    sk = socket.socket()
    sk.bind(('127.0.0.1', 0))
    p = sk.getsockname()[1]
    sk.close()
    return p


class Tagged:
    """a destination that answers every connection with its tag and counts them"""

    def __init__(self, tag: bytes):
        self.tag = tag
        self.hits = 0
        self.server: Any = None

    async def _handle(self, reader: Any, writer: Any) -> None:
        self.hits += 1
        try:
            writer.write(self.tag)
            await writer.drain()
        except Exception:       # noqa: BLE001
            pass
        writer.close()

    async def start_tcp(self) -> int:
        self.server = await asyncio.start_server(self._handle, '127.0.0.1', 0)
        return self.server.sockets[0].getsockname()[1]

    async def start_unix(self, path: str) -> None:
        self.server = await asyncio.start_unix_server(self._handle, path)

    def close(self) -> None:
        if self.server is not None:
            self.server.close()


async def _read_tag(reader: Any, n: int = 32) -> bytes:
    try:
        return await asyncio.wait_for(reader.read(n), R.WAIT * 3)
    except (asyncio.TimeoutError, Exception):       # noqa: BLE001
        return b''


# ---------------------------------------------------------------------------
# (A) the address served is the address asked about


ADDRESS_CASES = ['dt-name', 'dt-literal', 'dt-literal-65536', 'tf', 'tf-65536', 'ds-nul', 'ds-abstract',
                 'dt-65535', 'tf-permitted-port']


async def address_case(case: str, tmp: str) -> List[Problem]:
    """One request whose address the socket layer would not take literally (port above 65535: `getaddrinfo`
    reduces it modulo 65536; path name with a NUL inside: the kernel stops at the NUL), against a server
    application with a policy about exactly the address that would be reached.  `dt-65535`, `tf-permitted-port`
    and `ds-abstract` are the controls that must be served."""
    probs: List[Problem] = []
    rep = {'kind': 'address', 'case': case}
    err0 = len(pair.LOOP_ERRORS)
    secret = Tagged(b'SECRET')
    box: Dict[str, Any] = {'answer_fn': True, 'asked': []}
    c, s, hub = await pair.make_pair(server_factory=R.server_factory(box))
    by = Bystander()
    try:
        await by.start(c)
        if case in ('dt-name', 'dt-literal', 'dt-literal-65536', 'dt-65535'):
            sport = await secret.start_tcp()
            host = 'localhost' if case == 'dt-name' else '127.0.0.1'
            # the application forbids the secret service's port and nothing else
            box['answer'] = lambda kind, *a: not (kind == 'dt' and a[1] == sport)
            if case == 'dt-65535':
                # control: the largest port there is must still be a port (nothing listens there: the open is
                # attempted and fails with "connection refused", it is not prohibited)
                try:
                    await asyncio.wait_for(c.open_connection(host, 65535), R.WAIT * 5)
                    got = 'opened'
                except asyncssh.ChannelOpenError as e:
                    got = 'code%d' % e.code
                if got not in ('opened', 'code2') or ('dt', host, 65535) not in box['asked']:
                    probs.append(('permitted-request-refused:dt:port-65535',
                                  f'direct-tcpip to {host}:65535, which the application permits, ended as {got} '
                                  f'(application asked: {box["asked"]})', rep))
            else:
                # (65536 is the first number that is not a port)
                asked_port = 65536 if case == 'dt-literal-65536' else sport + 65536
                try:
                    r, w = await asyncio.wait_for(c.open_connection(host, asked_port), R.WAIT * 5)
                    tag = await _read_tag(r)
                    w.close()
                    got = 'opened'
                except asyncssh.ChannelOpenError as e:
                    tag, got = b'', 'refused(%d)' % e.code
                except (asyncio.TimeoutError, asyncssh.Error, OSError) as e:
                    tag, got = b'', type(e).__name__
                await R.quiesce(6)
                if secret.hits or tag == b'SECRET':
                    probs.append(('served-address-differs:port-above-65535:direct-tcpip',
                                  f'the application refuses every direct-tcpip request for port {sport} and was asked '
                                  f'{box["asked"]}; the open of {host}:{asked_port} was served and the connection went '
                                  f'to port {sport} (read {tag!r})', rep))
                if c.is_closed() or s.is_closed():
                    probs.append(('ssh-connection-killed:port-above-65535',
                                  f'direct-tcpip to {host}:{asked_port} ({got}): the whole SSH connection was closed '
                                  f'(OverflowError from connect escapes forward_connection)', rep))
        elif case in ('tf', 'tf-65536', 'tf-permitted-port'):
            low = free_port()
            # the application lets the client listen on `low + 65536` (on 65536: the first number that is not a
            # port; reduced to 0 it would mean "any free port") ... and on nothing else
            want = {'tf': low + 65536, 'tf-65536': 65536, 'tf-permitted-port': low}[case]
            box['answer'] = lambda kind, *a: kind != 'tf' or a[1] == want
            before = set(R.listening_tcp_ports())
            try:
                lst = await asyncio.wait_for(c.forward_remote_port('127.0.0.1', want, '127.0.0.1', 9), R.WAIT * 5)
                got = 'granted'
            except asyncssh.ChannelListenError:
                lst, got = None, 'refused'
            except (asyncio.TimeoutError, asyncssh.Error, OSError) as e:
                lst, got = None, type(e).__name__
            await R.quiesce(6)
            new = sorted(set(R.listening_tcp_ports()) - before - {by.port})
            if case != 'tf-permitted-port' and new:
                probs.append(('served-address-differs:port-above-65535:tcpip-forward',
                              f'tcpip-forward for 127.0.0.1:{want} ({got}; application asked {box["asked"]}): the '
                              f'server now listens on port(s) {new}, which nobody asked for', rep))
            if case == 'tf-permitted-port' and (got != 'granted' or new != [low]):
                probs.append(('permitted-request-refused:tf',
                              f'tcpip-forward for 127.0.0.1:{low}, permitted by the application: {got}, new '
                              f'listening ports {new}', rep))
            if lst is not None:
                lst.close()
        elif case in ('ds-nul', 'ds-abstract'):
            if case == 'ds-nul':
                spath = os.path.join(tmp, 'secret.sock')
                asked_path = spath + '\0.public'
            else:
                spath = '\0verif-c20-%d-%s' % (os.getpid(), os.path.basename(tmp))
                asked_path = spath
            await secret.start_unix(spath)
            # the application only lets through names ending in `.public` (ds-nul) / exactly the name (control)
            box['answer'] = (lambda kind, *a: kind != 'ds' or a[0].endswith('.public')) if case == 'ds-nul' else \
                (lambda kind, *a: kind != 'ds' or a[0] == spath)
            try:
                r, w = await asyncio.wait_for(c.open_unix_connection(asked_path), R.WAIT * 5)
                tag = await _read_tag(r)
                w.close()
                got = 'opened'
            except asyncssh.ChannelOpenError as e:
                tag, got = b'', 'refused(%d)' % e.code
            except (asyncio.TimeoutError, asyncssh.Error, OSError) as e:
                tag, got = b'', type(e).__name__
            await R.quiesce(6)
            if case == 'ds-nul' and (secret.hits or tag == b'SECRET'):
                probs.append(('served-address-differs:nul-in-unix-path',
                              f'the application only permits UNIX destinations ending in ".public" and was asked '
                              f'{box["asked"]}; the open of {asked_path!r} was served and the connection went to '
                              f'{spath!r} (read {tag!r})', rep))
            if case == 'ds-abstract' and tag != b'SECRET':
                probs.append(('permitted-request-refused:ds:abstract-socket',
                              f'direct-streamlocal to the abstract socket {asked_path!r}, permitted by the '
                              f'application: {got}, read {tag!r}', rep))
        if not probs and not await by.works():
            probs.append(('ssh-connection-killed:malformed-forward-address',
                          f'{case}: another forward on the same SSH connection no longer works afterwards '
                          f'(client closed={c.is_closed()}, server closed={s.is_closed()})', rep))
    finally:
        by.close()
        secret.close()
        c.abort()
        s.abort()
        await R.quiesce(6)
    for msg, cls in _loop_errors(err0):
        probs.append((f'loop-exception:{cls}', f'address case {case}: {msg}', rep))
    return probs


class Bystander:
    """an innocent local forward on the same SSH connection: it must survive a request that is merely refused"""

    def __init__(self) -> None:
        self.dest = Tagged(b'BYSTANDER')
        self.lst: Any = None
        self.port = 0

    async def start(self, c: Any) -> None:
        dport = await self.dest.start_tcp()
        self.lst = await c.forward_local_port('127.0.0.1', 0, '127.0.0.1', dport)
        self.port = self.lst.get_port()

    async def works(self) -> bool:
        try:
            r, w = await asyncio.wait_for(asyncio.open_connection('127.0.0.1', self.port), R.WAIT * 3)
            tag = await _read_tag(r)
            w.close()
            return tag == b'BYSTANDER'
        except (OSError, asyncio.TimeoutError):
            return False

    def close(self) -> None:
        self.dest.close()
        if self.lst is not None:
            try:
                self.lst.close()
            except Exception:       # noqa: BLE001
                pass


# ---------------------------------------------------------------------------
# (B) a listen address the resolver / the socket layer rejects


HOSTILE_LISTEN = [('tf', 'a..b'), ('tf', 'x' * 64 + '.example'), ('tf', 'a\x00b'), ('sf', 'NUL'),
                  ('tf', 'nosuchhost.invalid')]


async def hostile_listen_case(kind: str, addr: str, tmp: str) -> List[Problem]:
    """tcpip-forward / streamlocal-forward naming an address that cannot be listened on must fail that request
    and leave the SSH connection (and the other forwards on it) alone"""
    probs: List[Problem] = []
    rep = {'kind': 'hostile-listen', 'req': kind, 'addr': addr}
    err0 = len(pair.LOOP_ERRORS)
    c, s, hub = await pair.make_pair(server_factory=R.server_factory({'answer': True}))
    by = Bystander()
    try:
        await by.start(c)
        path = os.path.join(tmp, 'a\0b') if addr == 'NUL' else addr
        try:
            if kind == 'tf':
                lst = await asyncio.wait_for(c.forward_remote_port(addr, 0, '127.0.0.1', 9), R.WAIT * 10)
            else:
                lst = await asyncio.wait_for(c.forward_remote_path(path, '/nonexistent'), R.WAIT * 10)
            got = 'granted'
            lst.close()
        except asyncssh.ChannelListenError:
            got = 'refused'
        except (asyncio.TimeoutError, asyncssh.Error, OSError, ValueError) as e:
            got = type(e).__name__
        await R.quiesce(8)
        alive = not c.is_closed() and not s.is_closed() and await by.works()
        if not alive:
            probs.append(('ssh-connection-killed:listen-address-rejected-by-resolver',
                          f'{"tcpip-forward" if kind == "tf" else "streamlocal-forward"} for {addr[:24]!r} ({got}): '
                          f'the name is rejected before any socket is made (ValueError/UnicodeError from '
                          f'getaddrinfo / os.stat), only OSError is turned into a failed request, and the whole SSH '
                          f'connection with its other forwards is torn down (client closed={c.is_closed()}, server '
                          f'closed={s.is_closed()})', rep))
    finally:
        by.close()
        c.abort()
        s.abort()
        await R.quiesce(6)
    for msg, cls in _loop_errors(err0):
        probs.append((f'loop-exception:{cls}', f'hostile listen address {addr[:24]!r}: {msg}', rep))
    return probs


# ---------------------------------------------------------------------------
# (C) the SSH connection is lost while the destination of a forwarded connection is being connected


DEST_RACE_CASES = ['direct-tcpip', 'direct-tcpip-name', 'direct-streamlocal', 'forwarded-tcpip',
                   'forwarded-streamlocal']


async def dest_race_case(case: str, tmp: str) -> List[Problem]:
    """The side that connects to the destination has read the channel open and started `forward_connection`;
    the SSH link is lost before that task has run.  The connect to the (real, listening) destination then
    completes: the destination must see that connection closed again — the SSH connection it belonged to is
    gone — and no socket may remain."""
    probs: List[Problem] = []
    rep = {'kind': 'dest-race', 'case': case}
    loop = asyncio.get_event_loop()
    err0 = len(pair.LOOP_ERRORS)
    recs: List[R.Rec] = []
    unix = case.endswith('streamlocal')
    if unix:
        dpath = os.path.join(tmp, 'd.sock')
        dest = await loop.create_unix_server(lambda: R.Rec(recs), dpath)
    else:
        dest = await loop.create_server(lambda: R.Rec(recs), '127.0.0.1', 0)
        dport = dest.sockets[0].getsockname()[1]
    base = set(R.socket_inodes())
    c, s, hub = await pair.make_pair(server_factory=R.server_factory({'answer': True}))
    a: Optional[R.EndA] = None
    t: Any = None
    try:
        if case.startswith('direct'):
            hub.auto = False
            if unix:
                t = asyncio.ensure_future(c.open_unix_connection(dpath))
            else:
                t = asyncio.ensure_future(c.open_connection('localhost' if case.endswith('name') else '127.0.0.1',
                                                             dport))
            await R.quiesce(4)
            hub.deliver(pair.C2S)           # the server reads CHANNEL_OPEN and starts the open task
            hub.cut_transport()             # ... and loses the connection before the task has run
        else:
            lpath = os.path.join(tmp, 'l.sock')
            if unix:
                lst = await c.forward_remote_path(lpath, dpath)
                laddr: Any = lpath
            else:
                lst = await c.forward_remote_port('127.0.0.1', 0, '127.0.0.1', dport)
                laddr = ('127.0.0.1', lst.get_port())
            hub.auto = False
            a = await R.connect_raw(laddr)  # accepted by the server, which sends CHANNEL_OPEN (queued)
            await R.quiesce(8)
            hub.deliver(pair.S2C)           # the client reads it and starts the open task
            hub.cut_transport()
        await R.wait_until(lambda: s.is_closed() and c.is_closed())
        # bounded wait for the destination connection to show up (resolver thread, connect) ...
        await R.wait_until(lambda: bool(recs), R.WAIT * 3)
        await R.quiesce(8)
        if recs:
            # ... and for it to be closed again
            await R.wait_until(lambda: all(r.lost or r.eof for r in recs), R.WAIT * 2)
        if a is not None:
            a.close()
        if t is not None:
            try:
                await asyncio.wait_for(t, R.WAIT)
            except (asyncssh.Error, asyncio.TimeoutError, OSError):
                pass
        await R.quiesce(6)
        open_dest = [r for r in recs if not (r.lost or r.eof)]
        if open_dest:
            left = len(set(R.socket_inodes()) - base)
            probs.append(('relay-sockets-leak:connection-lost-while-connecting',
                          f'{case}: the SSH connection was lost while the destination was being connected; the '
                          f'connect then completed and the destination still sees {len(open_dest)} connection(s) '
                          f'open (no EOF, no close) although both SSH endpoints are closed; {left} socket(s) of the '
                          f'process remain', rep))
    finally:
        for r in recs:
            if r.t is not None:
                r.t.close()
        dest.close()
        c.abort()
        s.abort()
        await R.quiesce(6)
    for msg, cls in _loop_errors(err0):
        probs.append((f'loop-exception:{cls}', f'destination race {case}: {msg}', rep))
    return probs


# ---------------------------------------------------------------------------
# (D) the channel open of a local forwarder ends with an exception other than ChannelOpenError


OPEN_RAISES_CASES = ['accept-handler-raises', 'accept-handler-raises-async', 'confirmation-trailing-bytes',
                     'confirmation-trailing-bytes-unix']


async def open_raises_case(case: str, tmp: str) -> List[Problem]:
    """A local application connects to a forwarding listener; the open of the channel ends with an exception that
    is not ChannelOpenError (the application's accept handler raises; the peer's OPEN_CONFIRMATION carries
    trailing bytes -> PacketDecodeError).  Whatever becomes of the SSH connection, the accepted socket must be
    closed: the local application must see EOF or a close, and no socket may remain once the connection ended."""
    probs: List[Problem] = []
    rep = {'kind': 'open-raises', 'case': case}
    loop = asyncio.get_event_loop()
    err0 = len(pair.LOOP_ERRORS)
    recs: List[R.Rec] = []
    dest = await loop.create_server(lambda: R.Rec(recs), '127.0.0.1', 0)
    dport = dest.sockets[0].getsockname()[1]
    base = set(R.socket_inodes())
    c, s, hub = await pair.make_pair(server_factory=R.server_factory({'answer': True}))
    a: Optional[R.EndA] = None
    try:
        if case.startswith('accept-handler'):
            def handler(orig_host: str, orig_port: int) -> bool:
                raise RuntimeError('accept handler of the application failed')

            async def ahandler(orig_host: str, orig_port: int) -> bool:
                await asyncio.sleep(0)
                raise RuntimeError('accept handler of the application failed')
            lst = await c.forward_local_port('127.0.0.1', 0, '127.0.0.1', dport,
                                             ahandler if case.endswith('async') else handler)
            laddr: Any = ('127.0.0.1', lst.get_port())
        else:
            # the peer misbehaves: its confirmation has trailing bytes
            def bad_confirm(send_chan: int, recv_chan: int, recv_window: int, recv_pktsize: int,
                            *result_args: bytes) -> None:
                s.send_packet(MSG_CHANNEL_OPEN_CONFIRMATION, UInt32(send_chan), UInt32(recv_chan),
                              UInt32(recv_window), UInt32(recv_pktsize), b'EXTRA')
            s.send_channel_open_confirmation = bad_confirm       # type: ignore
            if case.endswith('unix'):
                laddr = os.path.join(tmp, 'l.sock')
                lst = await c.forward_local_path_to_port(laddr, '127.0.0.1', dport)
            else:
                lst = await c.forward_local_port('127.0.0.1', 0, '127.0.0.1', dport)
                laddr = ('127.0.0.1', lst.get_port())
        a = await R.connect_raw(laddr)
        await a.write(b'hello')

        def learned() -> bool:
            a.pump()        # type: ignore
            return a.eof or a.lost      # type: ignore
        ok = await R.wait_until(learned, R.WAIT * 2)
        conn_closed = bool(c.is_closed())
        if not ok:
            # end the SSH connection (if it is still there) and look again: nothing of the forward may remain
            c.abort()
            s.abort()
            await R.quiesce(10)
            ok2 = await R.wait_until(learned, R.WAIT)
            probs.append(('relay-sockets-leak:open-raises-other-exception',
                          f'{case}: the channel open of a local forwarder ended with an exception other than '
                          f'ChannelOpenError; the local application that had connected saw neither EOF nor close '
                          f'(SSH connection closed by then: {conn_closed}; after the SSH connection was ended: '
                          f'{"closed" if ok2 else "still open"})', rep))
    finally:
        if a is not None:
            a.close()
        for r in recs:
            if r.t is not None:
                r.t.close()
        dest.close()
        c.abort()
        s.abort()
        await R.quiesce(8)
    left = len(set(R.socket_inodes()) - base)
    if left and not probs:
        probs.append(('relay-sockets-leak:open-raises-other-exception',
                      f'{case}: {left} socket(s) of the forward remain after the SSH connection ended', rep))
    _loop_errors(err0)      # the dying task is reported by the connection (internal error); not judged here
    return probs


# ---------------------------------------------------------------------------


async def run_all(tmp: str, address: List[str], hostile: List[Tuple[str, str]], races: List[str],
                  raises: List[str]) -> Dict[str, List[Tuple[str, List[Problem]]]]:
    out: Dict[str, List[Tuple[str, List[Problem]]]] = {'address': [], 'hostile-listen': [], 'dest-race': [],
                                                       'open-raises': []}
    n = 0

    def sub() -> str:
        nonlocal n
        n += 1
        d = os.path.join(tmp, 'e%d' % n)
        os.makedirs(d, exist_ok=True)
        return d
    for case in address:
        out['address'].append((case, await address_case(case, sub())))
    for kind, addr in hostile:
        out['hostile-listen'].append((f'{kind}:{addr[:12]}', await hostile_listen_case(kind, addr, sub())))
    for case in races:
        out['dest-race'].append((case, await dest_race_case(case, sub())))
    for case in raises:
        out['open-raises'].append((case, await open_raises_case(case, sub())))
    return out


def replay(rep: Dict[str, Any], tmp: str) -> List[Problem]:
    kind = rep.get('kind')
    if kind == 'address':
        return pair.run(address_case(rep['case'], tmp), timeout=60)
    if kind == 'hostile-listen':
        return pair.run(hostile_listen_case(rep['req'], rep['addr'], tmp), timeout=60)
    if kind == 'dest-race':
        return pair.run(dest_race_case(rep['case'], tmp), timeout=60)
    if kind == 'open-raises':
        return pair.run(open_raises_case(rep['case'], tmp), timeout=60)
    return []
