"""C09 — real-code side for the waiters that sit on top of a channel's session callbacks:
the real `SSHClientStreamSession` (read / drain waiters) and the real `SFTPClientHandler` (request table,
`recv_packets` task), driven directly through their callback interface with a stand-in channel object.
Lines are the `st ...` / `sf ...` lines of Drivers/C09.lean."""

from __future__ import annotations

import asyncio
from typing import Any, Dict, List, Optional

import asyncssh
from asyncssh import sftp as sftpmod
from asyncssh.stream import SSHClientStreamSession, SSHReader, SSHWriter
from asyncssh.packet import Byte, UInt32, String

from props._c09_real import exc_name


class _Logger:
    def get_child(self, *a: Any, **k: Any) -> '_Logger':
        return self

    def __getattr__(self, name: str) -> Any:
        return lambda *a, **k: None


class StandInChan:
    """What SSHStreamSession / SSHReader / SSHWriter need from a channel."""

    def __init__(self) -> None:
        self.logger = _Logger()
        self.written: List[bytes] = []
        self.closed = False
        self.session: Any = None

    def get_connection(self) -> Any:
        return None

    def get_encoding(self) -> Any:
        return None, 'strict'

    def get_loop(self) -> Any:
        return asyncio.get_event_loop()

    def get_recv_window(self) -> int:
        return 0                      # limit 0: the session never pauses reading

    def get_read_datatypes(self) -> Any:
        return {1}

    def get_write_datatypes(self) -> Any:
        return set()

    def get_extra_info(self, name: str, default: Any = None) -> Any:
        return default

    def pause_reading(self) -> None:
        pass

    def resume_reading(self) -> None:
        pass

    def write(self, data: bytes, datatype: Any = None) -> None:
        if self.closed:
            raise BrokenPipeError('Channel not open for sending')
        self.written.append(data)

    def write_eof(self) -> None:
        pass

    def close(self) -> None:
        self.closed = True

    def was_write_discarded(self) -> bool:
        # the stand-in never closes with data unsent (that path is the channel model's, see _c09_findings)
        return False

    def is_closing(self) -> bool:
        return self.closed

    async def wait_closed(self) -> None:
        pass


def make_exc(name: str) -> Optional[Exception]:
    return {'None': None, 'ConnectionLost': asyncssh.ConnectionLost('Connection lost'),
            'ProtocolError': asyncssh.ProtocolError('bad'), 'OSError': ConnectionResetError('reset'),
            'ValueError': ValueError('application bug'), 'AssertionError': AssertionError(),
            'DisconnectError': asyncssh.DisconnectError(11, 'bye'), 'AttributeError': AttributeError()}[name]


def _res(t: Any) -> str:
    if not t.done():
        return 'pending'
    if t.cancelled():
        return 'cancelled'
    e = t.exception()
    if e is None:
        r = t.result()
        return f'ret:{len(r) if r is not None else 0}'
    if isinstance(e, asyncio.IncompleteReadError):
        return f'incomplete:{len(e.partial)}'
    if isinstance(e, BrokenPipeError):
        return 'BrokenPipeError'
    return 'raised:' + exc_name(e)


def _sres(t: Any) -> str:
    if not t.done():
        return 'pending'
    e = t.exception()
    if e is None:
        return 'reply'
    if isinstance(e, sftpmod.SFTPNoConnection):
        return 'SFTPNoConnection'
    if isinstance(e, sftpmod.SFTPConnectionLost):
        return 'SFTPConnectionLost'
    if isinstance(e, sftpmod.SFTPBadMessage):
        return 'SFTPBadMessage'
    return 'failed:' + exc_name(e)


class RealWaiters:
    def __init__(self) -> None:
        self.reset_stream()
        self.handler: Any = None
        self.sf_tasks: List[Any] = []
        self.recv_task: Any = None

    def reset_stream(self) -> None:
        self.chan = StandInChan()
        self.sess = SSHClientStreamSession()
        self.sess.connection_made(self.chan)        # type: ignore[arg-type]
        self.read_task: Dict[int, Any] = {0: None, 1: None}
        self.reads_done: List[Any] = []
        self.drain_tasks: List[Any] = []
        self.drains_done: List[Any] = []

    async def _settle(self) -> None:
        for _ in range(6):
            await asyncio.sleep(0)

    async def line(self, ws: List[str]) -> str:
        if ws[0] == 'st':
            return await self.st(ws[1:])
        return await self.sf(ws[1:])

    async def st(self, ws: List[str]) -> str:
        c = ws[0]
        if c == 'reset':
            self.reset_stream()
            return 'ok'
        if c == 'show':
            reads = ','.join(_res(t) for t in self.reads_done) or '-'
            drains = ','.join(_res(t) for t in self.drains_done) or '-'
            b0 = int(self.read_task[0] is not None and not self.read_task[0].done())
            b1 = int(self.read_task[1] is not None and not self.read_task[1].done())
            nd = sum(1 for t in self.drain_tasks if not t.done())
            return f'reads={reads};drains={drains};blocked={b0},{b1},{nd}'
        if c == 'data':
            dt = int(ws[1])
            self.sess.data_received(b'x', 1 if dt else None)
        elif c == 'eof':
            self.sess.eof_received()
        elif c == 'lost':
            self.sess.connection_lost(make_exc(ws[1]))
        elif c == 'pausew':
            self.sess.pause_writing()
        elif c == 'resumew':
            self.sess.resume_writing()
        elif c == 'read':
            dt, n, exact = int(ws[1]), int(ws[2]), ws[3] == '1'
            cur = self.read_task[dt]
            if cur is None or cur.done():
                t = asyncio.ensure_future(self.sess.read(1 if dt else None, n, exact))
                t.add_done_callback(self.reads_done.append)
                self.read_task[dt] = t
        elif c == 'drain':
            t = asyncio.ensure_future(self.sess.drain(None))
            t.add_done_callback(self.drains_done.append)
            self.drain_tasks.append(t)
        else:
            return 'bad-op'
        await self._settle()
        return 'ok'

    async def sf(self, ws: List[str]) -> str:
        c = ws[0]
        if c == 'reset':
            self.reset_stream()
            reader = SSHReader(self.sess, self.chan)        # type: ignore[arg-type]
            writer = SSHWriter(self.sess, self.chan)        # type: ignore[arg-type]
            self.handler = sftpmod.SFTPClientHandler(asyncio.get_event_loop(), 'strict', reader, writer, 3)
            self.sf_tasks = []
            self.recv_task = asyncio.ensure_future(self.handler.recv_packets())
            await self._settle()
            return 'ok'
        if c == 'show':
            req = ','.join(_sres(t) for t in self.sf_tasks) or '-'
            return f'req={req};reader={0 if self.recv_task.done() else 1}'
        if c == 'req':
            self.sf_tasks.append(asyncio.ensure_future(
                self.handler._make_request(sftpmod.FXP_STAT, String(b'/'), UInt32(0))))
        elif c == 'reply':
            i = int(ws[1])
            payload = Byte(sftpmod.FXP_ATTRS) + UInt32(i) + UInt32(0)
            pkt = UInt32(len(payload)) + payload
            for b in pkt:                       # one byte per data item, as in the model
                self.sess.data_received(bytes([b]), None)
        elif c == 'lost':
            self.sess.connection_lost(make_exc(ws[1]))
        else:
            return 'bad-op'
        await self._settle()
        return 'ok'

    async def finish(self) -> None:
        for t in [self.recv_task, self.read_task[0], self.read_task[1]] + self.drain_tasks + self.sf_tasks:
            if t is not None and not t.done():
                t.cancel()
        await self._settle()
        for t in [self.recv_task] + self.sf_tasks + self.drain_tasks:
            if t is not None and t.done() and not t.cancelled():
                t.exception()           # mark retrieved


async def run_lines(lines: List[str]) -> List[str]:
    rw = RealWaiters()
    out = []
    try:
        for ln in lines:
            out.append(await rw.line(ln.split()))
    finally:
        await rw.finish()
    return out
