"""C09 — Everything terminates: no hung waiter, one orderly close.

Lean: Model/Lifecycle.lean (channel object), Model/LifecycleConn.lean (endpoint with asyncio's ready queue, two
endpoints + links), Model/LifecycleHandshake.lean (close handshake of one channel pair), Model/LifecycleWaiters.lean
(stream-session and SFTP waiters); theorems in Props/C09.lean.
Correspondence: op scripts over up to three channels issued from both sides of a real client/server pair under manual
scheduling (packets move, the loop advances and the transport dies only when the script says so), the transport
cut / a DISCONNECT delivered / a side aborting at EVERY packet boundary of each script; the same lines drive
Drivers/C09.lean; packets on the wire, API results, callback logs, channel tables and pending calls are compared.
Oracle: the property's predicate on the real code (nothing pending at quiescence, callback order, one final
notification, empty table, SFTP requests all fail), including end-to-end stream / SFTP / connect scenarios; judged
also at every quiescent point BEFORE any transport loss: a channel whose peer's CLOSE has arrived is cleaned up, a
writer waiting in drain() is released by the peer's CLOSE, a channel both applications have closed is cleaned up on
both ends; plus fixed end-to-end histories (_c09_findings.py) for the situations the script alphabet does not reach
(undecodable text met by resume_reading, a callback raising StopIteration, x11-req / auth-agent-req + CLOSE).
"""

from __future__ import annotations

import asyncio
import collections
from typing import Any, Dict, List, Optional, Tuple

import asyncssh

import pair
from vlib import Ctx, CorrResult, OracleResult, Failure, Disagreement, Hist

from props import _c09_gen as G
from props import _c09_real as R
from props import _c09_waiters as W
from props import _c09_findings as F

PROPERTY = 'C09'
MANIFEST = {
    'text': 'Lean 4 theorems about an executable model of the channel / connection life cycle of asyncssh '
            '(channel.py, connection.py; asyncio\'s FIFO ready queue modelled explicitly): for ONE endpoint against '
            'EVERY sequence of received packets, event-loop steps, API calls and transport losses — callbacks per '
            'session/owner are connection_made·x*·connection_lost? (callbacks_legal), a closed connection has an '
            'empty channel table (no_orphan_channel), after the transport is gone and the loop has drained every '
            'open/request/global-request/wait_closed/connect waiter and every create_session call is resolved '
            '(waiters_resolved) and every session got its single final connection_lost (every_session_closed); for '
            'two endpoints of a channel every interleaving of close/abort/EOF terminates in closed/closed within an '
            'explicit bound (close_handshake_*), and — the connection staying up — a channel closed in both directions '
            'whose queues have drained is fully cleaned up (waiters resolved, connection_lost delivered, unregistered) '
            'from ANY phase incl. start-up with an unanswered request (closed_channel_cleaned_any_phase; the '
            'side condition "no undelivered data" is necessary, witness startup_data_then_close_hang_witness = '
            'defect D2 of the code); for every window >= 1 a close() can not stay pending for ever when both '
            'applications close with more unsent data than the peer\'s window: by the window ledger of each direction '
            '(sender window + DATA in flight + undelivered data + credit in flight = receiver window, an invariant of '
            'every run because dropped / discarded data is credited) quiescence with a close called and no undelivered '
            'data means closed/closed (close_handshake_no_mutual_deadlock; before the repair false: '
            'mutual_close_deadlock_witness); write flow control is part of the model (_send_paused, water marks, '
            'pause_writing / resume_writing, tasks in drain()): an endpoint that has processed its peer\'s CLOSE is '
            'never left paused for writing nor with a task blocked in drain(), in every reachable state '
            '(writer_released_once_peer_closed, peer_close_releases_writer; before the repair false: '
            'drain_behind_peer_close_hang_witness); that the code has these repairs is re-read from channel.py on '
            'every run (Gen/C09.lean: peer_close_resumes_writer_in_code, dropped_data_credited_in_code); '
            '`eof_received` is delivered at most once, also when the peer\'s CLOSE '
            'overtakes its pending EOF (eof_at_most_once); stream and SFTP waiters are resolved by connection_lost — '
            'for the SFTP request table exactly when recv_packets catches every exception class, a fact regenerated '
            'from the source on each run (Gen/C09.lean; the earlier defect is fixed, F37). The model is tied to the '
            'code by script-level differential runs with the transport cut at every packet boundary.',
    'note': 'payload bytes and text decoding, window arithmetic beyond one-byte writes, the channel requests a server '
            'finishes in a task (x11-req, auth-agent-req), X11/agent/port-forward listeners and real time are outside '
            'the model (the oracle reaches them through fixed end-to-end histories); a peer that keeps sending after '
            'its own DISCONNECT inside one TCP segment is outside the environment of the theorems',
    'technique': 'Lean 4 invariant proofs over all event sequences (labelled transition system with explicit ready '
                 'queue) + potential-function termination bound + script-level differential correspondence with '
                 'exhaustive cut points + direct oracle on the real code',
}
LEAN_PROPS = ['AsyncsshModel.Props.C09']
DRIVER = 'Drivers/C09.lean'
TRUSTED = [
    'asyncio semantics assumed by the model: call_soon is FIFO, a resolved future wakes its awaiter through '
    'call_soon, one loop iteration runs the callbacks that were ready when it started (checked against the real '
    'loop by the correspondence run)',
    'application callbacks do not re-enter the channel synchronously (other than returning a value) and do not '
    'pause reading from inside data_received',
    'Drivers/C09.lean is a thin line-protocol wrapper over the model functions the theorems are about',
    'the `drain` op of the scripts waits in the real SSHStreamSession.drain() of a stream session object that is fed '
    'with the channel\'s pause_writing / resume_writing / connection_lost callbacks only (its task is started eagerly, '
    'as the model counts it)',
]
ASSUMPTIONS = [
    'receive window >= 1 and peer maximum packet size >= 1 (see C08 for the zero-packet-size defect)',
    'each data_received call of the transport carries at most one complete SSH packet after a DISCONNECT '
    '(a peer does not keep sending after its own DISCONNECT)',
    'futures owned by the application (session_requested / server_requested awaitables) are eventually resolved '
    'by the application',
    'close_handshake_quiescent_closed / closed_channel_cleaned_any_phase: no reader stays paused holding data, and a '
    'CLOSE has been SENT by one side (explicit hypothesis; close_handshake_no_mutual_deadlock replaces it by "close() '
    'has been CALLED by one side" for established channels with window >= 1 and no protocol error); for a channel '
    'still starting up the side condition fails in the real code when data precedes the CLOSE (defect D2, reported '
    'by the oracle)',
    'writer_released_once_peer_closed / close_handshake_no_mutual_deadlock: established channel (HS.init), sessions '
    'attached; write-buffer limits satisfy 0 <= low <= high (what set_write_buffer_limits accepts)',
    'closed_channel_cleaned_any_phase: the create() coroutine does not advance during the run (its suspension '
    'point is part of the arbitrary initial state; its reaction to a failed request, close(), is an application event)',
]

GEN_PATH = 'AsyncsshModel/Gen/C09.lean'


def _method(tree: Any, cls: str, name: str) -> Any:
    import ast
    for node in tree.body:
        if isinstance(node, ast.ClassDef) and node.name == cls:
            for sub in node.body:
                if isinstance(sub, (ast.FunctionDef, ast.AsyncFunctionDef)) and sub.name == name:
                    return sub
    raise ValueError(f'{cls}.{name} not found')


def _is_self_call(node: Any, meth: str) -> bool:
    import ast
    return (isinstance(node, ast.Expr) and isinstance(node.value, ast.Call) and
            isinstance(node.value.func, ast.Attribute) and node.value.func.attr == meth and
            isinstance(node.value.func.value, ast.Name) and node.value.func.value.id == 'self')


def _adjust_arg(node: Any) -> Optional[str]:
    """`self.send_packet(MSG_CHANNEL_WINDOW_ADJUST, UInt32(<x>))` -> source of <x>, else None"""
    import ast
    if not _is_self_call(node, 'send_packet'):
        return None
    a = node.value.args
    if len(a) == 2 and isinstance(a[0], ast.Name) and a[0].id == 'MSG_CHANNEL_WINDOW_ADJUST' and \
            isinstance(a[1], ast.Call) and isinstance(a[1].func, ast.Name) and a[1].func.id == 'UInt32' and \
            len(a[1].args) == 1:
        return ast.unparse(a[1].args[0])
    return None


def _flow_facts(chan_src: str) -> Dict[str, bool]:
    """What channel.py does for a writer / a peer whose data will not be looked at any more (read from the AST):
    does `_process_close` look at the water marks again after `_close_send()`; do `_accept_data` (data dropped after
    the local close) and `_discard_recv` (undelivered data thrown away) give the window back."""
    import ast
    tree = ast.parse(chan_src)
    facts: Dict[str, bool] = {}
    # _process_close: ... self._close_send() ; [self._pause_resume_writing()] ; ... self._recv_state = 'close_pending'
    body = _method(tree, 'SSHChannel', '_process_close').body
    idx_close = [i for i, n in enumerate(body) if _is_self_call(n, '_close_send')]
    idx_state = [i for i, n in enumerate(body) if isinstance(n, ast.Assign) and ast.unparse(n.targets[0]) == 'self._recv_state'
                 and ast.unparse(n.value) == "'close_pending'"]
    if len(idx_close) != 1 or len(idx_state) != 1 or idx_close[0] > idx_state[0]:
        raise ValueError('_process_close: expected `self._close_send()` before `self._recv_state = \'close_pending\'`')
    idx_pr = [i for i, n in enumerate(body) if _is_self_call(n, '_pause_resume_writing')]
    if idx_pr and not (len(idx_pr) == 1 and idx_close[0] < idx_pr[0] < idx_state[0]):
        raise ValueError('_process_close: `_pause_resume_writing()` is not between `_close_send()` and the state change')
    facts['closeResumesWriting'] = bool(idx_pr)
    # _accept_data: `if self._send_state in {'close_pending', 'closed'}: [adjust len(data)]; return`
    drop = [n for n in _method(tree, 'SSHChannel', '_accept_data').body
            if isinstance(n, ast.If) and 'self._send_state in' in ast.unparse(n.test)]
    if len(drop) != 1 or not isinstance(drop[0].body[-1], ast.Return):
        raise ValueError('_accept_data: the branch dropping data after the local close was not recognised')
    stmts = drop[0].body[:-1]
    args = [_adjust_arg(n) for n in stmts]
    if stmts and args != ['len(data)']:
        raise ValueError('_accept_data: the drop branch does something the model does not know: ' + ast.unparse(drop[0]))
    facts['dropCreditsWindow'] = bool(stmts)
    # _discard_recv: [if self._recv_buf_len: adjust self._recv_buf_len] before `self._recv_buf = []`
    body = _method(tree, 'SSHChannel', '_discard_recv').body
    body = [n for n in body if not (isinstance(n, ast.Expr) and isinstance(n.value, ast.Constant))]
    idx_reset = [i for i, n in enumerate(body) if isinstance(n, ast.Assign) and ast.unparse(n.targets[0]) == 'self._recv_buf_len']
    if len(idx_reset) != 1:
        raise ValueError('_discard_recv: `self._recv_buf_len = 0` not found')
    credit = [i for i, n in enumerate(body) if isinstance(n, ast.If) and ast.unparse(n.test) == 'self._recv_buf_len']
    if credit:
        n = body[credit[0]]
        if len(credit) != 1 or credit[0] > idx_reset[0] or n.orelse or [_adjust_arg(x) for x in n.body] != ['self._recv_buf_len']:
            raise ValueError('_discard_recv: the credit for discarded data is not what the model knows: ' + ast.unparse(n))
    facts['discardCreditsWindow'] = bool(credit)
    return facts


def translate(ctx: Ctx) -> Dict[str, Any]:
    """T1: the `except` clauses of SFTPHandler.recv_packets, read from the current source tree, become
    Gen/C09.lean; the SFTP theorems are stated relative to `recvPacketsCatchesAll`.  The flow-control facts of
    channel.py the life-cycle model relies on (`_flow_facts`) go to the same file; Props/C09.lean proves that they
    are what the model assumes."""
    import ast
    import os
    import vlib
    flow = _flow_facts(open(os.path.join(vlib.REPO, 'asyncssh', 'channel.py')).read())
    src = open(os.path.join(vlib.REPO, 'asyncssh', 'sftp.py')).read()
    tree = ast.parse(src)
    fn = None
    for node in tree.body:
        if isinstance(node, ast.ClassDef) and node.name == 'SFTPHandler':
            for sub in node.body:
                if isinstance(sub, ast.AsyncFunctionDef) and sub.name == 'recv_packets':
                    fn = sub
    if fn is None:
        raise ValueError('SFTPHandler.recv_packets not found')
    tries = [n for n in fn.body if isinstance(n, ast.Try)]
    if len(tries) != 1:
        raise ValueError('recv_packets: expected exactly one try statement at top level')
    names: List[str] = []
    catches_all = False

    def add(t: Any) -> None:
        nonlocal catches_all
        if t is None:
            names.append('<bare>')
            catches_all = True
        elif isinstance(t, ast.Name):
            names.append(t.id)
            if t.id in ('Exception', 'BaseException'):
                catches_all = True
        elif isinstance(t, ast.Tuple):
            for e in t.elts:
                add(e)
        else:
            raise ValueError('recv_packets: unsupported except clause ' + ast.dump(t))
    for h in tries[0].handlers:
        # every handler must end the task through _cleanup for the model's reading to be right
        calls = [n for n in ast.walk(h) if isinstance(n, ast.Attribute) and n.attr == '_cleanup']
        if not calls:
            raise ValueError('recv_packets: an except clause does not call _cleanup')
        add(h.type)
    for required in ('OSError', 'Error', 'EOFError'):
        if required not in names and not catches_all:
            raise ValueError(f'recv_packets no longer catches {required}: the model needs to be revisited')
    body = ('/- GENERATED by harness/props/C09.py translate() from asyncssh/sftp.py and asyncssh/channel.py — do not edit.\n'
            '   The `except` clauses of `SFTPHandler.recv_packets` (which exception classes end the task through `_cleanup`)\n'
            '   and what `_process_close`, `_accept_data`, `_discard_recv` do for a writer / a peer whose data is given up. -/\n'
            'namespace AsyncsshModel.Gen.C09\n\n'
            '/-- exception classes named in the `except` clauses of `SFTPHandler.recv_packets`, in order -/\n'
            'def recvPacketsHandlers : List String := [' + ', '.join('"%s"' % n for n in names) + ']\n\n'
            '/-- is there a clause catching every `Exception` (bare `except`, `Exception` or `BaseException`)? -/\n'
            'def recvPacketsCatchesAll : Bool := ' + ('true' if catches_all else 'false') + '\n\n'
            '/-- asyncssh/channel.py `_process_close`: `self._pause_resume_writing()` is called after `self._close_send()`\n'
            '    (a session told to pause writing is resumed when the peer\'s CLOSE discards the unsent data) -/\n'
            'def closeResumesWriting : Bool := ' + ('true' if flow['closeResumesWriting'] else 'false') + '\n\n'
            '/-- `_accept_data`: data dropped after the local close is credited with WINDOW_ADJUST(len(data)) -/\n'
            'def dropCreditsWindow : Bool := ' + ('true' if flow['dropCreditsWindow'] else 'false') + '\n\n'
            '/-- `_discard_recv`: undelivered data that is thrown away is credited with WINDOW_ADJUST(_recv_buf_len) -/\n'
            'def discardCreditsWindow : Bool := ' + ('true' if flow['discardCreditsWindow'] else 'false') + '\n\n'
            'end AsyncsshModel.Gen.C09\n')
    changed = vlib.write_if_changed(os.path.join(vlib.LEAN_DIR, GEN_PATH), body)
    return {'recv_packets_handlers': names, 'catches_all': catches_all, 'gen_changed': changed, 'flow': flow,
            'pins': {'channel._cleanup': vlib.ast_pin('asyncssh/channel.py', 'SSHChannel._cleanup'),
                     'connection._cleanup': vlib.ast_pin('asyncssh/connection.py', 'SSHConnection._cleanup'),
                     'connection._force_close': vlib.ast_pin('asyncssh/connection.py', 'SSHConnection._force_close'),
                     'sftp.recv_packets': vlib.ast_pin('asyncssh/sftp.py', 'SFTPHandler.recv_packets'),
                     'channel._process_close': vlib.ast_pin('asyncssh/channel.py', 'SSHChannel._process_close'),
                     'channel._accept_data': vlib.ast_pin('asyncssh/channel.py', 'SSHChannel._accept_data'),
                     'channel._discard_recv': vlib.ast_pin('asyncssh/channel.py', 'SSHChannel._discard_recv'),
                     'channel.resume_reading': vlib.ast_pin('asyncssh/channel.py', 'SSHChannel.resume_reading')}}


SETTLE_BOUND = 12          # loop iterations allowed for everything to complete once nothing more can arrive


# ---------------------------------------------------------------------------------------------------------
# running scripts on the real code


async def _run_real_scripts(scripts: List[List[str]]) -> List[Tuple[List[str], Dict[str, Any]]]:
    outs = []
    with R.SendTags() as tags:
        for sc in scripts:
            try:
                outs.append(await asyncio.wait_for(R.run_script(sc, tags), 30))
            except Exception as e:          # a script that cannot even be executed is reported, not hidden
                outs.append((['harness-exception:' + type(e).__name__ + ':' + str(e)[:80]] * len(sc),
                             {'leftover_tasks': [], 'loop_errors': [], 'settle_rounds': [], 'mid': [], 'judged': {}}))
    return outs


def run_real(scripts: List[List[str]], timeout: float = 3000) -> List[Tuple[List[str], Dict[str, Any]]]:
    return pair.run(_run_real_scripts(scripts), timeout=timeout)


def make_scripts(rng: Any, nbase: int, kinds_per_point: int, nscen: int = 0, nflow: int = 0) \
        -> List[Tuple[List[str], str]]:
    """Base scripts plus, for every packet boundary of each, cut variants.  The first `nscen` bases are the
    start-up scenarios (the peer's CLOSE arrives while the channel is still in its start-up phase), the next
    `nflow` the flow-control scenarios (mutual close on full windows, a writer in drain() when the peer closes)."""
    out: List[Tuple[List[str], str]] = []
    bases = [(b, 'startup-' + name) for name, b in G.startup_scenarios(rng, nscen)]
    bases += [(b, 'flow-' + name) for name, b in G.flow_scenarios(rng, nflow)]
    bases += [(G.gen_base(rng), 'base') for _ in range(nbase)]
    for base, tag in bases:
        out.append((base + G.epilogue(), tag))
        for v, kind, _b in G.cut_variants(base, rng, kinds_per_point):
            out.append((v, kind))
    return out


# ---------------------------------------------------------------------------------------------------------
# the property's predicate on an observation line (`show`)


def _legal(tr: List[str], final: bool) -> Optional[str]:
    if not tr or tr == ['-']:
        return None
    if tr[0] != 'made':
        return 'first-callback-not-connection_made'
    if 'made' in tr[1:]:
        return 'connection_made-twice'
    losts = [i for i, x in enumerate(tr) if x.startswith('lost')]
    if len(losts) > 1:
        return 'connection_lost-twice'
    if losts and losts[0] != len(tr) - 1:
        return 'callback-after-connection_lost:' + tr[losts[0] + 1].split(':')[0]
    if tr.count('eof') > 1:
        return 'eof_received-twice'
    if final and not losts:
        return 'connection_lost-never-delivered'
    return None


def check_show(show: str, final: bool) -> List[Tuple[str, str]]:
    """Violations of the property visible in one observation; (signature, detail)."""
    bad: List[Tuple[str, str]] = []
    fields = dict(p.split('=', 1) for p in show.split('|') if '=' in p)
    closed = {'C': fields.get('C.closed') == '1', 'S': fields.get('S.closed') == '1'}
    for k, v in fields.items():
        if k.endswith('.owner'):
            r = _legal(v.split(','), final)
            if r:
                bad.append((f'owner-callbacks:{r}', f'{k}={v}'))
        elif k.endswith('.table'):
            if closed[k[0]] and v != '-':
                bad.append(('channel-registered-on-closed-connection', f'{k}={v}'))
        elif k.endswith('.cwc'):
            if final and not v.endswith('/0'):
                bad.append(('conn-wait_closed-pending-after-close', f'{k}={v}'))
        elif len(k) > 1 and k[0] in 'cs' and k[1:].isdigit():
            parts = v.split(';')
            r = _legal(parts[0].split(','), final)
            if r:
                bad.append((f'session-callbacks:{r}', f'{k}={v}'))
            sub = dict(x.split('=', 1) for x in parts[1:] if '=' in x)
            if final and sub.get('out') == 'pending':
                bad.append(('create_session-pending-after-close', f'{k}={v}'))
            if final and 'wc' in sub and not sub['wc'].endswith('/0'):
                bad.append(('chan-wait_closed-pending-after-close', f'{k}={v}'))
            if final and 'dr' in sub and not sub['dr'].endswith('/0'):
                bad.append(('drain-pending-after-close', f'{k}={v}'))
        elif k[0] == 'g' and k[1:].isdigit():
            if final and v == 'pending':
                bad.append(('global-request-pending-after-close', f'{k}={v}'))
        elif k == 'connect' and final and v == 'pending':
            bad.append(('connect-pending-after-close', v))
    return bad


def script_failures(sc: List[str], out: List[str], info: Dict[str, Any], kind: str) -> List[Failure]:
    fails: List[Failure] = []
    shows = [(i, o) for i, (l, o) in enumerate(zip(sc, out)) if l == 'show']
    for n, (i, o) in enumerate(shows):
        final = n == len(shows) - 1
        for sig, detail in check_show(o, final):
            fails.append(Failure(sig, f'{detail} after script line {i} (cut kind {kind})',
                                 {'kind': 'script', 'script': sc, 'at': i}))
    # judged while the connection is still up: a channel whose peer's CLOSE has arrived and whose loop has drained
    for at, sig, detail in info.get('mid') or []:
        fails.append(Failure(sig, f'{detail}; observed at script line {at} "{sc[at] if at < len(sc) else ""}" '
                                  f'(cut kind {kind})', {'kind': 'script', 'script': sc, 'at': at}))
    if info.get('leftover_tasks'):
        fails.append(Failure('task-pending-at-quiescence:' + info['leftover_tasks'][0],
                             f'asyncio tasks still pending after the connection closed: {info["leftover_tasks"]}',
                             {'kind': 'script', 'script': sc}))
    if info.get('loop_errors'):
        fails.append(Failure('exception-reached-event-loop', str(info['loop_errors'][:2]),
                             {'kind': 'script', 'script': sc}))
    # bounded number of loop iterations: the settle after the final loss of both transports
    rounds = info.get('settle_rounds') or []
    if rounds and max(rounds[-3:]) > SETTLE_BOUND:
        fails.append(Failure('completion-needs-too-many-loop-iterations',
                             f'{max(rounds[-3:])} iterations > {SETTLE_BOUND}', {'kind': 'script', 'script': sc}))
    for o in out:
        if o.startswith('harness-exception') or o == 'bad-op':
            fails.append(Failure('script-not-executable', o, {'kind': 'script', 'script': sc}))
            break
    return fails


# ---------------------------------------------------------------------------------------------------------
# connection establishment: cut at every packet boundary of the handshake


async def _handshake_case(cut_after: Optional[int]) -> Dict[str, Any]:
    """Run `asyncssh.connect` with manual delivery; lose both transports after `cut_after` deliveries."""
    loop = asyncio.get_event_loop()
    hub = pair.Hub(loop)
    hub.auto = False
    owner_log: List[str] = []
    pending: Dict[str, List[Tuple[Optional[str], int]]] = {pair.C2S: [], pair.S2C: []}
    res: Dict[str, Any] = {'auth_delivered': False, 'deliveries': 0}
    with R.SendTags() as tags:
        def flt(direction: str, data: bytes) -> bytes:
            desc = R.describe(*tags.stack[-1]) if tags.stack else 'raw'
            if tags.stack and tags.stack[-1][0] == 2:
                desc = None
            pending[direction].append((desc, len(data)))
            return data
        hub.filter = flt
        hub._finish_closes = lambda: None

        class Cli(asyncssh.SSHClient):
            def connection_made(self, conn: Any) -> None:
                owner_log.append('made')

            def connection_lost(self, exc: Optional[Exception]) -> None:
                owner_log.append('lost:' + R.exc_name(exc))

            def auth_completed(self) -> None:
                owner_log.append('auth_completed')

        coro, sconn, _ = await pair.make_pair(hub=hub, connect=False, client_opts=dict(client_factory=Cli))
        task = asyncio.ensure_future(coro)
        for _ in range(2000):                   # connect() resolves its options first (may hop through an executor)
            if hub.trans:
                break
            await asyncio.sleep(0.0005)
        n = 0
        turn = 0
        idle = 0
        while idle < 3 and not task.done():
            for _ in range(4):
                await asyncio.sleep(0)
            if cut_after is not None and n >= cut_after:
                break
            d = (pair.C2S, pair.S2C)[turn % 2]
            turn += 1
            q = pending[d]
            if not q:
                idle += 1
                continue
            idle = 0
            nb = 0
            desc = None
            while q:
                dsc, b = q.pop(0)
                nb += b
                if dsc is not None:
                    desc = dsc
                    break
            hub.deliver(d, nb)
            n += 1
            if desc == 'pkt52' and d == pair.S2C:
                res['auth_delivered'] = True
        res['deliveries'] = n
        if cut_after is not None:
            for side in ('client', 'server'):
                hub._lose(hub.trans[side], None)
        await asyncio.sleep(0)
        rounds = 0
        while len(loop._ready) > 0 and rounds < 64:         # type: ignore[attr-defined]
            await asyncio.sleep(0)
            rounds += 1
        res['rounds'] = rounds
        res['connect'] = R.RealSys._outcome(task)
        res['owner'] = list(owner_log)
        if task.done() and not task.cancelled() and task.exception() is None:
            conn = task.result()
            res['closed'] = conn.is_closed()
            conn.abort()
        else:
            task.cancel()
        for side in ('client', 'server'):
            hub._lose(hub.trans[side], None)
        await pair.settle(6)
    return res


async def _handshake_all() -> List[Tuple[Optional[int], Dict[str, Any]]]:
    full = await _handshake_case(None)
    out: List[Tuple[Optional[int], Dict[str, Any]]] = [(None, full)]
    for k in range(0, full['deliveries'] + 1):
        out.append((k, await _handshake_case(k)))
    return out


def handshake_model_lines(res: Dict[str, Any], cut: bool) -> List[str]:
    lines = ['reset 4', 'establishing']
    if res['auth_delivered']:
        lines.append('authdone')
    if cut:
        lines += ['lose c 0', 'lose s 0']
    lines += ['settle', 'show']
    return lines


# ---------------------------------------------------------------------------------------------------------
# stream-session / SFTP waiter machines

EXCS = ['None', 'ConnectionLost', 'ProtocolError', 'OSError', 'ValueError', 'DisconnectError']


def gen_stream_script(rng: Any) -> List[str]:
    l = ['st reset']
    for _ in range(rng.randint(2, 14)):
        r = rng.random()
        if r < 0.25:
            l.append(f'st data {rng.randrange(2)}')
        elif r < 0.32:
            l.append('st eof')
        elif r < 0.42:
            l.append('st lost ' + rng.choice(EXCS))
        elif r < 0.52:
            l.append('st pausew')
        elif r < 0.60:
            l.append('st resumew')
        elif r < 0.85:
            l.append(f'st read {rng.randrange(2)} {rng.choice([-1, 1, 2, 3, 4])} {rng.randrange(2)}')
        else:
            l.append('st drain')
    l += ['st show', 'st lost ' + rng.choice(EXCS), 'st show']
    return l


def gen_sftp_script(rng: Any) -> List[str]:
    l = ['sf reset']
    n = 0
    for _ in range(rng.randint(1, 8)):
        r = rng.random()
        if r < 0.6:
            l.append('sf req')
            n += 1
        elif r < 0.9 and n:
            l.append(f'sf reply {rng.randrange(n + 1)}')
        else:
            l.append('sf lost ' + rng.choice(EXCS))
    l += ['sf show', 'sf lost ' + rng.choice(EXCS), 'sf req', 'sf show']
    return l


async def _run_waiter_scripts(scripts: List[List[str]]) -> List[List[str]]:
    return [await W.run_lines(s) for s in scripts]


# ---------------------------------------------------------------------------------------------------------
# correspondence


def _diff_show(a: str, b: str) -> List[str]:
    pa, pb = a.split('|'), b.split('|')
    d = [f'real {x} / model {y}' for x, y in zip(pa, pb) if x != y]
    if len(pa) != len(pb):
        d.append(f'field count {len(pa)} / {len(pb)}')
    return d


def correspondence(ctx: Ctx) -> CorrResult:
    res = CorrResult()
    hist = Hist()
    rng = ctx.subrng('corr')

    # (1) life-cycle scripts with a cut at every packet boundary -------------------------------------------
    items = make_scripts(rng, ctx.n(26, 320), 1 if ctx.tier == 'quick' and not ctx.escalated else 2,
                         ctx.n(8, 60), ctx.n(8, 64))
    scripts = [s for s, _k in items]
    real = run_real(scripts)
    flat = [l for s in scripts for l in s]
    model = ctx.model(DRIVER, flat, timeout=1200)
    pos = 0
    npkts = 0
    for (sc, kind), (ro, info) in zip(items, real):
        mo = model[pos:pos + len(sc)]
        pos += len(sc)
        res.cases += 1
        hist.hit('script:' + kind)
        first = None
        for i, (l, a, b) in enumerate(zip(sc, ro, mo)):
            w = l.split()[0]
            if w == 'dl' and a != 'empty':
                npkts += 1
                hist.hit('pkt:' + a.split()[0])
            if w == 'settle':
                # the real loop also runs bookkeeping callbacks the model does not represent: the model's
                # count is a lower bound, and both must come to rest
                an, aq = a.split()
                bn, bq = b.split()
                if aq != bq or int(an) < int(bn) or int(an) > int(bn) + 6:
                    first = (i, l, a, b)
                    break
                continue
            if a != b:
                first = (i, l, a, b)
                break
        if first is not None:
            i, l, a, b = first
            detail = _diff_show(a, b) if l == 'show' else [f'real {a} / model {b}']
            res.disagreements.append(Disagreement(
                case={'kind': 'script', 'script': sc, 'at': i, 'line': l, 'cut': kind, 'diff': detail[:6]},
                model=b, impl=a, name='correspondence:lifecycle-script'))
        for l, a in zip(sc, ro):
            if l == 'show':
                for part in a.split('|'):
                    k, _, v = part.partition('=')
                    if len(k) > 1 and k[0] in 'cs' and k[1:].isdigit():
                        hist.hit('trace:' + v.split(';')[0].replace('data,data', 'data+')[:60])
    res.nontrivial += len(set(tuple(s) for s in scripts))
    res.samples.append({'script': ' ; '.join(scripts[0][:40]), 'real_last': real[0][0][-1], 'model_last': model[len(scripts[0]) - 1]})

    # (2) connection establishment: the transport is cut at every packet boundary of kex + auth -----------
    hs = pair.run(_handshake_all(), timeout=600)
    hs_lines: List[str] = []
    hs_meta: List[Tuple[Optional[int], Dict[str, Any], int]] = []
    for k, r in hs:
        ml = handshake_model_lines(r, k is not None)
        hs_meta.append((k, r, len(ml)))
        hs_lines += ml
    hs_model = ctx.model(DRIVER, hs_lines)
    pos = 0
    for k, r, n in hs_meta:
        show = hs_model[pos + n - 1]
        pos += n
        res.cases += 1
        hist.hit('handshake-cut')
        f = dict(p.split('=', 1) for p in show.split('|') if '=' in p)
        m_connect = f.get('connect', 'ok')
        m_owner = f.get('C.owner', '-')
        r_owner = ','.join(x for x in r['owner'] if x != 'auth_completed') or '-'
        if m_connect != r['connect'] or m_owner != r_owner:
            res.disagreements.append(Disagreement(
                case={'kind': 'handshake-cut', 'cut_after': k, 'auth_delivered': r['auth_delivered']},
                model={'connect': m_connect, 'owner': m_owner}, impl={'connect': r['connect'], 'owner': r_owner},
                name='correspondence:handshake-cut'))
    res.nontrivial += len(hs)

    # (3) stream-session and SFTP waiters against the real classes -----------------------------------------
    wrng = ctx.subrng('corr-waiters')
    wscripts = [gen_stream_script(wrng) for _ in range(ctx.n(250, 3000))] + \
               [gen_sftp_script(wrng) for _ in range(ctx.n(250, 3000))]
    wreal = pair.run(_run_waiter_scripts(wscripts), timeout=1200)
    wflat = [l for s in wscripts for l in s]
    wmodel = ctx.model(DRIVER, wflat)
    pos = 0
    for s, ro in zip(wscripts, wreal):
        mo = wmodel[pos:pos + len(s)]
        pos += len(s)
        res.cases += 1
        hist.hit('waiters:' + s[0].split()[0])
        for l, a, b in zip(s, ro, mo):
            if l.endswith('show') and a != b:
                res.disagreements.append(Disagreement(case={'kind': 'waiters', 'script': s, 'line': l}, model=b, impl=a,
                                                      name='correspondence:waiters-' + s[0].split()[0]))
                break
        for l, a in zip(s, ro):
            if l.endswith('show'):
                for tok in a.replace(';', ',').replace('=', ',').split(','):
                    if tok and not tok[0].isdigit() and tok not in ('reads', 'drains', 'blocked', 'req', 'reader', '-'):
                        hist.hit('waiter-result:' + tok.split(':')[0] + (':' + tok.split(':')[1] if tok.startswith(('raised', 'failed')) else ''))
    res.nontrivial += len(set(tuple(s) for s in wscripts))
    res.samples.append({'waiter_script': ' ; '.join(wscripts[-1]), 'real': wreal[-1][-1]})

    hist['packets-delivered'] = npkts
    res.histogram = dict(hist)
    res.exhaustive = False
    res.rule = ('seeded operation scripts over <=3 channels from both sides (open with env/pty/exec|shell|subsystem, '
                'write, eof, close, abort, pause, resume, exit, wait_closed, global requests, delayed server '
                'decisions) with seeded delivery/tick schedule; for EVERY packet boundary of each script a variant '
                'with the transport cut / reset / DISCONNECT delivered / abort / one-sided loss; every handshake '
                'packet boundary; random event scripts for the stream-session and SFTP request-table machines; '
                'distinct = distinct scripts')
    return res


# ---------------------------------------------------------------------------------------------------------
# oracle: end-to-end scenarios on the real code


LOSS_KINDS = ['cut', 'reset', 'disc-by-server', 'client-abort', 'client-close', 'server-abort', 'internal-error']


async def _lose(kind: str, c: Any, s: Any, hub: Any, boom: Any) -> None:
    if kind == 'cut':
        hub.cut_transport()
    elif kind == 'reset':
        hub.cut_transport(ConnectionResetError('reset'))
    elif kind == 'disc-by-server':
        s.close()
    elif kind == 'client-abort':
        c.abort()
    elif kind == 'client-close':
        c.close()
    elif kind == 'server-abort':
        s.abort()
    elif kind == 'internal-error':
        boom()


async def _settle_count(limit: int = 200) -> int:
    loop = asyncio.get_event_loop()
    n = 0
    while len(loop._ready) > 0 and n < limit:      # type: ignore[attr-defined]
        await asyncio.sleep(0)
        n += 1
    return n


class _Boom(asyncssh.SSHClientSession):
    """A session whose data callback has a bug: the connection dies of `internal_error(ValueError)`."""

    def data_received(self, data: Any, datatype: Any) -> None:
        raise ValueError('application bug in another session')


async def _sftp_scenario(kind: str, nreq: int, delay_rounds: int) -> Dict[str, Any]:
    gate = asyncio.Event()
    trigger = asyncio.Event()

    class Slow(asyncssh.SFTPServer):
        async def stat(self, path: bytes) -> Any:
            await gate.wait()
            return super().stat(path)

    async def proc(process: Any) -> None:
        await trigger.wait()
        process.stdout.write('x')
        await asyncio.sleep(30)

    c, s, hub = await pair.make_pair(server_opts=dict(sftp_factory=Slow, process_factory=proc))
    info: Dict[str, Any] = {'kind': kind, 'nreq': nreq}
    try:
        sftp = await c.start_sftp_client()
        await c.create_session(_Boom, command='boom')
        await pair.settle(10)
        tasks = [asyncio.ensure_future(sftp.stat('/')) for _ in range(nreq)]
        for _ in range(delay_rounds):
            await asyncio.sleep(0)
        await _lose(kind, c, s, hub, trigger.set)
        rounds = await _settle_count()
        # the in-memory hub propagates a close after the written bytes were read; give it its turns
        for _ in range(5):
            await asyncio.sleep(0.001)
            rounds += await _settle_count()
        info['rounds'] = rounds
        info['closed'] = c.is_closed()
        info['results'] = [R.RealSys._outcome(t) if not t.done() or t.exception() is None or True else '' for t in tasks]
        info['results'] = ['pending' if not t.done() else ('ok' if t.exception() is None else type(t.exception()).__name__)
                           for t in tasks]
        wc = asyncio.ensure_future(sftp.wait_closed())
        await _settle_count()
        info['wait_closed'] = wc.done()
        for t in tasks + [wc]:
            if not t.done():
                t.cancel()
    finally:
        gate.set()
        trigger.set()
        hub.cut_transport()
        await pair.settle(8)
    return info


async def _stream_scenario(kind: str, pause_writer: bool) -> Dict[str, Any]:
    trigger = asyncio.Event()
    hold = asyncio.Event()

    async def proc(process: Any) -> None:
        if process.command == 'boom':
            await trigger.wait()
            process.stdout.write('x')
        await hold.wait()

    c, s, hub = await pair.make_pair(server_opts=dict(process_factory=proc, window=8))
    info: Dict[str, Any] = {'kind': kind, 'pause_writer': pause_writer}
    try:
        await c.create_session(_Boom, command='boom')
        stdin, stdout, stderr = await c.open_session('cat', encoding=None, window=8)
        tasks = {'read': asyncio.ensure_future(stdout.read()), 'read_err': asyncio.ensure_future(stderr.read(5)),
                 'wait_closed': asyncio.ensure_future(stdin.channel.wait_closed()),
                 'conn_wait_closed': asyncio.ensure_future(c.wait_closed())}
        if pause_writer:
            stdin.channel.set_write_buffer_limits(high=4, low=1)
            stdin.write(b'y' * 64)              # the server never reads: window 8 fills, the buffer passes the mark
            await pair.settle(10)
            tasks['drain'] = asyncio.ensure_future(stdin.drain())
        await pair.settle(10)
        info['blocked_before'] = sorted(k for k, t in tasks.items() if not t.done())
        await _lose(kind, c, s, hub, trigger.set)
        rounds = await _settle_count()
        for _ in range(5):
            await asyncio.sleep(0.001)
            rounds += await _settle_count()
        info['rounds'] = rounds
        info['closed'] = c.is_closed()
        info['results'] = {k: ('pending' if not t.done() else ('ok' if t.exception() is None else type(t.exception()).__name__))
                           for k, t in tasks.items()}
        for t in tasks.values():
            if not t.done():
                t.cancel()
    finally:
        hold.set()
        trigger.set()
        hub.cut_transport()
        await pair.settle(8)
    return info


def oracle(ctx: Ctx) -> OracleResult:
    res = OracleResult()
    hist = Hist()
    rng = ctx.subrng('oracle')

    # (0) fixed end-to-end histories (public API / wire), one per way something was once found to hang or to outlive
    #     its owner; their failures come first in the report
    first: List[Failure] = []
    later: List[Failure] = []
    seen_scen: set = set()
    for info in pair.run(F.run_all(), timeout=900):
        res.evaluations += 1
        hist.hit(f'history:{info["scenario"]}:{info.get("variant")}')
        for sig, what in F.judge(info):
            f = Failure(sig, what, {'kind': 'history', 'scenario': info['scenario'], 'args': info.get('args', [])})
            (later if info['scenario'] in seen_scen else first).append(f)      # one per history first
            seen_scen.add(info['scenario'])
            print(f'  C09 history {info["scenario"]}/{info.get("variant")} fails [{sig}]')
    res.failures += first + later

    # (w) the stream-session and SFTP waiter tables on the real classes, judged from the property text: once the
    #     session / handler has been told that the connection is lost, nothing it was asked to wait for is still
    #     pending (no model involved; the correspondence compares the same scripts with the Lean tables)
    wrng = ctx.subrng('oracle-waiters')
    wscripts: List[List[str]] = [list(s['script']) for s in ctx.suspects
                                 if isinstance(s, dict) and s.get('kind') == 'waiters']
    wscripts += [gen_stream_script(wrng) for _ in range(ctx.n(150, 2000))] + \
                [gen_sftp_script(wrng) for _ in range(ctx.n(80, 1000))]
    wrep: Dict[str, int] = collections.Counter()
    for sc, ro in zip(wscripts, pair.run(_run_waiter_scripts(wscripts), timeout=1200)):
        res.evaluations += 1
        lost = False
        for l, a in zip(sc, ro):
            ws = l.split()
            if len(ws) >= 2 and ws[1] == 'lost':
                lost = True
            if lost and l.endswith('show') and 'blocked=' in a:
                b = a.split('blocked=')[1].split(';')[0].split(',')
                if any(x not in ('0', '-') for x in b):
                    which = [n for n, x in zip(('read', 'read-stderr', 'drain'), b) if x not in ('0', '-')]
                    sig = f'waiter-hangs-after-connection-lost:{ws[0]}:' + '+'.join(which)
                    wrep[sig] += 1
                    if wrep[sig] <= 2:
                        res.failures.append(Failure(sig, f'{ws[0]} waiter table: after connection_lost was delivered '
                                                         f'{a!r}: still blocked: {which}; script {sc}',
                                                    {'kind': 'waiters', 'script': sc}))
                    break
    hist.hit('waiter-scripts', len(wscripts))

    # (a) suspects from the correspondence first, then fresh scripts with cuts at every packet boundary --------
    items: List[Tuple[List[str], str]] = []
    for s in ctx.suspects:
        if isinstance(s, dict) and s.get('kind') == 'script':
            items.append((s['script'], 'suspect'))
    items += make_scripts(rng, ctx.n(14, 110 if ctx.tier == 'quick' else 260), 1 if not ctx.escalated else 2,
                          ctx.n(10, 40 if ctx.tier == 'quick' else 120), ctx.n(8, 32 if ctx.tier == 'quick' else 96))
    real = run_real([s for s, _k in items])
    seen_sigs: Dict[str, int] = collections.Counter()
    for (sc, kind), (out, info) in zip(items, real):
        res.evaluations += 1
        hist.hit('script:' + kind)
        for f in script_failures(sc, out, info, kind):
            seen_sigs[f.signature] += 1
            if seen_sigs[f.signature] <= 3:
                res.failures.append(f)
        if info.get('settle_rounds'):
            hist.hit('final-settle-rounds:%d' % min(12, max(info['settle_rounds'][-3:])))
        for k, n in (info.get('judged') or {}).items():
            hist.hit('closed-while-connection-up:' + k, n)
    res.nontrivial += len(set(tuple(s) for s, _k in items))

    # (b) SFTP client requests outstanding when the connection is lost -------------------------------------------
    async def sftp_all() -> List[Dict[str, Any]]:
        out = []
        for kind in LOSS_KINDS:
            for nreq in ([1, 3] if ctx.tier == 'quick' and not ctx.escalated else [1, 2, 5]):
                for delay in ([3, 40] if ctx.tier == 'quick' and not ctx.escalated else [0, 1, 2, 3, 5, 8, 40]):
                    out.append(await _sftp_scenario(kind, nreq, delay))
        return out
    for info in pair.run(sftp_all(), timeout=1500):
        res.evaluations += 1
        hist.hit('sftp:' + info['kind'])
        pending = [r for r in info['results'] if r == 'pending']
        ok = [r for r in info['results'] if r == 'ok']
        if pending or ok:
            sig = 'sftp-request-never-completes:' + ('connection-died-of-non-ssh-exception'
                                                     if info['kind'] == 'internal-error' else info['kind'])
            if seen_sigs[sig] < 2:
                res.failures.append(Failure(
                    sig, f'{len(pending)} of {info["nreq"]} SFTP requests still pending {info["rounds"]} loop '
                         f'iterations after the connection was lost by {info["kind"]} (connection closed: '
                         f'{info["closed"]}); results {info["results"]}',
                    {'kind': 'sftp', 'loss': info['kind'], 'nreq': info['nreq']}))
            seen_sigs[sig] += 1
        for r in info['results']:
            hist.hit('sftp-result:' + r)

    # (c) stream readers / drainers / wait_closed blocked when the connection is lost ---------------------------------
    async def stream_all() -> List[Dict[str, Any]]:
        return [await _stream_scenario(kind, pw) for kind in LOSS_KINDS for pw in (False, True)]
    for info in pair.run(stream_all(), timeout=900):
        res.evaluations += 1
        hist.hit('stream:' + info['kind'])
        for k, r in info['results'].items():
            hist.hit(f'stream-result:{k}:{r}')
            if r == 'pending':
                sig = f'stream-waiter-never-completes:{k}:{info["kind"]}'
                res.failures.append(Failure(sig, f'{k}() still pending after the connection was lost by {info["kind"]} '
                                                 f'(blocked before: {info["blocked_before"]})',
                                            {'kind': 'stream', 'loss': info['kind'], 'pause_writer': info['pause_writer']}))

    # (d) connect() while the handshake is cut at every packet boundary ----------------------------------------
    for k, r in pair.run(_handshake_all(), timeout=600):
        res.evaluations += 1
        hist.hit('connect-cut')
        if k is None:
            continue
        if r['connect'] == 'pending':
            res.failures.append(Failure('connect-never-completes', f'connect() pending after cut at handshake packet {k}',
                                        {'kind': 'handshake', 'cut_after': k}))
        bad = _legal([x for x in r['owner'] if x != 'auth_completed'], True)
        if bad:
            res.failures.append(Failure('owner-callbacks:' + bad, f'client owner log {r["owner"]} (handshake cut at {k})',
                                        {'kind': 'handshake', 'cut_after': k}))
        hist.hit('connect-result:' + r['connect'])
    res.nontrivial += res.evaluations
    res.histogram = dict(hist)
    res.samples = [{'script_kind': items[0][1], 'final_observation': real[0][0][-1][:400]}]
    res.rule = ('the property evaluated on the real code: at EVERY quiescent point while the connection is up, a channel '
                'whose peer\'s CLOSE has been delivered has returned its CLOSE, resolved create_session / wait_closed, '
                'told its session connection_lost and left the channel table (whatever phase it was in; only an '
                'application-paused reader holding data is excused); after the final loss of both transports nothing awaited is '
                'pending, every session/owner log is connection_made·x*·connection_lost, no channel registered on a '
                'closed connection, no task left, bounded loop iterations; a writer blocked in drain() is released as '
                'soon as the peer\'s CLOSE has arrived; a channel BOTH applications have closed is cleaned up on both '
                'ends once nothing is in flight (whatever was still unsent / undelivered); plus end-to-end SFTP / stream '
                '/ connect scenarios under 7 ways of losing the connection and fixed histories (drain behind a peer '
                'CLOSE, undecodable text found by resume_reading, mutual close on full windows, a callback raising '
                'StopIteration, x11-req / auth-agent-req followed at once by CLOSE)')
    return res


def replay(ctx: Ctx, rep: Dict[str, Any]) -> List[Failure]:
    r = rep.get('replay', rep)
    kind = r.get('kind')
    if kind == 'script':
        (out, info), = run_real([r['script']])
        return script_failures(r['script'], out, info, 'replay')
    if kind == 'sftp':
        info = pair.run(_sftp_scenario(r['loss'], r.get('nreq', 2), 3))
        if any(x in ('pending', 'ok') for x in info['results']):
            return [Failure('sftp-request-never-completes', str(info), r)]
        return []
    if kind == 'stream':
        info = pair.run(_stream_scenario(r['loss'], r.get('pause_writer', False)))
        bad = [k for k, v in info['results'].items() if v == 'pending']
        return [Failure('stream-waiter-never-completes', str(bad), r)] if bad else []
    if kind == 'history':
        info = pair.run(F.run_one(r['scenario'], tuple(r.get('args', []))), timeout=120)
        return [Failure(sig, what, r) for sig, what in F.judge(info)]
    if kind == 'waiters':
        (ro,) = pair.run(_run_waiter_scripts([r['script']]), timeout=120)
        lost = False
        for l, a in zip(r['script'], ro):
            ws = l.split()
            lost = lost or (len(ws) >= 2 and ws[1] == 'lost')
            if lost and l.endswith('show') and 'blocked=' in a and \
                    any(x not in ('0', '-') for x in a.split('blocked=')[1].split(';')[0].split(',')):
                return [Failure('waiter-hangs-after-connection-lost:' + ws[0], a, r)]
        return []
    if kind == 'handshake':
        info = pair.run(_handshake_case(r['cut_after']))
        return [Failure('connect-never-completes', str(info), r)] if info['connect'] == 'pending' else []
    return []
