"""T1 translator for C10: limits and guards of the receive path, regenerated from the current asyncssh tree.

Emits lean/AsyncsshModel/Gen/C10.lean:
  * the four length limits, read from the live module,
  * the guards that use them, translated from the AST of `_recv_version` / `_process_userauth_request`
    (so `>` vs `>=` and the constant compared against are what the code says now),
  * the zero-maximum-packet-size guard of `_process_channel_open` / `_process_channel_open_confirmation`
    (present or commented out, and whether it sits before or after the dropbear adjustment),
  * the packet-size choice of `_flush_send_buf` and the window check of `_process_data`,
  * the receive block sizes of every negotiable cipher.
Raises `Untranslatable` when the code no longer has the shape the model mirrors.
"""

from __future__ import annotations

import ast
import importlib
from typing import Any, Dict, List, Optional, Tuple

import translate as T
import vlib

LIMITS = ['_MAX_BANNER_LINES', '_MAX_BANNER_LINE_LEN', '_MAX_VERSION_LINE_LEN', '_MAX_USERNAME_LEN']


def _mentions(node: ast.AST, name: str) -> bool:
    return any(isinstance(n, ast.Name) and n.id == name for n in ast.walk(node))


def _guard_with(func: ast.AST, limit: str) -> ast.If:
    """the unique `if <test mentioning limit>:` in func"""
    found = [n for n in ast.walk(func) if isinstance(n, ast.If) and _mentions(n.test, limit)]
    if len(found) != 1:
        raise T.Untranslatable(f'{getattr(func, "name", "?")}: expected exactly one `if` using {limit}, found {len(found)}')
    return found[0]


def _closes(ifnode: ast.If) -> bool:
    """the guarded block force-closes the connection or raises"""
    for n in ifnode.body:
        for m in ast.walk(n):
            if isinstance(m, ast.Raise):
                return True
            if isinstance(m, ast.Call) and isinstance(m.func, ast.Attribute) and m.func.attr == '_force_close':
                return True
    return False


def one_var_env(test: ast.AST, consts: Dict[str, str], var: str) -> Dict[str, str]:
    """Environment for a guard with exactly one varying quantity: every maximal sub-expression that is not a
    literal and does not mention a limit constant (`len(x)`, `self._attr`, a local name — whatever it is called)
    becomes `var`.  Local renames therefore do not disturb the translation."""
    env = dict(consts)
    free: List[str] = []

    def has_const(n: ast.AST) -> bool:
        return any(ast.unparse(m) in consts for m in ast.walk(n) if isinstance(m, (ast.Name, ast.Attribute)))

    def visit(n: ast.AST) -> None:
        if isinstance(n, ast.Constant) or ast.unparse(n) in consts:
            return
        if isinstance(n, (ast.Compare, ast.BoolOp)) or (isinstance(n, (ast.BinOp, ast.UnaryOp)) and has_const(n)):
            for c in ast.iter_child_nodes(n):
                if isinstance(c, ast.expr):
                    visit(c)
            return
        src = ast.unparse(n)
        if src not in free:
            free.append(src)
    visit(test)
    if len(free) != 1:
        raise T.Untranslatable(f'guard `{ast.unparse(test)}`: expected one varying quantity, found {free}')
    env[free[0]] = var
    return env


def _bool_def(name: str, var: str, test: ast.AST, consts: Dict[str, str], doc: str) -> str:
    env = one_var_env(test, consts, var)
    return f'/-- {doc} -/\ndef {name} ({var} : Int) : Bool :=\n  decide {T.expr_to_lean(test, env)}\n\n'


def pktsize_guard(func: ast.AST) -> Tuple[Optional[ast.If], bool]:
    """(the `if <send_pktsize test>: raise` of a channel-open handler or None, guard is after the dropbear adjustment)"""
    adjust = [n for n in ast.walk(func) if isinstance(n, ast.AugAssign) and isinstance(n.target, ast.Name)
              and isinstance(n.op, ast.Sub) and isinstance(n.value, ast.Constant) and n.value.value == 1]
    if len(adjust) != 1:
        raise T.Untranslatable(f'{func.name}: dropbear adjustment `<max packet size> -= 1` not found')   # type: ignore
    var = adjust[0].target.id          # type: ignore
    guards = [n for n in ast.walk(func) if isinstance(n, ast.If) and _mentions(n.test, var)
              and any(isinstance(m, ast.Raise) for b in n.body for m in ast.walk(b))]
    if len(guards) > 1:
        raise T.Untranslatable(f'{func.name}: more than one guard on {var}')      # type: ignore
    if not guards:
        return None, False
    return guards[0], guards[0].lineno > adjust[0].lineno


def generate() -> Dict[str, Any]:
    conn = importlib.import_module('asyncssh.connection')
    enc = importlib.import_module('asyncssh.encryption')
    src = T.read_source('asyncssh/connection.py')
    tree = ast.parse(src)
    chsrc = T.read_source('asyncssh/channel.py')
    chtree = ast.parse(chsrc)
    limits = {}
    for name in LIMITS:
        v = getattr(conn, name, None)
        if not isinstance(v, int) or v <= 0:
            raise T.Untranslatable(f'asyncssh.connection.{name} is not a positive int')
        limits[name] = v
    env_limits = {k: f'({v} : Int)' for k, v in limits.items()}

    rv = T.find_def(tree, 'SSHConnection._recv_version')
    # find(b'\n', 0, LIMIT)
    finds = [n for n in ast.walk(rv) if isinstance(n, ast.Call) and isinstance(n.func, ast.Attribute)
             and n.func.attr == 'find' and len(n.args) == 3]
    if len(finds) != 1 or not (isinstance(finds[0].args[1], ast.Constant) and finds[0].args[1].value == 0):
        raise T.Untranslatable('_recv_version: `self._inpbuf.find(b"\\n", 0, LIMIT)` not found')
    find_limit = T.expr_to_lean(finds[0].args[2], env_limits)

    g_line = _guard_with(rv, '_MAX_BANNER_LINE_LEN')
    g_ver = _guard_with(rv, '_MAX_VERSION_LINE_LEN')
    g_cnt = _guard_with(rv, '_MAX_BANNER_LINES')
    for g, what in ((g_line, 'banner line length'), (g_ver, 'version length'), (g_cnt, 'banner line count')):
        if not _closes(g):
            raise T.Untranslatable(f'_recv_version: the {what} guard does not close the connection')
    # the count guard must sit in the branch that increments the counter
    incs = [n for n in ast.walk(rv) if isinstance(n, ast.AugAssign) and T._name_of(n.target) == 'self._banner_lines'
            and isinstance(n.op, ast.Add) and isinstance(n.value, ast.Constant) and n.value.value == 1]
    if len(incs) != 1 or incs[0].lineno > g_cnt.lineno:
        raise T.Untranslatable('_recv_version: `self._banner_lines += 1` before the count guard not found')

    ur = T.find_def(tree, 'SSHConnection._process_userauth_request')
    g_user = _guard_with(ur, '_MAX_USERNAME_LEN')
    if not _closes(g_user):
        raise T.Untranslatable('_process_userauth_request: the username guard does not raise')

    out = T.header('C10', ['asyncssh/connection.py (_recv_version, _process_userauth_request, _process_channel_open, '
                           '_process_channel_open_confirmation)', 'asyncssh/channel.py (_flush_send_buf, _process_data)',
                           'asyncssh/encryption.py (live cipher table)'])
    out += 'namespace AsyncsshModel.Gen.C10\n\n'
    for name, lean in (('_MAX_BANNER_LINES', 'maxBannerLines'), ('_MAX_BANNER_LINE_LEN', 'maxBannerLineLen'),
                       ('_MAX_VERSION_LINE_LEN', 'maxVersionLineLen'), ('_MAX_USERNAME_LEN', 'maxUsernameLen')):
        out += f'/-- `{name}` -/\ndef {lean} : Nat := {limits[name]}\n'
    out += f'\n/-- third argument of `self._inpbuf.find(b\'\\n\', 0, …)` in `_recv_version` -/\n' \
           f'def findLimit : Int := {find_limit}\n\n'
    out += _bool_def('bannerLineTooLong', 'buflen', g_line.test, env_limits,
                     'no newline among the first `findLimit` bytes: `' + ast.unparse(g_line.test) + '` closes')
    out += _bool_def('versionTooLong', 'n', g_ver.test, env_limits, '`' + ast.unparse(g_ver.test) + '` closes')
    out += _bool_def('tooManyBannerLines', 'n', g_cnt.test, env_limits,
                     'after `self._banner_lines += 1`: `' + ast.unparse(g_cnt.test) + '` closes')
    out += _bool_def('usernameTooLong', 'n', g_user.test, env_limits, '`' + ast.unparse(g_user.test) + '` raises IllegalUserName')

    # zero maximum packet size guards
    info: Dict[str, Any] = {}
    for fn, lean in (('_process_channel_open', 'open'), ('_process_channel_open_confirmation', 'confirm')):
        f = T.find_def(tree, 'SSHConnection.' + fn)
        guard, after = pktsize_guard(f)
        if guard is None:
            body = 'fun _ => false'
            doc = f'`{fn}` has no active guard on `send_pktsize` (the check is commented out)'
        else:
            body = 'fun pktsize => decide ' + T.expr_to_lean(guard.test, one_var_env(guard.test, {}, 'pktsize'))
            doc = f'`{fn}`: `{ast.unparse(guard.test)}` raises ProtocolError'
        info[lean + '_guard'] = ast.unparse(guard.test) if guard is not None else None
        out += f'/-- {doc} -/\ndef {lean}RejectsPktsize : Int → Bool :=\n  {body}\n'
        out += f'/-- the guard is evaluated after the dropbear adjustment `send_pktsize -= 1` -/\n' \
               f'def {lean}GuardAfterAdjust : Bool := {T.lean_bool(after)}\n\n'

    # _flush_send_buf: loop condition and packet size choice
    fl = T.find_def(chtree, 'SSHChannel._flush_send_buf')
    loops = [n for n in ast.walk(fl) if isinstance(n, ast.While)]
    if len(loops) != 1 or ast.unparse(loops[0].test) != 'self._send_buf and self._send_window':
        raise T.Untranslatable('_flush_send_buf: loop `while self._send_buf and self._send_window` not found')
    mins = [n for n in ast.walk(loops[0]) if isinstance(n, ast.Assign) and isinstance(n.value, ast.Call)
            and isinstance(n.value.func, ast.Name) and n.value.func.id == 'min'
            and 'self._send_window' in ast.unparse(n.value) and 'self._send_pktsize' in ast.unparse(n.value)]
    if len(mins) != 1:
        raise T.Untranslatable('_flush_send_buf: `<size> = min(self._send_window, self._send_pktsize)` not found')
    asg = mins[0]
    size_var = asg.targets[0].id if isinstance(asg.targets[0], ast.Name) else None
    if size_var is None:
        raise T.Untranslatable('_flush_send_buf: packet size is not assigned to a local')
    out += '/-- `pktsize = ' + ast.unparse(asg.value) + '` in `_flush_send_buf` -/\n'
    out += 'def flushPktsize (window maxpkt : Int) : Int :=\n  ' + \
        T.expr_to_lean(asg.value, {'self._send_window': 'window', 'self._send_pktsize': 'maxpkt'}) + '\n\n'
    # an `if <test on the packet size>: break` directly in the loop body (the repair of F2), if any
    breaks = [n for n in loops[0].body if isinstance(n, ast.If) and _mentions(n.test, size_var) and not n.orelse
              and any(isinstance(m, ast.Break) for m in n.body) and n.lineno > asg.lineno]
    if len(breaks) > 1:
        raise T.Untranslatable('_flush_send_buf: more than one break on the packet size')
    if breaks:
        first_use = min((n.lineno for n in ast.walk(loops[0]) if isinstance(n, ast.Name) and n.id == size_var
                         and isinstance(n.ctx, ast.Load) and n.lineno > asg.lineno), default=0)
        if first_use < breaks[0].lineno:
            raise T.Untranslatable('_flush_send_buf: the packet size is used before the break that guards it')
        out += '/-- `if ' + ast.unparse(breaks[0].test) + ': break` right after the packet size is chosen -/\n'
        out += 'def flushBreaks : Int → Bool :=\n  fun pktsize => decide ' + \
            T.expr_to_lean(breaks[0].test, one_var_env(breaks[0].test, {}, 'pktsize')) + '\n\n'
    else:
        out += '/-- `_flush_send_buf` has no exit for a non-positive packet size -/\n'
        out += 'def flushBreaks : Int → Bool :=\n  fun _ => false\n\n'
    info['flush_break'] = ast.unparse(breaks[0].test) if breaks else None
    pd = T.find_def(chtree, 'SSHChannel._process_data')
    wins = [n for n in ast.walk(pd) if isinstance(n, ast.If) and 'self._recv_window' in ast.unparse(n.test)
            and any(isinstance(m, ast.Raise) for b in n.body for m in ast.walk(b))]
    if len(wins) != 1:
        raise T.Untranslatable('_process_data: window check not found')
    out += '/-- `' + ast.unparse(wins[0].test) + '` raises ProtocolError("Window exceeded") in `_process_data`;\n' \
           '    `buffered` is `_recv_buf_len` (bytes accepted while reading is paused), 0 where the tree has no such field -/\n'
    out += 'def windowExceeded (datalen window buffered : Int) : Bool :=\n  let _ := buffered\n  decide ' + \
        T.expr_to_lean(wins[0].test, one_var_env(wins[0].test, {'self._recv_window': 'window',
                                                                 'self._recv_buf_len': 'buffered'}, 'datalen')) + '\n\n'
    info['window_check'] = ast.unparse(wins[0].test)

    # receive block sizes: SSHConnection starts with 8 and takes max(8, cipher block size) afterwards
    init = T.find_def(tree, 'SSHConnection.__init__')
    bs0 = [n for n in ast.walk(init) if isinstance(n, ast.Assign) and len(n.targets) == 1
           and T._name_of(n.targets[0]) == 'self._recv_blocksize' and isinstance(n.value, ast.Constant)]
    if len(bs0) != 1 or not isinstance(bs0[0].value.value, int):
        raise T.Untranslatable('SSHConnection.__init__: initial _recv_blocksize not found')
    sizes = {int(bs0[0].value.value)}
    mac = importlib.import_module('asyncssh.mac')
    for e in enc.get_encryption_algs():
        macs = mac.get_mac_algs() if enc.encryption_needs_mac(e) else [b'']
        _ks, _iv, bs, _mk, _mh, _etm = enc.get_encryption_params(e, macs[0] if macs else b'')
        sizes.add(max(8, bs))
    out += '/-- every value `_recv_blocksize` can take: the initial one and `max(8, block size)` of each cipher -/\n'
    out += 'def recvBlockSizes : List Nat := ' + T.lean_list([str(s) for s in sorted(sizes)]) + '\n\n'
    out += 'end AsyncsshModel.Gen.C10\n'
    changed = vlib.write_if_changed(vlib.module_path('AsyncsshModel.Gen.C10'), out)
    info.update({'gen_file': 'Gen/C10.lean', 'changed': changed, 'limits': limits, 'block_sizes': sorted(sizes),
                 'guards': {'line': ast.unparse(g_line.test), 'version': ast.unparse(g_ver.test),
                            'count': ast.unparse(g_cnt.test), 'username': ast.unparse(g_user.test)}})
    return info
