"""C16 — Signatures and certificates verify only when nothing was altered.

Lean: Model/CertWire.lean, Model/Cert.lean, Model/SshSig.lean, Props/C16.lean; tables and the `validate`
conditions are regenerated from the code into Gen/C16.lean by props/_c16_translate.py.
Correspondence: the Lean verify wrapper / certificate parser / option decoder / validate decision / SSHSIG
encoder, parser and validation decision / allowed-signers loader, run on the same artefacts as the real code
(real keys and certificates, byte-mutated and structurally odd re-signed blobs).  Cryptographic and stdlib
questions the model asks (raw signature verification, "do these fields make a key", ip_network, parse_time) are
answered with the real primitives (PyCA called directly for raw verification) and fed back to the driver.
Oracle: the property evaluated on the real code only: sign/verify for every key type x algorithm, every
single-byte edit of signature blobs, certificates and SSHSIG blobs, validity windows on a patched clock,
principals, critical options, allowed-signers variations, ssh-keygen cross-checks (thorough); plus the cases of
props/_c16_audit.py (audit of 2026-09-26): certificates whose subject key fields make no key, host certificates as
SSHSIG signers, malformed and re-cased allowed-signers options, security-key (sk / webauthn) signature blobs made
with a software key as the authenticator.
"""

from __future__ import annotations

import contextlib
import hashlib
import importlib
import os
import subprocess
from fractions import Fraction
from typing import Any, Dict, List, Optional, Sequence, Tuple
from unittest import mock

import asyncssh
from asyncssh.packet import String, UInt32, UInt64, MPInt, SSHPacket

from vlib import (Ctx, CorrResult, OracleResult, Failure, Disagreement, Hist, hx, unhx)
from props import _c16_translate, _c16_audit

pk = importlib.import_module('asyncssh.public_key')
sshsig = importlib.import_module('asyncssh.sshsig')
misc = importlib.import_module('asyncssh.misc')
pattern = importlib.import_module('asyncssh.pattern')

PROPERTY = 'C16'
MANIFEST = {
    'text': 'Lean 4 theorems over an executable model of SSHKey.verify, OpenSSH certificate parsing/validation and '
            'SSHSIG: a True answer of verify pins key, data, scheme and signature value (verify_sound, '
            'verify_rejects_any_change, verify_blob_unique_plain); an accepted certificate is exactly signed region + '
            'signature and under an ideal signature every edit is rejected (cert_signed_region, '
            'cert_any_edit_rejected, cert_single_byte_edit_rejected); validate passes iff type, after <= now < before '
            'and principal conditions hold (cert_validate_iff, over conditions regenerated from the source); unknown '
            'critical options reject (critical_options_understood); extension decoding is faithful under an exact '
            'precondition with a witness that it cannot be dropped (extension_decoding_faithful, '
            'extension_decoding_unfaithful_witness); SSHSIG signed data is an injective encoding and validation needs '
            'an authorising allowed-signers entry (sshsig_signed_data_injective, sshsig_validate_sound, '
            'sshsig_binding); a certificate that authorises an SSHSIG has exactly the type validate_sshsig asks for, '
            'read from the source (sshsig_cert_signer_is_user_certificate, sshsig_cert_type_gen_status, witness '
            'sshsig_host_cert_prefix_witness for CERT_TYPE_ANY); allowed-signers data without a newline is one line and '
            'yields one entry whatever else it contains (signers_one_line_one_entry, tie signers_split_tie, witness '
            'signers_hidden_entry_prefix_witness = defect F146); allowed-signers option names are stored lower-case '
            'and flag-then-value / bare value options raise, with the switches probed on the live parser '
            '(addOption_stores_lower, addOption_flag_then_value, addOption_bare_value_opt, option_case_gen_status, '
            'option_strict_gen_status, witnesses addOption_prefix_witness, option_case_prefix_witness). The model is tied to the code by a differential run on real keys, certificates, '
            'signatures and mutated blobs, and the property is evaluated directly on the real code (exhaustive '
            'single-byte edits, clock at the window bounds, ssh-keygen cross-checks).',
    'note': 'unforgeability is the ideal-signature hypothesis (explicit in each theorem); RSA algorithm-name aliases '
            'are a known finding (F17); the non-consumed value of unknown extensions (F9) was fixed upstream of this '
            'check (c6ed201) and its oracle case is kept; ECDSA (r, n-s) '
            'malleability and non-minimal mpints are properties of the primitive/encoding outside the hypothesis; '
            'security-key signature formats (sk-ecdsa, sk-ed25519, webauthn-sk-ecdsa: blob shape .unsupported in '
            'Gen/C16.lean, so the model answers False to every sk signature and the verify_* theorems say nothing '
            'about sk keys: they are covered by the oracle only, with a software key as the authenticator; the '
            'unbound origin/extensions fields of webauthn blobs are recorded finding A-C16-2), X.509 and the PEM '
            'armour of SSHSIG are outside the model; unknown allowed-signers option names are ignored by the code '
            'and by the model (recorded finding A-C16-1); str.lower() of option names is modelled for A-Z only',
    'technique': 'Lean 4 proof (parser = inverse of encoder, decision tables, injectivity) over a model with symbolic '
                 'signatures + oracle-answered differential correspondence + exhaustive byte-edit oracle',
}
LEAN_PROPS = ['AsyncsshModel.Props.C16']
DRIVER = 'Drivers/C16.lean'
TRUSTED = [
    'ideal signature scheme (only honestly produced (key, scheme, data, signature) verify) as an explicit hypothesis; '
    'PyCA cryptography/OpenSSL implement RSA-PKCS1v15, DSA, ECDSA, Ed25519, Ed448',
    'injective hash on messages (SSHSIG binding theorem), hashlib implements SHA-256/512',
    'ipaddress.ip_network, misc.parse_time, import_public_key (text formats) and key-parameter validation are '
    'oracles of the model, answered by the real functions during correspondence',
    'ssh-keygen (OpenSSH 9.2) as independent verifier in the thorough tier',
]
ASSUMPTIONS = [
    'time.time() is a non-negative rational',
    'string fields are shorter than 2^32 bytes',
    'text handed to the allowed-signers loader is a str (decoded by the caller)',
    'allowed-signers option names contain no cased non-ASCII letters (str.lower modelled on A-Z)',
]


def translate(ctx: Ctx) -> Dict[str, Any]:
    return _c16_translate.translate(ctx)


# ---------------------------------------------------------------------------
# keys (cached per process; RSA 2048)

KEY_ALGS: List[Tuple[str, Dict[str, Any]]] = [
    ('ssh-rsa', {'key_size': 2048}), ('ssh-dss', {}), ('ecdsa-sha2-nistp256', {}), ('ecdsa-sha2-nistp384', {}),
    ('ecdsa-sha2-nistp521', {}), ('ecdsa-sha2-1.3.132.0.10', {}), ('ssh-ed25519', {}), ('ssh-ed448', {})]
_KEYS: Dict[Tuple[str, int], Any] = {}


def key(alg: str, idx: int = 0) -> Any:
    if (alg, idx) not in _KEYS:
        kw = dict(KEY_ALGS)[alg]
        _KEYS[(alg, idx)] = asyncssh.generate_private_key(alg, **kw)
    return _KEYS[(alg, idx)]


def available_algs() -> List[str]:
    out = []
    for alg, _kw in KEY_ALGS:
        try:
            key(alg, 0)
            out.append(alg)
        except Exception:
            pass
    return out


def sk_public_keys() -> List[Any]:
    """security-key *public* keys (usable as certificate subjects; signing needs a device)"""
    out = []
    try:
        ed = key('ssh-ed25519', 1).convert_to_public().encode_ssh_public()
        out.append(pk.decode_ssh_public_key(String(b'sk-ssh-ed25519@openssh.com') + ed + String(b'ssh:')))
    except Exception:
        pass
    try:
        ec = key('ecdsa-sha2-nistp256', 1).convert_to_public().encode_ssh_public()
        out.append(pk.decode_ssh_public_key(String(b'sk-ecdsa-sha2-nistp256@openssh.com') + ec + String(b'ssh:')))
    except Exception:
        pass
    return out


_HANDLERS: Dict[bytes, Any] = {}


def handlers() -> Dict[bytes, Any]:
    """key algorithm -> key class, obtained from key objects"""
    if not _HANDLERS:
        for alg in available_algs():
            k = key(alg)
            _HANDLERS[k.algorithm] = type(k)
        for k in sk_public_keys():
            _HANDLERS[k.algorithm] = type(k)
    return _HANDLERS


# ---------------------------------------------------------------------------
# raw verification with PyCA called directly (the "ideal primitive" answers of the correspondence)


def raw_verify(pub: Any, scheme: bytes, data: bytes, raw: Tuple[str, Any]) -> bool:
    from cryptography.exceptions import InvalidSignature
    from cryptography.hazmat.primitives import hashes
    from cryptography.hazmat.primitives.asymmetric import padding, ec, utils, rsa, dsa, ed25519, ed448
    k = pub.pyca_key
    if hasattr(k, 'public_key'):
        k = k.public_key()
    try:
        if isinstance(k, rsa.RSAPublicKey):
            h = {b'sha1': hashes.SHA1, b'sha224': hashes.SHA224, b'sha256': hashes.SHA256,
                 b'sha384': hashes.SHA384, b'sha512': hashes.SHA512}[scheme]()
            if raw[0] != 'b':
                return False
            k.verify(raw[1], data, padding.PKCS1v15(), h)
            return True
        if isinstance(k, (ed25519.Ed25519PublicKey, ed448.Ed448PublicKey)):
            if raw[0] != 'b':
                return False
            k.verify(raw[1], data)
            return True
        if isinstance(k, ec.EllipticCurvePublicKey):
            if raw[0] != 'p':
                return False
            r, s = raw[1]
            if r <= 0 or s <= 0:
                return False
            size = k.curve.key_size
            h = hashes.SHA256() if size <= 256 else hashes.SHA384() if size <= 384 else hashes.SHA512()
            k.verify(utils.encode_dss_signature(r, s), data, ec.ECDSA(h))
            return True
        if isinstance(k, dsa.DSAPublicKey):
            if raw[0] != 'p':
                return False
            r, s = raw[1]
            if r <= 0 or s <= 0:
                return False
            k.verify(utils.encode_dss_signature(r, s), data, hashes.SHA1())
            return True
    except InvalidSignature:
        return False
    except ValueError:
        return False
    raise RuntimeError('raw_verify: unsupported key type ' + type(k).__name__)


# ---------------------------------------------------------------------------
# helpers shared by correspondence and oracle


@contextlib.contextmanager
def clock(now: Any):
    with mock.patch('time.time', return_value=now):
        yield


def text_enc(s: str) -> str:
    return 'e' if s == '' else '.'.join(str(ord(c)) for c in s)


def text_dec(t: str) -> str:
    return '' if t == 'e' else ''.join(chr(int(x)) for x in t.split('.'))


def texts_enc(l: Sequence[str]) -> str:
    return 'P' + ','.join(text_enc(s) for s in l)


def texts_dec(t: str) -> List[str]:
    assert t[0] == 'P'
    return [] if t == 'P' else [text_dec(x) for x in t[1:].split(',')]


def hexlist_dec(t: str) -> List[bytes]:
    return [] if t == '=' else [unhx(x) for x in t.split(',')]


def classify(e: BaseException) -> str:
    return 'exc:' + type(e).__name__


def impl_verify(pub: Any, data: bytes, sig: bytes) -> str:
    try:
        return '1' if pub.verify(data, sig) else '0'
    except Exception as e:
        return classify(e)


def build_cert(ca: Any, subj: Any, cert_alg: bytes, ctype: int, key_id: bytes, principals: bytes,
               after: int, before: int, options: bytes, exts: bytes, reserved: bytes = b'',
               nonce: Optional[bytes] = None, serial: int = 1, sig_alg: Optional[bytes] = None,
               ca_blob: Optional[bytes] = None, tail: bytes = b'') -> bytes:
    """A v01 certificate blob assembled by hand and signed by a real CA key (any field contents)."""
    nonce = os.urandom(32) if nonce is None else nonce
    body = b''.join((String(nonce), subj.encode_ssh_public(), UInt64(serial), UInt32(ctype), String(key_id),
                     String(principals), UInt64(after), UInt64(before), String(options), String(exts),
                     String(reserved)))
    data = String(cert_alg) + body + String(ca.public_data if ca_blob is None else ca_blob)
    return data + String(ca.sign(data, sig_alg or ca.sig_algorithms[0])) + tail


def cert_alg_for(subj: Any, rng: Any = None) -> bytes:
    if subj.algorithm == b'ssh-rsa':
        algs = [b'ssh-rsa-cert-v01@openssh.com', b'rsa-sha2-256-cert-v01@openssh.com',
                b'rsa-sha2-512-cert-v01@openssh.com']
        return rng.choice(algs) if rng else algs[0]
    return subj.algorithm.replace(b'@openssh.com', b'') + b'-cert-v01@openssh.com'


def canon_opts_impl(opts: Dict[str, Any]) -> Dict[str, str]:
    out = {}
    for k, v in opts.items():
        if v is True:
            out[k] = 'F'
        elif isinstance(v, str):
            out[k] = 'T' + v
        else:
            out[k] = 'A' + ','.join(str(n) for n in v)
    return out


def canon_opts_model(t: str) -> Dict[str, str]:
    assert t[0] == 'O'
    out: Dict[str, str] = {}
    if t == 'O':
        return out
    for item in t[1:].split(';'):
        name, val = item.split('=', 1)
        k = unhx(name).decode('ascii')
        if val == 'F':
            out[k] = 'F'
        elif val[0] == 'T':
            out[k] = 'T' + text_dec(val[1:])
        else:
            out[k] = 'A' + ','.join(unhx(x).decode('ascii') for x in val[1:].split(',') if x)
    return out


def impl_cert(blob: bytes) -> Tuple[str, Any]:
    try:
        c = pk.decode_ssh_certificate(blob)
    except pk.KeyImportError:
        return 'reject', None
    except Exception as e:
        return classify(e), None
    if not isinstance(c, pk.SSHOpenSSHCertificate):
        return 'other', None
    return 'ok', c


def cert_summary_impl(c: Any) -> Dict[str, Any]:
    return {'principals': list(c.principals), 'opts': canon_opts_impl(c.options),
            'ca': c.signing_key.public_data.hex(), 'key': c.key.public_data.hex()}


def impl_validate(c: Any, want: int, principal: Optional[str], now: Any) -> str:
    with clock(now):
        try:
            c.validate(want, principal)
            return 'ok'
        except ValueError as e:
            return 'err:' + str(e).replace(' ', '_')
        except Exception as e:
            return classify(e)


def frac(now: Any) -> Tuple[int, int]:
    f = Fraction(now)
    return f.numerator, f.denominator


def signed_data_py(ns: bytes, hash_name: bytes, digest: bytes) -> bytes:
    return b'SSHSIG' + String(ns) + String(b'') + String(hash_name) + String(digest)


def cert_answers(ask: List[str], blob: bytes) -> Tuple[str, str, str, str]:
    """Answer the queries of the model's certificate parser with the real primitives."""
    _ask, keyalg, fields, ca, regionlen, sig, ips = ask
    keyalg_b = unhx(keyalg)
    fld = hexlist_dec(fields)
    handler = handlers().get(keyalg_b)
    keydata = '!'
    if handler is not None:
        try:
            params = handler.decode_ssh_public(SSHPacket(b''.join(String(f) for f in fld)))
            keydata = hx(handler.make_public(params).public_data)
        except Exception:
            keydata = '!'
    caok, sigok = '0', '0'
    try:
        cak = pk.decode_ssh_public_key(unhx(ca))
        caok = '1'
        try:
            sigok = '1' if cak.verify(blob[:int(regionlen)], unhx(sig)) else '0'
        except Exception:
            sigok = '0'
    except Exception:
        caok = '0'
    ans = []
    for tok in hexlist_dec(ips):
        try:
            ans.append(hx(tok) + '=' + hx(str(misc.ip_network(tok.decode('ascii'))).encode()))
        except Exception:
            ans.append(hx(tok) + '=!')
    return keydata, caok, sigok, (','.join(ans) if ans else '=')


def signer_answers(qline: str, now: Any) -> str:
    """Answer the key-import and parse_time queries of the allowed-signers loader."""
    assert qline.startswith('Q')
    ans = []
    seen = set()
    for q in qline.split()[1:]:
        if q in seen:
            continue
        seen.add(q)
        kind, h = q.split(':')
        s = unhx(h).decode('utf-8')
        if kind == 'k':
            try:
                ans.append(q + '=' + hx(pk.import_public_key(s).public_data))
            except pk.KeyImportError:
                ans.append(q + '=!')
            except Exception:
                ans.append(q + '=!')
        else:
            with clock(now):
                try:
                    ans.append(q + '=' + str(int(misc.parse_time(s))))
                except ValueError:
                    ans.append(q + '=!')
    return ','.join(ans) if ans else '='


def pub_line(k: Any) -> str:
    return k.convert_to_public().export_public_key().decode().strip()


# ---------------------------------------------------------------------------
# generators

PRINCIPALS = ['alice', 'bob', 'root', 'a.example.com', 'user@host', 'né', 'x y', '*', 'a*', '', 'ALICE', 'al?ce']
NAMESPACES = ['file', 'git', 'email', 'file1', 'f', 'né', 'a b', 'FILE']
PATTERNS = ['*', 'alice', 'a*', '*e', 'al?ce', '!bob', 'a*,!alice', '*,!a*', 'alice,bob', '', '?', '**', 'a[b]c',
            '[a]', 'a]', '!*', 'x*y*z', 'né', '*é', 'file*,!file1', 'git']


def gen_text(rng: Any) -> str:
    r = rng.random()
    if r < 0.5:
        return rng.choice(PRINCIPALS)
    alphabet = 'ab*?![],é€\U0001F600 .-@'
    return ''.join(rng.choice(alphabet) for _ in range(rng.randint(0, 6)))


def gen_window(rng: Any) -> Tuple[int, int]:
    r = rng.random()
    if r < 0.2:
        return 0, 0xffffffffffffffff
    if r < 0.3:
        a = rng.choice([0, 1, 1000, 2 ** 32, 2 ** 63])
        return a, a + 1
    a = rng.randint(0, 2 ** rng.choice([8, 31, 33, 52, 63]))
    b = a + rng.randint(1, 2 ** rng.choice([1, 8, 31, 40]))
    return a, min(b, 0xffffffffffffffff)


def gen_real_cert(rng: Any, cas: List[Any], subjects: List[Any]) -> Tuple[Any, Dict[str, Any]]:
    ca = rng.choice(cas)
    subj = rng.choice(subjects)
    a, b = gen_window(rng)
    nprinc = rng.choice([0, 0, 1, 2, 3])
    princ = [p for p in (gen_text(rng) for _ in range(nprinc)) if ',' not in p]
    key_id = gen_text(rng)
    serial = rng.choice([0, 1, 2 ** 64 - 1, rng.randint(0, 2 ** 64 - 1)])
    kw: Dict[str, Any] = dict(serial=serial, principals=princ, valid_after=a, valid_before=b)
    sig_alg = rng.choice(ca.sig_algorithms).decode()
    if rng.random() < 0.6:
        if rng.random() < 0.4:
            kw['force_command'] = rng.choice(['ls', 'echo né', 'a b c', '/bin/true'])
        if rng.random() < 0.4:
            kw['source_address'] = rng.sample(['10.0.0.0/8', '192.168.1.1', '::1', '2001:db8::/32', '127.0.0.1/32'],
                                              rng.randint(1, 3))
        for flag in ('permit_x11_forwarding', 'permit_agent_forwarding', 'permit_port_forwarding', 'permit_pty',
                     'permit_user_rc', 'touch_required'):
            kw[flag] = rng.random() < 0.5
        cert = ca.generate_user_certificate(subj, key_id, sig_alg=sig_alg, **kw)
        kind = 'user'
    else:
        cert = ca.generate_host_certificate(subj, key_id, sig_alg=sig_alg, **kw)
        kind = 'host'
    return cert, {'kind': kind, 'after': a, 'before': b, 'principals': princ, 'ca': ca, 'subj': subj}


def odd_cert_blobs(rng: Any, ca: Any, subj: Any) -> List[Tuple[str, bytes]]:
    """Structurally unusual certificates, all with a *valid* CA signature."""
    alg = cert_alg_for(subj, rng)
    S = String
    princ = S('alice') + S('bob')
    ext_pty = S('permit-pty') + S('')
    out: List[Tuple[str, bytes]] = []

    def mk(label: str, **kw: Any) -> None:
        args: Dict[str, Any] = dict(ctype=1, key_id=b'id', principals=princ, after=0, before=2 ** 64 - 1,
                                    options=b'', exts=ext_pty)
        args.update(kw)
        try:
            out.append((label, build_cert(ca, subj, alg, **args)))
        except Exception:
            pass
    mk('plain')
    mk('host', ctype=2, exts=b'')
    mk('type0', ctype=0)
    mk('type3', ctype=3)
    mk('keyid-bad-utf8', key_id=b'\xff\xfe')
    mk('keyid-surrogate', key_id=b'\xed\xa0\x80')
    mk('keyid-overlong', key_id=b'\xc0\xaf')
    mk('keyid-4byte', key_id='\U0001F600'.encode())
    mk('princ-bad-utf8', principals=S(b'\xc3'))
    mk('princ-truncated', principals=S('alice')[:-1])
    mk('princ-trailing', principals=S('alice') + b'\0\0')
    mk('princ-empty-name', principals=S('') + S('x'))
    mk('crit-unknown', options=S('verify-required') + S(''))
    mk('crit-unknown-after-known', options=S('force-command') + S(S('ls')) + S('zzz') + S(''))
    mk('crit-force-command', options=S('force-command') + S(S('echo hi')))
    mk('crit-force-command-bad-utf8', options=S('force-command') + S(S(b'\xff')))
    mk('crit-force-command-trailing', options=S('force-command') + S(S('ls') + b'x'))
    mk('crit-force-command-raw', options=S('force-command') + S('ls'))
    mk('crit-force-command-missing-data', options=S('force-command'))
    mk('crit-source-address', options=S('source-address') + S(S('10.0.0.0/8,::1')))
    mk('crit-source-address-hostbits', options=S('source-address') + S(S('10.0.0.1/8')))
    mk('crit-source-address-netmask', options=S('source-address') + S(S('10.0.0.0/255.0.0.0')))
    mk('crit-source-address-nonascii', options=S('source-address') + S(S(b'10.0.0.0/8,\xc3\xa9')))
    mk('crit-source-address-empty', options=S('source-address') + S(S('')))
    mk('crit-source-address-emptytok', options=S('source-address') + S(S('10.0.0.0/8,')))
    mk('crit-dup', options=S('force-command') + S(S('a')) + S('force-command') + S(S('b')))
    mk('crit-garbage', options=b'\0\0\0')
    mk('host-crit', ctype=2, options=S('force-command') + S(S('ls')), exts=b'')
    mk('host-ext', ctype=2, exts=ext_pty)
    mk('ext-flag-with-data', exts=S('permit-pty') + S('x'))
    mk('ext-unknown-empty', exts=S('foo@example.com') + S('') + ext_pty)
    mk('ext-unknown-data', exts=S('foo@example.com') + S(S('bar')) + ext_pty)
    mk('ext-unknown-odd', exts=S('foo@example.com'))
    mk('ext-unknown-value-known-name', exts=S('foo@example.com') + S('permit-pty') + S('') + S(''))
    mk('ext-unknown-value-known-name-odd', exts=S('foo@example.com') + S('permit-pty') + S(''))
    mk('ext-unknown-value-x11', exts=S('zzz') + S('permit-X11-forwarding') + S('') + S(''))
    mk('ext-unknown-value-known-then-data', exts=S('foo') + S('permit-pty') + S('zzz') + S(''))
    mk('ext-all', exts=b''.join(S(n) + S('') for n in ('no-touch-required', 'permit-X11-forwarding',
                                                        'permit-agent-forwarding', 'permit-port-forwarding',
                                                        'permit-pty', 'permit-user-rc')))
    mk('ext-truncated', exts=S('permit-pty'))
    mk('ext-garbage', exts=b'\xff\xff\xff\xff')
    mk('reserved-nonempty', reserved=b'xyz')
    mk('nonce-empty', nonce=b'')
    mk('nonce-long', nonce=b'n' * 100)
    mk('ca-blob-garbage', ca_blob=b'\0\0\0\3abc')
    mk('ca-blob-unknown-alg', ca_blob=S('ssh-foo') + S('x'))
    mk('ca-blob-other-key', ca_blob=key('ssh-ed25519', 1).public_data)
    mk('tail', tail=b'\0')
    mk('window-empty', after=5, before=5)
    mk('window-reversed', after=9, before=3)
    mk('serial-max', serial=2 ** 64 - 1)
    for sa in ca.sig_algorithms[:3]:
        mk('sigalg-' + sa.decode(), sig_alg=sa)
    # audit finding 2: a valid CA signature over subject key fields that make no key
    for label, raw in _c16_audit.bad_subjects(_self(), rng, 2):
        try:
            out.append(('subject-' + label.replace(' ', '_').replace('-', '_'),
                        build_cert(ca, raw, cert_alg_for(raw, rng), ctype=1, key_id=b'id', principals=princ, after=0,
                                   before=2 ** 64 - 1, options=b'', exts=ext_pty)))
        except Exception:
            pass
    return out


def _self() -> Any:
    import sys
    return sys.modules[__name__]


def mutate_blob(rng: Any, blob: bytes) -> bytes:
    r = rng.random()
    b = bytearray(blob)
    if r < 0.6 and b:
        i = rng.randrange(len(b))
        b[i] ^= rng.choice([1, 2, 4, 8, 16, 32, 64, 128, 255])
    elif r < 0.7 and b:
        del b[rng.randrange(len(b)):]
    elif r < 0.8:
        b += bytes(rng.randrange(256) for _ in range(rng.randint(1, 4)))
    elif r < 0.9 and len(b) > 8:
        i = rng.randrange(len(b) - 4)
        b[i:i + 4] = UInt32(rng.choice([0, 1, len(b), 2 ** 32 - 1]))
    elif b:
        i = rng.randrange(len(b))
        del b[i]
    return bytes(b)


def all_sig_alg_names() -> List[bytes]:
    names = set()
    for alg in available_algs():
        names |= set(key(alg).all_sig_algorithms)
    names |= {b'', b'ssh-foo', b'rsa-sha2-384', b'webauthn-sk-ecdsa-sha2-nistp256@openssh.com', b'x509v3-ssh-rsa'}
    return sorted(names)


SIGNER_OPTION_FORMS = ['', 'cert-authority', 'valid-after=19700101001640Z', 'valid-before=19700101003320Z',
                       'valid-after=19700101001640Z,valid-before=19700101003320Z', 'valid-before=197001010025',
                       'cert-authority,valid-before=19700101003320Z', 'namespaces="file,git"', 'namespaces="f*,!file1"', 'namespaces=git',
                       'valid-after=1000', 'valid-before=2000', 'valid-after=1000,valid-before=2000',
                       'valid-after=19700101000001Z', 'valid-before=junk', 'cert-authority,namespaces="file"',
                       'namespaces', 'valid-after', 'foo=bar', 'foo', 'namespaces="a b"', 'namespaces=a\\ b',
                       '"namespaces=file"', 'valid_before=2000', ',', '=x', 'a=1,a=2', 'namespaces="file',
                       'namespaces=file\\', 'valid-after=5,valid-after=junk', 'valid-after=junk,valid-after=5',
                       'namespaces=file,namespaces=git', 'cert-authority=yes', 'valid-before=1500,cert-authority',
                       'namespaces="file",valid-before=19700101003320Z', 'namespaces="file",valid-after=19700101001640Z',
                       'cert-authority,namespaces="file",valid-before=19700101003320Z',
                       # audit findings 1 and 3: re-cased keywords, flag-then-value, bare value options
                       'Namespaces="git"', 'NAMESPACES=file', 'Valid-Before=19700101003320Z', 'VALID-AFTER=1000',
                       'Cert-Authority', 'CERT-AUTHORITY,Namespaces="file"', 'foo,foo=1', 'Foo,foo=1', 'foo,Foo=1',
                       'cert-authority,cert-authority=x', 'namespaces,namespaces="file"',
                       'valid-after,valid-after=1000', 'valid-before', 'foo=1,foo', 'namespaces="file",namespaces',
                       'Valid-Before=junk', 'nameſpaces=file']


HIDDEN_SEPS = ['\x0b', '\x0c', '\x1c', '\x1d', '\x1e', '\x85', '\u2028', '\u2029', '\r']


def gen_signers_text(rng: Any, keys_: List[Any]) -> str:
    lines = []
    for _ in range(rng.randint(1, 4)):
        r = rng.random()
        if r < 0.08:
            lines.append(rng.choice(['', '# comment', '   ', '#alice ssh-ed25519 AAAA']))
            continue
        k = rng.choice(keys_)
        princ = rng.choice(PATTERNS) if rng.random() < 0.8 else gen_text(rng).replace(' ', '')
        if princ == '':
            princ = '*'
        opts = rng.choice(SIGNER_OPTION_FORMS) if rng.random() < 0.7 else ''
        keytxt = pub_line(k) if rng.random() < 0.9 else rng.choice(['ssh-ed25519 AAAA', 'xxx', 'ssh-rsa', ''])
        sep = rng.choice([' ', ' ', '\t', '  '])
        line = princ + sep + (opts + sep if opts else '') + keytxt
        if rng.random() < 0.1:
            line = '  ' + line + '  '
        if rng.random() < 0.12 and keytxt == pub_line(k):
            # a comment holding a character `str.splitlines()` breaks at, followed by what would be an entry of its
            # own if the line ended there (OpenSSH ends a line at a newline only)
            k2 = rng.choice(keys_)
            line += ' c' + rng.choice(HIDDEN_SEPS) + rng.choice(PRINCIPALS + ['*']) + ' ' + pub_line(k2)
        lines.append(line)
    return rng.choice(['\n', '\n', '\r\n', '\n\n']).join(lines) + rng.choice(['', '\n'])


# ---------------------------------------------------------------------------
# correspondence


def correspondence(ctx: Ctx) -> CorrResult:
    res = CorrResult()
    hist = Hist()
    rng = ctx.subrng('corr')
    algs = available_algs()
    dis = res.disagreements

    # ------------------------------------------------------------------ round 1 lines
    r1: List[str] = []
    r1_meta: List[Tuple[str, Any]] = []

    def add1(line: str, kind: str, meta: Any) -> None:
        r1.append(line)
        r1_meta.append((kind, meta))

    # (A) verify wrapper ------------------------------------------------------------
    names = all_sig_alg_names()
    for alg in algs:
        k = key(alg)
        pub = k.convert_to_public()
        other = key(alg, 1).convert_to_public()
        for sa in k.sig_algorithms:
            data = bytes(rng.randrange(256) for _ in range(rng.randint(0, 40)))
            sig = k.sign(data, sa)
            cases = [('honest', pub, data, sig), ('other-data', pub, data + b'x', sig), ('other-key', other, data, sig)]
            p = SSHPacket(sig)
            name = p.get_string()
            rest = p.get_remaining_payload()
            for n2 in names:
                cases.append(('relabel', pub, data, String(n2) + rest))
            inner = SSHPacket(rest).get_string()
            cases.append(('inner-trailing', pub, data, String(name) + String(inner) + b'\0'))
            cases.append(('inner-empty', pub, data, String(name) + String(b'')))
            cases.append(('no-inner', pub, data, String(name)))
            cases.append(('empty', pub, data, b''))
            if alg.startswith('ecdsa'):
                ip = SSHPacket(inner)
                r_, s_ = ip.get_mpint(), ip.get_mpint()
                cases.append(('mpint-leading-zero', pub, data,
                              String(name) + String(String(b'\0' + MPInt(r_)[4:]) + MPInt(s_))))
                cases.append(('mpint-negative', pub, data, String(name) + String(MPInt(-r_) + MPInt(s_))))
                cases.append(('mpint-zero', pub, data, String(name) + String(MPInt(0) + MPInt(s_))))
                cases.append(('mpint-trailing', pub, data, String(name) + String(MPInt(r_) + MPInt(s_) + b'\0')))
                cases.append(('mpint-one', pub, data, String(name) + String(MPInt(r_))))
            if alg == 'ssh-dss':
                cases.append(('dss-39', pub, data, String(name) + String(inner[:39])))
                cases.append(('dss-41', pub, data, String(name) + String(inner + b'\0')))
            for _ in range(ctx.n(40, 250)):
                cases.append(('mutated', pub, data, mutate_blob(rng, sig)))
            for label, kk, d, s in cases:
                add1(f'vq {hx(kk.algorithm)} {hx(s)}', 'vq', (label, kk, d, s, alg, sa))

    # (B) certificates -----------------------------------------------------------------
    cas = [key(a) for a in algs]
    subjects = [key(a, 1).convert_to_public() for a in algs] + sk_public_keys()
    cert_cases: List[Tuple[str, bytes]] = []
    for _ in range(ctx.n(80, 400)):
        try:
            cert, info = gen_real_cert(rng, cas, subjects)
        except Exception as e:       # generation refused (e.g. principal encoding); not a check
            hist.hit('gen-refused:' + type(e).__name__)
            continue
        blob = cert.public_data
        cert_cases.append(('real-' + info['kind'], blob))
        for _ in range(ctx.n(3, 6)):
            cert_cases.append(('real-mutated', mutate_blob(rng, blob)))
    for ca_alg in (algs if ctx.tier == 'thorough' or ctx.escalated else [rng.choice(algs), 'ssh-ed25519']):
        if ca_alg not in algs:
            continue
        for label, blob in odd_cert_blobs(rng, key(ca_alg), rng.choice(subjects)):
            cert_cases.append(('odd-' + label, blob))
            if rng.random() < 0.3:
                cert_cases.append(('odd-mutated', mutate_blob(rng, blob)))
    for label, blob in cert_cases:
        add1(f'cq {hx(blob)}', 'cq', (label, blob))

    # (D) SSHSIG encoding and parsing ---------------------------------------------------
    sig_cases: List[Dict[str, Any]] = []
    for i in range(ctx.n(50, 300)):
        alg = rng.choice(algs)
        k = key(alg)
        use_cert = rng.random() < 0.3
        ns = rng.choice(NAMESPACES)
        hash_name = rng.choice(['sha256', 'sha512'])
        msg = bytes(rng.randrange(256) for _ in range(rng.randint(0, 64)))
        cap: Dict[str, Any] = {}
        orig = pk.SSHLocalKeyPair.sign

        def spy(self: Any, data: bytes, _orig: Any = orig, _cap: Dict[str, Any] = cap) -> bytes:
            out = _orig(self, data)
            _cap['data'], _cap['sig'], _cap['pub'] = data, out, self.public_data
            return out
        signer: Any = k
        cinfo: Dict[str, Any] = {}
        if use_cert:
            ca = key(rng.choice(algs))
            a, b = rng.choice([(0, 2 ** 64 - 1), (1000, 2000), (1500, 1501)])
            cp = rng.choice([[], ['alice'], ['alice', 'bob'], ['carol']])
            mkcert = ca.generate_host_certificate if rng.random() < 0.3 else ca.generate_user_certificate
            cert = mkcert(k, 'id', principals=cp, valid_after=a, valid_before=b)
            signer = (k, cert)
            cinfo = {'ca': ca, 'cert': cert}
        with mock.patch.object(pk.SSHLocalKeyPair, 'sign', spy):
            try:
                blob = asyncssh.create_sshsig(signer, msg, hash_name=hash_name, namespace=ns, raw=True)
            except Exception as e:
                hist.hit('create-refused:' + type(e).__name__)
                continue
        digest = hashlib.new(hash_name, msg).digest()
        add1(f'sd {hx(ns.encode())} {hx(hash_name.encode())} {hx(digest)}', 'sd', (cap['data'], ns, hash_name))
        add1(f'senc {hx(cap["pub"])} {hx(ns.encode())} {hx(hash_name.encode())} {hx(cap["sig"])}', 'senc', blob)
        case = {'key': k, 'alg': alg, 'ns': ns, 'hash': hash_name, 'msg': msg, 'blob': blob, **cinfo}
        sig_cases.append(case)
    # validation cases: (blob variant, message variant, principal, signers text, now)
    val_cases: List[Dict[str, Any]] = []
    all_keys = [key(a) for a in algs] + [key(a, 1) for a in algs[:3]]
    for case in sig_cases:
        for j in range(ctx.n(6, 12)):
            blob = case['blob']
            msg = case['msg']
            r = rng.random()
            if r < 0.25:
                blob = mutate_blob(rng, blob)
            elif r < 0.35:
                msg = msg + b'!'
            pool = [case['key']] + ([case['ca']] if 'ca' in case else []) + [rng.choice(all_keys)]
            text = gen_signers_text(rng, pool)
            principal = rng.choice(PRINCIPALS)
            if rng.random() < 0.6:
                # a line that is likely to authorise: right key (or CA), matching principal pattern, benign options
                pp = rng.choice([principal, '*', principal[:1] + '*', '*,!zzz', 'zzz,' + principal]) or '*'
                if ' ' in pp or pp.startswith('#'):
                    pp = '*'
                oo = rng.choice(['', '', 'namespaces="%s"' % case['ns'], 'namespaces="*"',
                                 'valid-after=19700101001640Z', 'valid-before=19700101003320Z',
                                 'valid-after=19700101001640Z,valid-before=19700101003320Z', 'namespaces="git,f*"',
                                 'namespaces="%s",valid-before=19700101003320Z' % case['ns'],
                                 'namespaces="*",valid-after=19700101001640Z',
                                 'valid-after=19700101001640Z,namespaces="%s",valid-before=19700101003320Z' % case['ns']])
                if 'ca' in case and rng.random() < 0.7:
                    good = pp + ' ' + ','.join(x for x in ('cert-authority', oo) if x) + ' ' + pub_line(case['ca'])
                else:
                    good = pp + ' ' + (oo + ' ' if oo else '') + pub_line(case['key'])
                text = (good + '\n' + text) if rng.random() < 0.5 else (text.rstrip('\r\n') + '\n' + good + '\n')
            is_hashed = rng.random() < 0.15
            m = hashlib.new(case['hash'], msg).digest() if is_hashed and rng.random() < 0.8 else msg
            val_cases.append({'blob': blob, 'msg': m, 'is_hashed': is_hashed, 'principal': principal,
                              'text': text, 'now': rng.choice([999, 1000, 1000.5, 1499, 1500, 1999, 2000, 2000.5, 5]),
                              'case': case})
    for vc in val_cases:
        add1(f'sq {hx(vc["blob"])}', 'sq', vc)
        add1(f'lq {hx(vc["text"].encode())}', 'lq', vc)

    # (E) allowed-signers loader on its own (probed through .validate) ---------------------
    load_cases: List[Dict[str, Any]] = []
    for i in range(ctx.n(60, 600)):
        pool = rng.sample(all_keys, 2)
        text = gen_signers_text(rng, pool)
        lc = {'text': text, 'pool': pool, 'now': rng.choice([999, 1000, 1500.5, 1999, 2000, 1])}
        load_cases.append(lc)
        add1(f'lq {hx(text.encode())}', 'lq-load', lc)

    # (F) pattern lists and UTF-8 -----------------------------------------------------------
    for i in range(ctx.n(300, 3000)):
        pats = rng.choice(PATTERNS) if rng.random() < 0.6 else gen_text(rng)
        val = gen_text(rng)
        try:
            impl = '1' if pattern.WildcardPatternList(pats).matches(val) else '0'
        except Exception as e:
            impl = classify(e)
        add1(f'pm {text_enc(pats)} {text_enc(val)}', 'direct', ('pattern', {'pats': pats, 'value': val}, impl))
    utf8_corpus = [b'', b'abc', 'né'.encode(), '€'.encode(), '\U0001F600'.encode(), b'\xff', b'\xc0\xaf', b'\xc3',
                   b'\xe0\x80\x80', b'\xe0\xa0\x80', b'\xed\x9f\xbf', b'\xed\xa0\x80', b'\xee\x80\x80', b'\xef\xbf\xbf',
                   b'\xf0\x80\x80\x80', b'\xf0\x90\x80\x80', b'\xf4\x8f\xbf\xbf', b'\xf4\x90\x80\x80', b'\xf5\x80\x80\x80',
                   b'\xc2\x80', b'\xc1\xbf', b'\xdf\xbf', b'a\xc3\xa9b', b'\xe2\x82', b'\xf0\x9f\x98', b'\x80', b'\xbf']
    for i in range(ctx.n(300, 3000)):
        if i < len(utf8_corpus):
            b = utf8_corpus[i]
        else:
            base = bytearray(rng.choice(utf8_corpus) + rng.choice(utf8_corpus))
            if base and rng.random() < 0.7:
                base[rng.randrange(len(base))] = rng.randrange(256)
            b = bytes(base)
        try:
            impl = text_enc(b.decode('utf-8'))
        except UnicodeDecodeError:
            impl = 'bad'
        add1(f'u8 {hx(b)}', 'direct', ('utf8', {'bytes': b.hex()}, impl))

    out1 = ctx.model(DRIVER, r1)

    # ------------------------------------------------------------------ evaluate round 1, build round 2
    r2: List[str] = []
    r2_meta: List[Tuple[str, Any]] = []
    lq_answers: Dict[int, str] = {}
    pending_sq: Dict[int, List[str]] = {}
    for line, (kind, meta), mod in zip(r1, r1_meta, out1):
        res.cases += 1
        if kind == 'vq':
            label, kk, d, s, alg, sa = meta
            impl = impl_verify(kk, d, s)
            if mod == 'reject':
                model = '0'
            elif mod.startswith('ask '):
                _a, scheme, raw = mod.split()
                if raw.startswith('b:'):
                    rawv: Tuple[str, Any] = ('b', unhx(raw[2:]))
                else:
                    _p, r_, s_ = raw.split(':')
                    rawv = ('p', (int(r_), int(s_)))
                model = '1' if raw_verify(kk, unhx(scheme), d, rawv) else '0'
            else:
                model = mod
            hist.hit(f'verify:{label}:{impl}')
            if model != impl:
                dis.append(Disagreement(case={'op': 'verify', 'label': label, 'key_alg': alg, 'sig_alg': sa.decode(),
                                              'data': d.hex(), 'sig': s.hex(), 'line': line},
                                        model=model, impl=impl, name='correspondence:verify-wrapper'))
        elif kind == 'cq':
            label, blob = meta
            if mod == 'reject':
                r2.append(f'cf {hx(blob)} ! 0 0 =')
            else:
                kd, caok, sigok, ips = cert_answers(mod.split(), blob)
                r2.append(f'cf {hx(blob)} {kd} {caok} {sigok} {ips}')
            r2_meta.append(('cf', (label, blob, mod)))
        elif kind == 'sd':
            data, ns, hn = meta
            if unhx(mod) != data:
                dis.append(Disagreement(case={'op': 'sshsig-signed-data', 'ns': ns, 'hash': hn, 'line': line},
                                        model=mod, impl=data.hex(), name='correspondence:sshsig-signed-data'))
            hist.hit('sshsig:signed-data')
        elif kind == 'senc':
            if unhx(mod) != meta:
                dis.append(Disagreement(case={'op': 'sshsig-blob', 'line': line}, model=mod, impl=meta.hex(),
                                        name='correspondence:sshsig-blob'))
            hist.hit('sshsig:blob')
        elif kind == 'sq':
            pending_sq[id(meta)] = mod.split()
        elif kind == 'lq':
            vc = meta
            ans = signer_answers(mod, vc['now'])
            ask = pending_sq.pop(id(vc))
            blob = vc['blob']
            pubinfo, vok = 'N', '0'
            if ask[0] in ('ask', 'head'):
                if ask[0] == 'ask':
                    pub, ns, _resv, hn, sg = [unhx(x) for x in ask[1:]]
                else:
                    pub, ns, hn, sg = unhx(ask[1]), b'', b'', b''
                st, c = impl_cert(pub)
                kobj = None
                if st == 'ok':
                    try:
                        caid = hx(pk.decode_ssh_public_key(c.signing_key.public_data).public_data)
                    except Exception:
                        caid = '!'
                    # the summary of the decoded certificate is the answer of the `decodeCert` oracle; type and
                    # window are read through validate() on a patched clock
                    pubinfo = ':'.join(['C', hx(c.key.public_data), caid, str(_probe_type(c)),
                                        str(_probe_after(c)), str(_probe_before(c)), texts_enc(c.principals)])
                    kobj = c.key
                elif st.startswith('exc:'):
                    pubinfo = 'X'                       # an exception other than KeyImportError leaks
                else:
                    try:
                        kobj = pk.decode_ssh_public_key(pub)
                        pubinfo = 'K:' + hx(kobj.public_data)
                    except pk.KeyImportError:
                        kobj = None
                    except Exception:
                        kobj, pubinfo = None, 'X'
                if kobj is not None and hn in (b'sha256', b'sha512'):
                    dg = vc['msg'] if vc['is_hashed'] else hashlib.new(hn.decode(), vc['msg']).digest()
                    try:
                        vok = '1' if kobj.verify(signed_data_py(ns, hn, dg), sg) else '0'
                    except Exception:
                        vok = '0'
            num, den = frac(vc['now'])
            h256 = hashlib.sha256(vc['msg']).digest()
            h512 = hashlib.sha512(vc['msg']).digest()
            r2.append(' '.join(['sv', hx(vc['msg']), '1' if vc['is_hashed'] else '0', hx(h256), hx(h512), hx(blob),
                                text_enc(vc['principal']), str(num), str(den), pubinfo, vok,
                                hx(vc['text'].encode()), ans]))
            r2_meta.append(('sv', vc))
        elif kind == 'lq-load':
            lc = meta
            ans = signer_answers(mod, lc['now'])
            try:
                with clock(lc['now']):
                    signers: Any = sshsig.import_allowed_signers(lc['text'])
                load = 'ok'
            except ValueError:
                signers, load = None, 'raises'
            except Exception as e:
                signers, load = None, classify(e)
            num, den = frac(lc['now'])
            for kk in lc['pool']:
                for princ in rng.sample(PRINCIPALS, 3):
                    for ns in rng.sample(NAMESPACES, 2):
                        for ca_flag in (False, True):
                            if signers is None:
                                impl = load
                            else:
                                with clock(lc['now']):
                                    try:
                                        impl = '1' if signers.validate(kk.convert_to_public(), princ, ns, ca_flag) \
                                            else '0'
                                    except Exception as e:
                                        impl = 'raises:' + type(e).__name__
                            r2.append(' '.join(['lv', hx(lc['text'].encode()), ans, hx(kk.public_data),
                                                text_enc(princ), text_enc(ns), '1' if ca_flag else '0',
                                                str(num), str(den)]))
                            r2_meta.append(('lv', ({'text': lc['text'], 'principal': princ, 'namespace': ns,
                                                    'ca': ca_flag, 'now': str(lc['now'])}, impl)))
        elif kind == 'direct':
            name, case, impl = meta
            hist.hit(name)
            if mod != impl:
                dis.append(Disagreement(case={'op': name, **case, 'line': line}, model=mod, impl=impl,
                                        name='correspondence:' + name))

    out2 = ctx.model(DRIVER, r2) if r2 else []

    # ------------------------------------------------------------------ evaluate round 2, build round 3
    r3: List[str] = []
    r3_meta: List[Tuple[Any, str]] = []
    for line, (kind, meta), mod in zip(r2, r2_meta, out2):
        res.cases += 1
        if kind == 'cf':
            label, blob, ask = meta
            st, c = impl_cert(blob)
            hist.hit(f'cert:{label.split("-")[0]}:{st}')
            model_ok = mod.startswith('ok ')
            if st.startswith('exc:'):
                # the model's certificate decoder fails with KeyImportError only (`certConstruct = none`)
                hist.hit('cert-impl-' + st)
                dis.append(Disagreement(case={'op': 'cert-decode', 'label': label, 'blob': blob.hex(), 'ask': ask},
                                        model='ok' if model_ok else 'reject (KeyImportError)', impl=st,
                                        name='correspondence:cert-decode-exception'))
                continue
            if model_ok != (st == 'ok'):
                dis.append(Disagreement(case={'op': 'cert-decode', 'label': label, 'blob': blob.hex(), 'ask': ask},
                                        model=mod, impl=st, name='correspondence:cert-accept'))
                continue
            if not model_ok:
                continue
            _ok, ctype, after, before, keydata, ca, princ, opts, _kid, _serial = mod.split()
            msum = {'principals': texts_dec(princ), 'opts': canon_opts_model(opts), 'ca': unhx(ca).hex(),
                    'key': unhx(keydata).hex()}
            isum = cert_summary_impl(c)
            if msum != isum:
                dis.append(Disagreement(case={'op': 'cert-fields', 'label': label, 'blob': blob.hex()},
                                        model=msum, impl=isum, name='correspondence:cert-fields'))
                continue
            res.nontrivial += 1
            a, b = int(after), int(before)
            nows: List[Any] = [a, b]
            if a > 0:
                nows.append(a - 1)
            if b > 0:
                nows.append(b - 1)
            if a + 1 < 2 ** 52:
                nows += [a + 0.5, max(a - 0.5, 0)]
            if 0 < b < 2 ** 52:
                nows += [b - 0.5, b + 0.5]
            nows.append((a + b) // 2)
            for now in rng.sample(nows, min(len(nows), ctx.n(5, 9))):
                want = rng.choice([0, 1, 2, int(ctype)])
                pc = rng.choice([None, 'nobody', ''] + msum['principals'][:2] * 2)
                impl = impl_validate(c, want, pc, now)
                num, den = frac(now)
                r3.append(' '.join(['val', str(want), ctype, after, before, 'none' if pc is None else text_enc(pc),
                                    str(num), str(den), princ]))
                r3_meta.append(({'op': 'validate', 'blob': blob.hex(), 'want': want, 'principal': pc,
                                 'now': str(now)}, impl))
        elif kind == 'sv':
            vc = meta
            with clock(vc['now']):
                try:
                    ok = asyncssh.validate_sshsig(vc['msg'], vc['blob'], vc['principal'], vc['text'].encode(),
                                                  is_hashed=vc['is_hashed'])
                    impl = 'valid' if ok else 'invalid'
                except Exception as e:
                    impl = 'raises'
                    hist.hit('sshsig-impl-exc:' + type(e).__name__)
            hist.hit('sshsig:validate:' + impl)
            if mod != impl:
                dis.append(Disagreement(case={'op': 'sshsig-validate', 'blob': vc['blob'].hex(), 'msg': vc['msg'].hex(),
                                              'is_hashed': vc['is_hashed'], 'principal': vc['principal'],
                                              'signers': vc['text'], 'now': str(vc['now']), 'line': line[:200]},
                                        model=mod, impl=impl, name='correspondence:sshsig-validate'))
            elif impl == 'valid':
                res.nontrivial += 1
        elif kind == 'lv':
            case, impl = meta
            m = {'1': '1', '0': '0', 'raises': 'raises', 'loaderr': 'raises'}.get(mod, mod)
            i2 = 'raises' if impl.startswith('raises') or impl.startswith('exc:') else impl
            hist.hit('signers:' + i2)
            if m != i2:
                dis.append(Disagreement(case={'op': 'allowed-signers', **case, 'line': line[:300]}, model=mod,
                                        impl=impl, name='correspondence:allowed-signers'))

    out3 = ctx.model(DRIVER, r3) if r3 else []
    for line, (case, impl), mod in zip(r3, r3_meta, out3):
        res.cases += 1
        hist.hit('validate:' + impl.split(':')[0] + ':' + impl.split(':')[-1][:24])
        if mod != impl:
            dis.append(Disagreement(case={**case, 'line': line}, model=mod, impl=impl,
                                    name='correspondence:cert-validate'))

    res.nontrivial += len(set(m[1][3] for m in r1_meta if m[0] == 'vq'))
    res.histogram = dict(hist)
    res.samples = [{'line': r1[0][:160], 'model': out1[0][:160]}]
    if r2:
        res.samples.append({'line': r2[0][:160], 'model': out2[0][:160]})
    if r3:
        res.samples.append({'line': r3[0][:160], 'model': out3[0], 'impl': r3_meta[0][1]})
    res.rule = ('real keys of every available type; signatures for every algorithm name incl. relabelled, truncated and '
                'byte-mutated blobs; certificates from generate_user/host_certificate with random fields plus hand-built '
                're-signed certificates with unusual options/extensions/utf-8/types, and byte-mutated blobs; validate '
                'probed at and around both window bounds on a patched clock; SSHSIG blobs from create_sshsig, mutated, '
                'with generated allowed-signers texts; distinct = distinct signature blobs + accepted certificates + '
                'valid SSHSIG cases')
    return res


def _probe_type(c: Any) -> int:
    for t in (1, 2):
        if impl_validate(c, t, None, 0) != 'err:Invalid_certificate_type':
            return t
    return 0


def _probe_bound(c: Any, msg: str, lo_fails: bool) -> int:
    """binary search of the validity bound through validate() on a patched clock"""
    lo, hi = 0, 2 ** 64
    while lo < hi:
        mid = (lo + hi) // 2
        r = impl_validate(c, 0, None, mid)
        bad = (r == msg)
        if bad == lo_fails:
            lo = mid + 1
        else:
            hi = mid
    return lo


def _probe_after(c: Any) -> int:
    return _probe_bound(c, 'err:Certificate_not_yet_valid', True)


def _probe_before(c: Any) -> int:
    # smallest now at which the certificate is expired
    lo, hi = 0, 2 ** 64
    while lo < hi:
        mid = (lo + hi) // 2
        if impl_validate(c, 0, None, mid) == 'err:Certificate_expired':
            hi = mid
        else:
            lo = mid + 1
    return lo


# ---------------------------------------------------------------------------
# oracle: the property evaluated on the real code


def edits_of(blob: bytes, exhaustive: bool, rng: Any) -> Any:
    for i in range(len(blob)):
        if exhaustive:
            vals = [v for v in range(256) if v != blob[i]]
        else:
            vals = {blob[i] ^ 1, blob[i] ^ 0x80, (blob[i] + 1) & 255, rng.randrange(256)} - {blob[i]}
        for v in vals:
            yield i, v, blob[:i] + bytes([v]) + blob[i + 1:]


def oracle(ctx: Ctx) -> OracleResult:
    res = OracleResult()
    hist = Hist()
    rng = ctx.subrng('oracle')
    algs = available_algs()
    fails = res.failures
    thorough = ctx.tier == 'thorough' or ctx.escalated      # breadth: every key / CA type
    deep = ctx.tier == 'thorough'                           # depth: all 255 values per byte position

    # suspects from correspondence disagreements first
    for s in ctx.suspects:
        if isinstance(s, dict) and s.get('op') == 'verify':
            fails += _check_suspect_verify(s)

    # (1) sign/verify for every key type x algorithm; every single-byte edit; changed data/alg/key -------
    names = all_sig_alg_names()
    for alg in algs:
        k = key(alg)
        pub = k.convert_to_public()
        other = key(alg, 1).convert_to_public()
        for sa in sorted(k.all_sig_algorithms):
            data = b'C16 oracle ' + bytes(rng.randrange(256) for _ in range(16))
            try:
                sig = k.sign(data, sa)
            except Exception as e:
                hist.hit(f'sign-refused:{alg}:{type(e).__name__}')
                continue
            res.evaluations += 1
            ok = impl_verify(pub, data, sig)
            hist.hit(f'verify-honest:{alg}:{ok}')
            if ok != '1':
                fails.append(Failure(f'verify-rejects-honest-signature:{alg}',
                                     f'{alg}/{sa.decode()}: an honest signature does not verify ({ok})',
                                     {'kind': 'verify', 'alg': alg, 'sig_alg': sa.decode(), 'expect': True}))
                continue
            res.nontrivial += 1
            exhaustive = deep and (len(sig) < 200 or sa == k.sig_algorithms[0])
            bad = 0
            for i, v, ed in edits_of(sig, exhaustive, rng):
                res.evaluations += 1
                r = impl_verify(pub, data, ed)
                if r == '1':
                    bad += 1
                    where = 'alg-name' if i < 4 + len(sa) else 'signature'
                    if bad <= 3:
                        fails.append(Failure(f'verify-accepts-single-byte-edit:{where}',
                                             f'{alg}/{sa.decode()}: signature blob with byte {i} set to {v:#x} verifies',
                                             {'kind': 'verify-edit', 'alg': alg, 'sig_alg': sa.decode(),
                                              'data': data.hex(), 'sig': sig.hex(), 'index': i, 'value': v}))
                elif r != '0':
                    hist.hit(f'verify-edit-exception:{alg}:{r}')
            hist.hit(f'verify-edits:{alg}', 1)
            for d2 in (data + b'\0', data[:-1], b'', bytes([data[0] ^ 1]) + data[1:]):
                res.evaluations += 1
                if impl_verify(pub, d2, sig) == '1':
                    fails.append(Failure('verify-accepts-other-data', f'{alg}/{sa.decode()}: verifies for other data',
                                         {'kind': 'verify-data', 'alg': alg, 'sig_alg': sa.decode()}))
            res.evaluations += 1
            if impl_verify(other, data, sig) == '1':
                fails.append(Failure('verify-accepts-other-key', f'{alg}/{sa.decode()}: verifies under another key',
                                     {'kind': 'verify-key', 'alg': alg, 'sig_alg': sa.decode()}))
            p = SSHPacket(sig)
            p.get_string()
            rest = p.get_remaining_payload()
            for n2 in names:
                if n2 == sa:
                    continue
                res.evaluations += 1
                r = impl_verify(pub, data, String(n2) + rest)
                if r == '1':
                    # an alias is another registered name selecting the *same* hash (rsa.py `_hash_algs`);
                    # anything else that verifies after relabelling is a different, new violation
                    same_hash = alg == 'ssh-rsa' and _rsa_hash(sa) is not None and _rsa_hash(sa) == _rsa_hash(n2)
                    if same_hash:
                        sigid = 'verify-accepts-relabelled-rsa-alias'
                        why = 'the two names select the same hash'
                    else:
                        sigid = f'verify-accepts-relabelled-algorithm:{alg}'
                        why = 'the two names do not denote the same algorithm'
                    hist.hit('relabel-accepted:' + sa.decode() + '->' + n2.decode())
                    fails.append(Failure(sigid,
                                         f'{alg}: a signature made as {sa.decode()} verifies after its algorithm name '
                                         f'is replaced by {n2.decode()} (the statement says it fails if the algorithm '
                                         f'name differs in any way; {why})',
                                         {'kind': 'verify-relabel', 'alg': alg, 'from': sa.decode(), 'to': n2.decode()}))
                elif r != '0':
                    hist.hit(f'relabel-exception:{r}')

    # (2) certificates: single-byte edits, windows, principals, options ------------------------------------------
    subjects = [key(a, 1).convert_to_public() for a in algs] + sk_public_keys()
    ca_list = algs
    for ca_alg in dict.fromkeys(a for a in ca_list if a in algs):
        ca = key(ca_alg)
        for sa in (ca.sig_algorithms if thorough else ca.sig_algorithms[:2]):
            subj = rng.choice(subjects)
            a, b = 1000, 2000
            princ = ['alice', 'bob']
            cert = ca.generate_user_certificate(subj, 'oracle-id', serial=7, principals=princ, valid_after=a,
                                                valid_before=b, force_command='ls', source_address=['10.0.0.0/8'],
                                                sig_alg=sa.decode())
            blob = cert.public_data
            st, c = impl_cert(blob)
            res.evaluations += 1
            if st != 'ok':
                fails.append(Failure(f'cert-rejects-honest-certificate:{ca_alg}',
                                     f'own certificate (CA {ca_alg}/{sa.decode()}) is not accepted: {st}',
                                     {'kind': 'cert-honest', 'blob': blob.hex()}))
                continue
            res.nontrivial += 1
            # what is handed to the CA key's verify must be everything before the signature string
            seen: List[Tuple[bytes, bytes]] = []
            orig_verify = pk.SSHKey.verify

            def spy_verify(self: Any, data: bytes, sig: bytes, _o: Any = orig_verify, _s: Any = seen) -> bool:
                _s.append((data, sig))
                return _o(self, data, sig)
            with mock.patch.object(pk.SSHKey, 'verify', spy_verify):
                impl_cert(blob)
            res.evaluations += 1
            if not seen or any(d + String(sg) != blob for d, sg in seen):
                fails.append(Failure('cert-signed-region-does-not-cover-blob',
                                     f'decode_ssh_certificate (CA {ca_alg}) verified the CA signature over '
                                     f'{[len(d) for d, _ in seen]} bytes of a {len(blob)}-byte certificate whose '
                                     f'signature string starts at {len(blob) - len(String(seen[0][1])) if seen else "?"}'
                                     f': not every byte before the signature is covered',
                                     {'kind': 'cert-region', 'blob': blob.hex()}))
            nacc = 0
            for i, v, ed in edits_of(blob, deep and len(blob) < 700, rng):
                res.evaluations += 1
                st2, _c2 = impl_cert(ed)
                if st2 == 'ok':
                    nacc += 1
                    if nacc <= 3:
                        fails.append(Failure('cert-accepts-single-byte-edit',
                                             f'certificate (CA {ca_alg}/{sa.decode()}) with byte {i} set to {v:#x} '
                                             f'is accepted',
                                             {'kind': 'cert-edit', 'blob': blob.hex(), 'index': i, 'value': v}))
                elif st2 != 'reject':
                    hist.hit(f'cert-edit-exception:{st2}')
            hist.hit(f'cert-edits:{ca_alg}')
            # validity window at, just before and just after both bounds
            for now, want_ok in ((a - 1, False), (a - 0.5, False), (a, True), (a + 0.5, True), (b - 1, True),
                                 (b - 0.5, True), (b, False), (b + 0.5, False), (0, False), (2 ** 63, False)):
                res.evaluations += 1
                r = impl_validate(c, 1, 'alice', now)
                if (r == 'ok') != want_ok:
                    edge = 'valid_before' if now >= b - 1 else 'valid_after'
                    fails.append(Failure(f'cert-window-wrong-at-{edge}',
                                         f'validate at now={now} with window [{a},{b}) gives {r}',
                                         {'kind': 'cert-validate', 'blob': blob.hex(), 'want': 1, 'principal': 'alice',
                                          'now': str(now), 'expect_ok': want_ok}))
            for want, pc, want_ok in ((1, 'alice', True), (0, 'bob', True), (2, 'alice', False), (1, 'carol', False),
                                      (1, None, True), (1, '', False), (1, 'ALICE', False), (1, 'alice ', False),
                                      # "any type" waives the type test only, never the principal test
                                      (0, 'carol', False), (0, '', False), (0, 'alice ', False), (0, None, True)):
                res.evaluations += 1
                r = impl_validate(c, want, pc, 1500)
                if (r == 'ok') != want_ok:
                    fails.append(Failure('cert-type-or-principal-decision-wrong',
                                         f'validate(type={want}, principal={pc!r}) on a user certificate for alice,bob '
                                         f'gives {r}',
                                         {'kind': 'cert-validate', 'blob': blob.hex(), 'want': want, 'principal': pc,
                                          'now': '1500', 'expect_ok': want_ok}))
            # no principals listed: any principal passes
            c0 = ca.generate_host_certificate(subj, 'h', valid_after=a, valid_before=b)
            for want, pc, want_ok in ((2, 'any.host', True), (1, 'any.host', False), (0, None, True)):
                res.evaluations += 1
                r = impl_validate(c0, want, pc, 1500)
                if (r == 'ok') != want_ok:
                    fails.append(Failure('cert-type-or-principal-decision-wrong',
                                         f'host certificate without principals: validate({want}, {pc!r}) gives {r}',
                                         {'kind': 'cert-validate', 'blob': c0.public_data.hex(), 'want': want,
                                          'principal': pc, 'now': '1500', 'expect_ok': want_ok}))
        # options: unknown critical rejected; known extension kept; unknown extension ignored with its data
        subj = subjects[0]
        alg = cert_alg_for(subj)
        S = String
        pty = S('permit-pty') + S('')

        def dec(**kw: Any) -> Tuple[str, Any]:
            args: Dict[str, Any] = dict(ctype=1, key_id=b'id', principals=S('alice'), after=0, before=2 ** 64 - 1,
                                        options=b'', exts=pty)
            args.update(kw)
            blob2 = build_cert(ca, subj, alg, **args)
            res.evaluations += 1
            st3, c3 = impl_cert(blob2)
            return st3, (c3, blob2)
        st, (c, blob2) = dec()
        if st != 'ok' or canon_opts_impl(c.options) != {'permit-pty': 'F'}:
            fails.append(Failure('cert-handbuilt-baseline-not-accepted', f'baseline hand-built certificate: {st}',
                                 {'kind': 'cert-honest', 'blob': blob2.hex()}))
        for label, opts in (('unknown', S('verify-required') + S('')),
                            ('unknown-with-data', S('x@y') + S(S('v'))),
                            ('known-then-unknown', S('force-command') + S(S('ls')) + S('x@y') + S('')),
                            ('unknown-then-known', S('x@y') + S('') + S('force-command') + S(S('ls')))):
            st, (c, blob2) = dec(options=opts)
            if st == 'ok':
                fails.append(Failure('cert-accepts-unknown-critical-option',
                                     f'user certificate with critical options [{label}] is accepted',
                                     {'kind': 'cert-options', 'blob': blob2.hex(), 'expect': 'reject'}))
        st, (c, blob2) = dec(ctype=2, options=S('force-command') + S(S('ls')), exts=b'')
        if st == 'ok':
            fails.append(Failure('cert-accepts-unknown-critical-option',
                                 'host certificate with a critical option is accepted (no host option is understood)',
                                 {'kind': 'cert-options', 'blob': blob2.hex(), 'expect': 'reject'}))
        for label, exts, expect in (
                ('unknown-flag', S('foo@example.com') + S('') + pty, {'permit-pty': 'F'}),
                ('unknown-data', S('foo@example.com') + S(S('bar')) + pty, {'permit-pty': 'F'}),
                ('unknown-data-is-known-name', S('foo@example.com') + S('permit-pty') + S('') + S(''), {}),
                ('unknown-data-is-known-name-x11', S('a') + S('permit-X11-forwarding') + S('') + S(''), {})):
            st, (c, blob2) = dec(exts=exts)
            got = canon_opts_impl(c.options) if st == 'ok' else st
            hist.hit(f'ext:{label}:{"same" if got == expect else "differs"}')
            if got != expect:
                if label.startswith('unknown-data-is-known-name') and st == 'ok':
                    fails.append(Failure(
                        'cert-unknown-extension-value-parsed-as-name',
                        f'extensions [{label}] grant nothing under PROTOCOL.certkeys (the known name is only the '
                        f'*data* of an unknown extension; ssh-keygen -L lists it as UNKNOWN OPTION) but the decoded '
                        f'certificate has options {got}: _decode_options does not consume the value of an unknown '
                        f'extension and parses it as the next name',
                        {'kind': 'cert-options', 'blob': blob2.hex(), 'expect': expect}))
                else:
                    fails.append(Failure('cert-extension-decoding-wrong', f'extensions [{label}] decode to {got}',
                                         {'kind': 'cert-options', 'blob': blob2.hex(), 'expect': expect}))

    # (3) SSHSIG ------------------------------------------------------------------------------------------------------
    fails += _oracle_sshsig(ctx, rng, hist, res, algs, thorough, deep)
    fails += _c16_audit.oracle_audit(_self(), ctx, ctx.subrng('oracle-audit'), hist, res, algs, deep)
    fails += _oracle_hidden_entry(ctx, rng, hist, res, algs)
    if deep:
        fails += _oracle_ssh_keygen(ctx, rng, hist, res, algs)

    # findings that exist on the unchanged tree go last, so a new failure is the one written to the replay
    baseline = ('verify-accepts-relabelled-rsa-alias', 'cert-unknown-extension-value-parsed-as-name') + \
        _c16_audit.RECORDED
    res.failures.sort(key=lambda f: f.signature in baseline)
    res.histogram = dict(hist)
    res.samples = [{'keys': algs}]
    res.rule = ('every available key type x every signature algorithm name: sign/verify, every single-byte edit of the '
                'signature blob (4 values per position; all 255 in the thorough tier), other data/key/algorithm name; '
                'certificates per CA type x signature algorithm: every single-byte edit, clock at/around both window '
                'bounds, principals, types, unknown critical options, extension decoding; SSHSIG per key type x hash: '
                'message/namespace/principal/signers/clock variations, every single-byte edit of the blob, '
                'certificate signers; ssh-keygen -Y/-L cross-checks (thorough); audit cases: CA-signed certificates '
                'with unusable subject key fields (fixed + random RSA e/n) through decode_ssh_certificate and '
                'validate_sshsig, user/host certificates x principals x clock as SSHSIG signers, malformed and '
                'random option lists, re-cased and unknown option keywords, sk-ecdsa / sk-ed25519 / webauthn '
                'signature blobs with every single-byte edit')
    return res


def _rsa_hash(name: bytes) -> Optional[str]:
    """hash selected by an RSA signature algorithm name (the table `verify_ssh` itself uses)"""
    table = getattr(importlib.import_module('asyncssh.rsa'), '_hash_algs', {})
    return table.get(name)


def _check_suspect_verify(s: Dict[str, Any]) -> List[Failure]:
    """A correspondence disagreement of the verify wrapper: if the real code *accepts* an altered input the
    model rejects, that input is a failing input of the property."""
    label = s.get('label', '')
    if label in ('honest', 'mpint-leading-zero'):
        return []
    try:
        alg = s['key_alg']
        pub = key(alg, 1 if label == 'other-key' else 0).convert_to_public()
        got = impl_verify(pub, bytes.fromhex(s['data']), bytes.fromhex(s['sig']))
    except Exception:
        return []
    if got == '1':
        return [Failure(f'verify-accepts-altered-input:{label}',
                        f'{alg}: verify returns True for a {label} case the model rejects',
                        {'kind': 'verify-suspect', **{k: s[k] for k in ('label', 'key_alg', 'sig_alg', 'data', 'sig')}})]
    return []


def _oracle_sshsig(ctx: Ctx, rng: Any, hist: Hist, res: OracleResult, algs: List[str], thorough: bool,
                   deep: bool) -> List[Failure]:
    fails: List[Failure] = []

    def v(msg: bytes, sig: bytes, principal: str, signers: str, now: Any = 1500, **kw: Any) -> str:
        res.evaluations += 1
        with clock(now):
            try:
                return 'valid' if asyncssh.validate_sshsig(msg, sig, principal, signers.encode(), **kw) else 'invalid'
            except ValueError:
                return 'raises'
            except Exception as e:
                hist.hit('sshsig-exception:' + type(e).__name__)
                return 'raises:' + type(e).__name__

    def expect(got: str, want_valid: bool, sig_id: str, what: str, replay: Dict[str, Any]) -> None:
        if (got == 'valid') != want_valid:
            fails.append(Failure(sig_id, what + f' -> {got}', replay))

    use = algs
    for alg in dict.fromkeys(a for a in use if a in algs):
        k = key(alg)
        other = key(alg, 1)
        for hash_name in ('sha256', 'sha512'):
            msg = b'message ' + bytes(rng.randrange(256) for _ in range(20))
            ns = 'file'
            sig = asyncssh.create_sshsig(k, msg, hash_name=hash_name, namespace=ns, raw=True)
            arm = asyncssh.create_sshsig(k, msg, hash_name=hash_name, namespace=ns)
            line = pub_line(k)
            rp = {'kind': 'sshsig', 'alg': alg, 'hash': hash_name}
            base = f'alice {line}\n'
            expect(v(msg, sig, 'alice', base), True, f'sshsig-rejects-honest-signature:{alg}', 'honest raw signature', rp)
            expect(v(msg, arm, 'alice', base), True, f'sshsig-rejects-honest-signature:{alg}', 'honest armoured signature', rp)
            res.nontrivial += 1
            expect(v(msg + b'x', sig, 'alice', base), False, 'sshsig-accepts-other-message', 'other message', rp)
            expect(v(msg[:-1], sig, 'alice', base), False, 'sshsig-accepts-other-message', 'truncated message', rp)
            expect(v(b'', sig, 'alice', base), False, 'sshsig-accepts-other-message', 'empty message', rp)
            expect(v(msg, sig, 'bob', base), False, 'sshsig-accepts-unlisted-principal', 'principal not listed', rp)
            expect(v(msg, sig, 'alice', f'alice {pub_line(other)}\n'), False, 'sshsig-accepts-unlisted-signer',
                   'only another key is listed', rp)
            expect(v(msg, sig, 'alice', f'alice cert-authority {line}\n'), False, 'sshsig-accepts-ca-entry-for-plain-key',
                   'key listed only as cert-authority', rp)
            expect(v(msg, sig, 'alice', f'alice namespaces="git" {line}\n'), False, 'sshsig-accepts-other-namespace',
                   'entry restricted to namespace git, signature made for file', rp)
            expect(v(msg, sig, 'alice', f'alice namespaces="git,file" {line}\n'), True,
                   'sshsig-rejects-listed-namespace', 'entry lists the namespace', rp)
            expect(v(msg, sig, 'alice', f'a*,!alice {line}\n'), False, 'sshsig-accepts-negated-principal',
                   'principal excluded by a negated pattern', rp)
            for now, ok in ((999, False), (999.5, False), (1000, True), (1999, True), (1999.5, True), (2000, False),
                            (2000.5, False)):
                expect(v(msg, sig, 'alice', f'alice valid-after=19700101001640Z,valid-before=19700101003320Z {line}\n', now=now), ok,
                       'sshsig-entry-window-wrong', f'entry window [1000,2000) at now={now}', {**rp, 'now': str(now)})
            # options combine: a namespace restriction does not switch the validity window off (nor the reverse)
            for now, ok in ((999, False), (1000, True), (1999, True), (2000, False)):
                for opts in ('namespaces="file",valid-after=19700101001640Z,valid-before=19700101003320Z',
                             'valid-after=19700101001640Z,valid-before=19700101003320Z,namespaces="f*"'):
                    expect(v(msg, sig, 'alice', f'alice {opts} {line}\n', now=now), ok, 'sshsig-entry-window-wrong',
                           f'entry with namespaces= and window [1000,2000) at now={now}', {**rp, 'now': str(now)})
            expect(v(msg, sig, 'alice', f'alice namespaces="git",valid-after=19700101001640Z {line}\n', now=1500), False,
                   'sshsig-accepts-other-namespace', 'namespace git only, inside the window', rp)
            # same digest passed pre-hashed
            dg = hashlib.new(hash_name, msg).digest()
            expect(v(dg, sig, 'alice', base, is_hashed=True), True, 'sshsig-rejects-prehashed', 'pre-hashed data', rp)
            # a signature made for another namespace carries that namespace: it must not validate where only
            # `file` is allowed, and the namespace inside the blob cannot be rewritten
            sig_git = asyncssh.create_sshsig(k, msg, hash_name=hash_name, namespace='git', raw=True)
            expect(v(msg, sig_git, 'alice', f'alice namespaces="file" {line}\n'), False,
                   'sshsig-accepts-other-namespace', 'signature for git against an entry for file', rp)
            swapped = sig.replace(String('file') + String(b''), String('git') + String(b''), 1)
            if swapped != sig:
                expect(v(msg, swapped, 'alice', base), False, 'sshsig-namespace-not-bound',
                       'namespace field rewritten from file to git', rp)
            other_hash = 'sha256' if hash_name == 'sha512' else 'sha512'
            sw = sig.replace(String(hash_name), String(other_hash))
            expect(v(msg, sw, 'alice', base), False, 'sshsig-hash-name-not-bound', 'hash name rewritten', rp)
            nacc = 0
            for i, val, ed in edits_of(sig, deep and len(sig) < 400, rng):
                r = v(msg, ed, 'alice', base)
                if r == 'valid':
                    nacc += 1
                    if nacc <= 3:
                        fails.append(Failure('sshsig-accepts-single-byte-edit',
                                             f'{alg}/{hash_name}: SSHSIG blob with byte {i} set to {val:#x} validates',
                                             {**rp, 'sig': sig.hex(), 'msg': msg.hex(), 'index': i, 'value': val}))
            hist.hit(f'sshsig-edits:{alg}')
        # certificate signers
        ca = key('ssh-ed25519' if alg != 'ssh-ed25519' else 'ecdsa-sha2-nistp256')
        msg = b'cert-signed message'
        for princs, a, b, principal, now, ok, label in (
                (['alice'], 1000, 2000, 'alice', 1500, True, 'in window, listed'),
                (['alice'], 1000, 2000, 'alice', 999, False, 'before window'),
                (['alice'], 1000, 2000, 'alice', 2000, False, 'at valid_before'),
                (['alice'], 1000, 2000, 'alice', 1999, True, 'last second'),
                (['bob'], 1000, 2000, 'alice', 1500, False, 'principal not in certificate'),
                ([], 1000, 2000, 'alice', 1500, True, 'certificate lists no principal')):
            cert = ca.generate_user_certificate(k, 'id', principals=princs, valid_after=a, valid_before=b)
            sig = asyncssh.create_sshsig((k, cert), msg, raw=True)
            rp = {'kind': 'sshsig-cert', 'alg': alg, 'label': label}
            signers = f'* cert-authority {pub_line(ca)}\n'
            expect(v(msg, sig, principal, signers, now=now), ok, 'sshsig-cert-decision-wrong',
                   f'certificate signer ({label})', rp)
            expect(v(msg, sig, principal, f'* {pub_line(ca)}\n', now=1500), False,
                   'sshsig-accepts-ca-without-cert-authority', f'CA listed without cert-authority ({label})', rp)
            expect(v(msg, sig, principal, f'* cert-authority {pub_line(key(alg, 1))}\n', now=1500), False,
                   'sshsig-accepts-unlisted-ca', f'another CA listed ({label})', rp)
    return fails


def _oracle_hidden_entry(ctx: Ctx, rng: Any, hist: Hist, res: OracleResult, algs: List[str]) -> List[Failure]:
    """One line is one entry (every run, ssh-keygen as the judge of how the file reads)."""
    fails: List[Failure] = []
    import shutil
    if not shutil.which('ssh-keygen'):
        hist.hit('ssh-keygen:absent')
        return fails
    tmp = ctx.tmpdir()

    def run(args: List[str], stdin: bytes = b'') -> Tuple[int, str]:
        p = subprocess.run(['ssh-keygen'] + args, input=stdin, stdout=subprocess.PIPE, stderr=subprocess.STDOUT,
                           timeout=30)
        return p.returncode, p.stdout.decode(errors='replace')

    for alg in algs:
        if alg in ('ecdsa-sha2-1.3.132.0.10', 'ssh-ed448', 'ssh-dss'):
            continue                     # not supported by OpenSSH 9.2's sshsig / key parser
        k = key(alg)
        msg = b'interop ' + bytes(rng.randrange(32, 127) for _ in range(12))
        # one line is one entry: a second "principal key" text in the COMMENT of a line, behind a character that
        # str.splitlines() breaks at, authorises nobody (ssh-keygen is the judge of how the file reads)
        k2 = key(alg, 1)
        msg2 = b'hidden ' + msg
        arm2 = asyncssh.create_sshsig(k2, msg2, namespace='file')
        sig2 = os.path.join(tmp, f'sig2-{alg}')
        with open(sig2, 'wb') as f:
            f.write(arm2)
        for sep in HIDDEN_SEPS:
            text = f'alice namespaces="file" {pub_line(k)} build{sep}mallory {pub_line(k2)}\n'
            hidden = os.path.join(tmp, f'hidden-{alg}')
            with open(hidden, 'wb') as f:
                f.write(text.encode())
            rc, out = run(['-Y', 'verify', '-f', hidden, '-I', 'mallory', '-n', 'file', '-s', sig2], msg2)
            if rc == 0:
                hist.hit('hidden-entry:ssh-keygen-accepts')
                continue
            res.evaluations += 1
            with clock(1500):
                try:
                    mine: Any = asyncssh.validate_sshsig(msg2, arm2, 'mallory', text.encode())
                except Exception as e:
                    mine = classify(e)
            hist.hit(f'hidden-entry:{mine}')
            if mine is True:
                fails.append(Failure('sshsig-signer-hidden-in-comment-accepted',
                                     f'allowed-signers line for alice with the comment "build" + {sep!r} + "mallory <key>": '
                                     f'a signature by that key validates as mallory (ssh-keygen -Y verify: rc={rc}, '
                                     f'one line, no entry for mallory) ({alg})',
                                     {'kind': 'interop', 'alg': alg, 'sep': sep}))
    return fails


def _oracle_ssh_keygen(ctx: Ctx, rng: Any, hist: Hist, res: OracleResult, algs: List[str]) -> List[Failure]:
    """Cross-checks with OpenSSH 9.2 (`ssh-keygen -Y verify/sign`, `ssh-keygen -L`)."""
    fails: List[Failure] = []
    import shutil
    if not shutil.which('ssh-keygen'):
        hist.hit('ssh-keygen:absent')
        return fails
    tmp = ctx.tmpdir()

    def run(args: List[str], stdin: bytes = b'') -> Tuple[int, str]:
        p = subprocess.run(['ssh-keygen'] + args, input=stdin, stdout=subprocess.PIPE, stderr=subprocess.STDOUT,
                           timeout=30)
        return p.returncode, p.stdout.decode(errors='replace')

    for alg in algs:
        if alg in ('ecdsa-sha2-1.3.132.0.10', 'ssh-ed448', 'ssh-dss'):
            continue                     # not supported by OpenSSH 9.2's sshsig / key parser
        k = key(alg)
        msg = b'interop ' + bytes(rng.randrange(32, 127) for _ in range(12))
        allowed = os.path.join(tmp, f'allowed-{alg}')
        with open(allowed, 'w') as f:
            f.write(f'alice namespaces="file" {pub_line(k)}\n')
        for hash_name in ('sha256', 'sha512'):
            arm = asyncssh.create_sshsig(k, msg, hash_name=hash_name, namespace='file')
            sigf = os.path.join(tmp, f'sig-{alg}-{hash_name}')
            with open(sigf, 'wb') as f:
                f.write(arm)
            res.evaluations += 1
            rc, out = run(['-Y', 'verify', '-f', allowed, '-I', 'alice', '-n', 'file', '-s', sigf], msg)
            hist.hit(f'ssh-keygen-verify:{alg}:{rc}')
            if rc != 0:
                fails.append(Failure('sshsig-interop-openssh-rejects-asyncssh-signature',
                                     f'ssh-keygen -Y verify rejects a signature asyncssh made ({alg}/{hash_name}): '
                                     f'{out.strip()[:200]}', {'kind': 'interop', 'alg': alg, 'hash': hash_name}))
            rc2, _o = run(['-Y', 'verify', '-f', allowed, '-I', 'alice', '-n', 'file', '-s', sigf], msg + b'!')
            with clock(1500):
                mine = asyncssh.validate_sshsig(msg + b'!', arm, 'alice', open(allowed).read().encode())
            if (rc2 == 0) or mine:
                fails.append(Failure('sshsig-interop-tampered-message-accepted',
                                     f'tampered message accepted (ssh-keygen rc={rc2}, asyncssh={mine})',
                                     {'kind': 'interop', 'alg': alg}))
        # OpenSSH signs, asyncssh validates
        keyf = os.path.join(tmp, f'key-{alg}')
        with open(keyf, 'wb') as f:
            f.write(k.export_private_key('openssh'))
        os.chmod(keyf, 0o600)
        datf = os.path.join(tmp, f'data-{alg}')
        with open(datf, 'wb') as f:
            f.write(msg)
        rc, out = run(['-Y', 'sign', '-f', keyf, '-n', 'file', datf])
        if rc == 0 and os.path.exists(datf + '.sig'):
            osig = open(datf + '.sig', 'rb').read()
            res.evaluations += 1
            with clock(1500):
                try:
                    ok = asyncssh.validate_sshsig(msg, osig, 'alice', open(allowed).read().encode())
                    bad = asyncssh.validate_sshsig(msg + b'!', osig, 'alice', open(allowed).read().encode())
                except Exception as e:
                    ok, bad = classify(e), False
            hist.hit(f'ssh-keygen-sign:{alg}:{ok}')
            if ok is not True or bad:
                fails.append(Failure('sshsig-interop-asyncssh-rejects-openssh-signature',
                                     f'asyncssh: OpenSSH-made signature -> {ok}, tampered -> {bad} ({alg})',
                                     {'kind': 'interop', 'alg': alg}))
            os.unlink(datf + '.sig')
        else:
            hist.hit(f'ssh-keygen-sign-failed:{alg}')
        # certificates: what OpenSSH prints for a certificate asyncssh made
        ca = key('ssh-ed25519')
        cert = ca.generate_user_certificate(k.convert_to_public(), 'kid', serial=5, principals=['alice', 'bob'],
                                            valid_after=1000000000, valid_before=1000003600, force_command='ls',
                                            permit_pty=True, permit_x11_forwarding=False,
                                            permit_agent_forwarding=False, permit_port_forwarding=False,
                                            permit_user_rc=False)
        cf = os.path.join(tmp, f'cert-{alg}.pub')
        with open(cf, 'wb') as f:
            f.write(cert.export_certificate())
        rc, out = run(['-L', '-f', cf])
        res.evaluations += 1
        want = ['user certificate', 'Serial: 5', 'alice', 'bob', 'force-command ls', 'permit-pty', 'Key ID: "kid"']
        missing = [w for w in want if w not in out]
        hist.hit(f'ssh-keygen-L:{alg}:{rc}')
        if rc != 0 or missing or 'permit-X11-forwarding' in out:
            fails.append(Failure('cert-interop-openssh-reads-certificate-differently',
                                 f'ssh-keygen -L on an asyncssh certificate: rc={rc}, missing {missing}',
                                 {'kind': 'interop', 'alg': alg, 'output': out[:500]}))
    return fails


# ---------------------------------------------------------------------------
# replay


def replay(ctx: Ctx, rep: Dict[str, Any]) -> List[Failure]:
    r = rep.get('replay', rep)
    kind = r.get('kind')
    if kind == 'verify-edit':
        pub = key(r['alg']).convert_to_public()
        # the key is not part of the replay file (keys are generated per run): re-make the situation
        k = key(r['alg'])
        data = bytes.fromhex(r['data'])
        sig = k.sign(data, r['sig_alg'].encode())
        i = min(r['index'], len(sig) - 1)
        ed = sig[:i] + bytes([r['value'] if sig[i] != r['value'] else sig[i] ^ 1]) + sig[i + 1:]
        if impl_verify(pub, data, ed) == '1':
            return [Failure('verify-accepts-single-byte-edit', 'edited signature verifies', r)]
        return []
    if kind == 'verify-relabel':
        k = key(r['alg'])
        data = b'replay'
        sig = k.sign(data, r['from'].encode())
        p = SSHPacket(sig)
        p.get_string()
        if impl_verify(k.convert_to_public(), data, String(r['to'].encode()) + p.get_remaining_payload()) == '1':
            same = r['alg'] == 'ssh-rsa' and _rsa_hash(r['from'].encode()) is not None and \
                _rsa_hash(r['from'].encode()) == _rsa_hash(r['to'].encode())
            return [Failure('verify-accepts-relabelled-rsa-alias' if same else
                            f"verify-accepts-relabelled-algorithm:{r['alg']}",
                            'relabelled signature verifies', r)]
        return []
    if kind == 'cert-region':
        blob = bytes.fromhex(r['blob'])
        seen: List[Tuple[bytes, bytes]] = []
        orig_verify = pk.SSHKey.verify

        def spy_verify(self: Any, data: bytes, sig: bytes) -> bool:
            seen.append((data, sig))
            return orig_verify(self, data, sig)
        with mock.patch.object(pk.SSHKey, 'verify', spy_verify):
            impl_cert(blob)
        if not seen or any(d + String(sg) != blob for d, sg in seen):
            return [Failure('cert-signed-region-does-not-cover-blob', 'region handed to verify is not the whole prefix', r)]
        return []
    if kind in ('cert-edit', 'cert-honest', 'cert-options', 'cert-validate'):
        blob = bytes.fromhex(r['blob'])
        if kind == 'cert-edit':
            i = r['index']
            blob = blob[:i] + bytes([r['value']]) + blob[i + 1:]
            st, _c = impl_cert(blob)
            return [Failure('cert-accepts-single-byte-edit', 'edited certificate accepted', r)] if st == 'ok' else []
        st, c = impl_cert(blob)
        if kind == 'cert-honest':
            return [Failure('cert-rejects-honest-certificate', st, r)] if st != 'ok' else []
        if kind == 'cert-options':
            got = canon_opts_impl(c.options) if st == 'ok' else st
            exp = r.get('expect')
            if exp == 'reject':
                return [Failure('cert-accepts-unknown-critical-option', str(got), r)] if st == 'ok' else []
            return [Failure('cert-unknown-extension-value-parsed-as-name', str(got), r)] if got != exp else []
        if st != 'ok':
            return []
        now = Fraction(r['now'])
        nowv: Any = int(now) if now.denominator == 1 else float(now)
        got = impl_validate(c, r['want'], r['principal'], nowv)
        return [Failure('cert-validate-decision-wrong', got, r)] if (got == 'ok') != r['expect_ok'] else []
    if kind == 'audit':
        res = OracleResult()
        return _c16_audit.oracle_audit(_self(), ctx, ctx.subrng('oracle-audit'), Hist(), res, available_algs(),
                                       ctx.tier == 'thorough', only=rep.get('signature'))
    # inputs that depend on per-run keys (signatures, SSHSIG blobs, interop): re-create the situation by running
    # the oracle again and keep the failures with the recorded signature
    want = rep.get('signature')
    return [f for f in oracle(ctx).failures if want is None or f.signature == want]
