"""C19 generators: streams, chunkings, separators, reader scripts, process event lists (all seeded)."""

from __future__ import annotations

import itertools
from typing import Any, Dict, List, Optional, Sequence, Tuple

ALPH = b'ab\nc'


def gen_stream(rng: Any, maxlen: int = 40) -> bytes:
    n = rng.choice([0, 1, 2, 3, 5, 8, 13, 21, maxlen]) if rng.random() < 0.5 else rng.randint(0, maxlen)
    if rng.random() < 0.15:
        return bytes(rng.randrange(256) for _ in range(n))
    return bytes(rng.choice(ALPH) for _ in range(n))


def split_at(data: bytes, cuts: Sequence[int]) -> List[bytes]:
    out, prev = [], 0
    for c in sorted(set(c for c in cuts if 0 < c < len(data))):
        out.append(data[prev:c])
        prev = c
    out.append(data[prev:])
    return [x for x in out if x]


def gen_chunking(rng: Any, data: bytes, maxchunk: Optional[int] = None) -> List[bytes]:
    if not data:
        return []
    r = rng.random()
    if r < 0.15:
        chunks = [data]
    elif r < 0.3:
        chunks = [data[i:i + 1] for i in range(len(data))]
    else:
        k = rng.randint(1, max(1, min(len(data) - 1, 8)))
        chunks = split_at(data, [rng.randint(1, len(data)) for _ in range(k)])
    if maxchunk:
        out = []
        for c in chunks:
            out += [c[i:i + maxchunk] for i in range(0, len(c), maxchunk)]
        chunks = out
    return chunks


def all_chunkings(data: bytes) -> List[List[bytes]]:
    """every way to cut `data` into non-empty chunks (2^(n-1))"""
    n = len(data)
    if n == 0:
        return [[]]
    res = []
    for mask in range(1 << (n - 1)):
        cuts = [i + 1 for i in range(n - 1) if mask >> i & 1]
        res.append(split_at(data, cuts))
    return res


def substr(rng: Any, data: bytes, maxlen: int = 4) -> bytes:
    if not data or rng.random() < 0.25:
        return bytes(rng.choice(ALPH) for _ in range(rng.randint(1, maxlen)))
    l = rng.randint(1, min(maxlen, len(data)))
    i = rng.randint(0, len(data) - l)
    return data[i:i + l]


def infix_free(seps: Sequence[bytes]) -> bool:
    """no separator occurs inside another one other than as a suffix (and none is empty)"""
    for a in seps:
        if not a:
            return False
        for b in seps:
            for pos in range(len(b)):
                if pos + len(a) < len(b) and b[pos:pos + len(a)] == a:
                    return False
    return True


def gen_seps(rng: Any, data: bytes, kind: str) -> List[bytes]:
    if kind == 'single':
        return [substr(rng, data)]
    if kind == 'infix':         # one separator strictly inside another (not as its suffix)
        big = substr(rng, data, 5)
        while len(big) < 2:
            big = big + bytes([rng.choice(ALPH)])
        l = rng.randint(1, len(big) - 1)
        i = rng.randint(0, len(big) - l - 1)
        small = big[i:i + l]
        seps = [big, small]
        if rng.random() < 0.5:
            seps.reverse()
        return seps
    k = rng.randint(2, 3)
    for _ in range(50):
        seps = [substr(rng, data) for _ in range(k)]
        if infix_free(seps):
            return seps
    return [b'\n', b'c']


def first_end(seps: Sequence[bytes], data: bytes) -> Optional[int]:
    """specification: length of the shortest prefix of `data` ending in one of the separators"""
    best = None
    for e in range(0, len(data) + 1):
        for s in seps:
            if e >= len(s) and data[e - len(s):e] == s:
                return e
    return best


def gen_n(rng: Any, remaining: int, limit: int) -> int:
    cands = [0, 1, 2, 3, remaining - 1, remaining, remaining + 1, remaining // 2, remaining + 5]
    if 0 < limit <= 128:
        cands += [limit - 1, limit, limit + 1, 2 * limit, limit // 2]
    return max(0, rng.choice(cands))


def gen_reader_script(rng: Any, mode: str) -> Tuple[int, List[Tuple], Dict[str, Any]]:
    """mode: 'direct' (everything incl. feed / soft EOF), 'client' (data+EOF only), 'server' (data, EOF, signals).
    Returns (limit, tokens, info)."""
    wire = mode != 'direct'
    if wire:
        limit = rng.choice([8, 8, 16, 32, 64, 4096])
    else:
        limit = rng.choice([0, 0, 3, 5, 8, 16, 64])
    data = gen_stream(rng, 48)
    maxchunk = max(1, limit // 2) if wire else None
    chunks = gen_chunking(rng, data, maxchunk)
    arrivals: List[Tuple] = [('d', c) for c in chunks]
    info = {'data': data, 'eof': False, 'exc': 0, 'feed': 0}
    if mode in ('direct', 'server') and rng.random() < 0.3:
        for _ in range(rng.randint(1, 2)):
            pos = rng.randint(0, len(arrivals))
            code = rng.choice([0, 1, 2, 3]) if mode == 'direct' else rng.choice([1, 2, 3])
            arrivals.insert(pos, ('x', code))
            info['exc'] += 1
    if mode == 'direct' and rng.random() < 0.12:
        for _ in range(rng.randint(1, 2)):
            pos = rng.randint(0, len(arrivals))
            arrivals.insert(pos, ('f', rng.choice([b'', b'', b'a', b'\n'])))
            info['feed'] += 1
    if rng.random() < 0.7:
        arrivals.append(('e',))
        info['eof'] = True
        if mode == 'direct' and rng.random() < 0.05:
            arrivals.append(('d', b'late'))     # malformed: data after EOF (the session just buffers it)
    # group the arrivals
    groups: List[List[Tuple]] = []
    i = 0
    while i < len(arrivals):
        k = rng.choice([1, 1, 1, 2, 3, len(arrivals)])
        groups.append(arrivals[i:i + k])
        i += k
    if rng.random() < 0.2:
        groups.insert(rng.randint(0, len(groups)), [])      # a spurious wake-up
    # interleave calls
    nops = rng.randint(1, 6)
    toks: List[Tuple] = []
    gi = 0
    pre = rng.choice([0, 0, 1, 2, len(groups)])
    for _ in range(min(pre, len(groups))):
        toks.append(('G', groups[gi]))
        gi += 1
    consumed = 0
    for _ in range(nops):
        r = rng.random()
        remaining = max(0, len(data) - consumed)
        if r < 0.2:
            n = gen_n(rng, remaining, limit)
            toks.append(('X', n))
            consumed += n
        elif r < 0.35:
            n = rng.choice([-1, -1, gen_n(rng, remaining, limit)])
            toks.append(('R', n))
            consumed += max(n, 0)
        elif r < 0.45:
            toks.append(('L',))
        elif r < 0.5:
            toks.append(('Q',))
        else:
            rest = data[min(consumed, len(data)):]
            kind = rng.choice(['single', 'single', 'multi', 'multi', 'infix', 'regex', 'regex-short', 'odd'])
            if kind == 'single':
                toks.append(('V', gen_seps(rng, rest, 'single')[0]))
            elif kind in ('multi', 'infix'):
                toks.append(('U', gen_seps(rng, rest, kind)))
            elif kind == 'regex':
                seps = gen_seps(rng, rest, rng.choice(['single', 'multi']))
                toks.append(('P', max(len(s) for s in seps) + rng.choice([0, 0, 1, 3]), seps))
            elif kind == 'regex-short':     # caller understates max_separator_len (0 = search everything)
                seps = gen_seps(rng, rest, rng.choice(['single', 'multi']))
                toks.append(('P', rng.randint(0, max(len(s) for s in seps)), seps))
            else:
                if mode == 'direct':
                    toks.append(rng.choice([('V', b''), ('U', []), ('U', [b'']), ('U', [b'', b'a']),
                                            ('U', [substr(rng, rest)] * 2)]))
                else:
                    toks.append(('U', [substr(rng, rest)] * 2))
            info['until'] = info.get('until', 0) + 1
        for _ in range(rng.choice([0, 1, 1, 2, 3])):
            if gi < len(groups):
                toks.append(('G', groups[gi]))
                gi += 1
    while gi < len(groups):
        toks.append(('G', groups[gi]))
        gi += 1
    if rng.random() < 0.5:
        toks.append(('R', -1))
    return limit, toks, info


# ---------------------------------------------------------------------------
# process layer


def gen_proc_events(rng: Any, conformant: bool) -> Tuple[int, List[Tuple], Dict[str, Any]]:
    limit = rng.choice([8, 16, 16, 32, 64, 1024])
    maxd = min(24, max(1, limit // 2))
    ndata = rng.randint(0, 7)
    wire: List[Tuple] = []
    for i in range(ndata):
        k = 'D' if rng.random() < 0.3 else 'd'
        wire.append((k, bytes([65 + i]) * rng.randint(1, maxd)))
    info: Dict[str, Any] = {'late_wait': False, 'disconnect': False, 'redirect': False}
    if conformant:
        tail: List[Tuple] = []
        if rng.random() < 0.8:
            tail.append(('e',))
        st: List[Tuple] = []
        if rng.random() < 0.8:
            st = [('s', rng.choice([0, 1, 3, 255, 256, 300]))] if rng.random() < 0.75 else [('S', rng.choice([2, 9, 15]))]
        # exit status may come before, between or after the data and the EOF
        pos_choices = list(range(len(wire) + len(tail) + 1))
        allw = wire + tail
        for x in st:
            allw.insert(rng.choice(pos_choices), x)
        if rng.random() < 0.9:
            allw.append(('c',))
        wire = allw
    else:
        extra = [('e',), ('e',), ('c',), ('c',), ('s', 7), ('S', 9), ('d', b'zz'), ('D', b'yy')]
        for _ in range(rng.randint(1, 5)):
            wire.insert(rng.randint(0, len(wire)), rng.choice(extra))
    # application events and loop ticks
    evs: List[Tuple] = []
    wait_at = rng.choice([0, 0, len(wire), len(wire), rng.randint(0, len(wire))])
    redirect_at = rng.randint(0, len(wire)) if rng.random() < 0.3 else None
    disc_at = rng.randint(0, len(wire)) if rng.random() < (0.15 if conformant else 0.3) else None
    for i in range(len(wire) + 1):
        if redirect_at == i:
            evs += [('t',), ('r', rng.choice([1, 1, 0])), ('t',)]
            info['redirect'] = True
        if wait_at == i:
            evs += [('t',), ('w',), ('t',)]
            info['late_wait'] = i > 0
        if disc_at == i:
            evs += [('t',), ('x', rng.choice([0, 1])), ('t',)]
            info['disconnect'] = True
        if i < len(wire):
            evs.append(wire[i])
            if rng.random() < 0.4:
                evs.append(('t',))
    evs.append(('t',))
    return limit, evs, info


def orderings(items: Sequence[Tuple]) -> List[List[Tuple]]:
    seen, out = set(), []
    for p in itertools.permutations(items):
        if p not in seen:
            seen.add(p)
            out.append(list(p))
    return out
