"""Worker pool for the C10 oracle: every potentially non-terminating call runs in a child process.

A *job* is (kind, start, count).  Case i of a job is a pure function of (seed, kind, i); the child reports
per-case outcomes in batches, keeps the index of the case it is working on in shared memory, and protects each
case with an interval timer.  If a child stops reporting (a C-level call that ignores signals) or dies (stack
overflow), the parent kills it, records the case it was working on as `hang`/`crash`, and restarts the job
after that case.  The check itself therefore never hangs.
"""

from __future__ import annotations

import multiprocessing as mp
import os
import random
import signal
import time
import traceback
from typing import Any, Dict, List, Optional, Tuple

PER_CASE_S = 6.0          # interval timer inside the child
STALL_S = 25.0            # parent: no progress for this long -> kill


def _run_parser_job(seed: int, target: str, start: int, count: int, cur: Any, out: Any) -> None:
    from props import _c10_parsers as P

    def on_alarm(_s: int, _f: Any) -> None:
        raise P.Budget()
    signal.signal(signal.SIGALRM, on_alarm)
    P.artefacts()
    hist: Dict[str, int] = {}
    fails: Dict[str, Tuple[int, str, str]] = {}
    for i in range(start, start + count):
        cur.value = i
        rng = random.Random(f'{seed}:{target}:{i}')
        data = P.gen_case(target, rng)
        signal.setitimer(signal.ITIMER_REAL, PER_CASE_S)
        try:
            key, sig, detail = P.run_case(target, data)
        except P.Budget:
            key, sig, detail = 'budget', f'spins:{target.split(":")[0]}', 'per-case time budget exceeded'
        finally:
            signal.setitimer(signal.ITIMER_REAL, 0)
        hist[key] = hist.get(key, 0) + 1
        if sig and (sig not in fails or len(data) < len(bytes.fromhex(fails[sig][1]))):
            fails[sig] = (i, data.hex(), detail)
    out.send(('done', hist, fails, count))


def _run_conn_job(seed: int, kind: str, start: int, count: int, cur: Any, out: Any) -> None:
    import pair
    from props import _c10_conn as C
    from props import _c10_sftp as S
    parts = kind.split(':')
    leg = parts[0]
    hist: Dict[str, int] = {}
    fails: Dict[str, Tuple[int, Any, str]] = {}
    stats = {'max_rounds': 0, 'max_out_ratio': 0.0}     # ratio: response bytes per input byte beyond the constant part

    async def run_all() -> None:
        for i in range(start, start + count):
            cur.value = i
            cseed = f'{seed}:{kind}:{i}'
            try:
                if leg == 'packet':
                    o = await C.packet_case(parts[1], parts[2], cseed)
                elif leg == 'stream':
                    o = await C.stream_case(parts[1], parts[2], cseed)
                elif leg == 'sftp-server':
                    o = await S.sftp_server_case(cseed)
                elif leg == 'sftp-client':
                    o = await S.sftp_client_case(cseed)
                else:
                    raise KeyError(kind)
            except C.Spin:
                o = {'label': 'spin outside measure', 'spin': True, 'kind': leg, 'phase': parts[1] if len(parts) > 1 else '',
                     'role': parts[2] if len(parts) > 2 else ''}
            except Exception as e:           # harness trouble, counted but not a finding
                hist['harness-error:' + type(e).__name__] = hist.get('harness-error:' + type(e).__name__, 0) + 1
                continue
            key = f'{kind}:{C.outcome_of(o)}'
            hist[key] = hist.get(key, 0) + 1
            stats['max_rounds'] = max(stats['max_rounds'], o.get('rounds', 0))
            if o.get('input_len'):
                stats['max_out_ratio'] = max(stats['max_out_ratio'], max(0, o.get('out_bytes', 0) - C.OUT_A) / max(1, o['input_len']))
            for sig, what in C.failures_of(o):
                if sig not in fails:
                    rep = {k: o.get(k) for k in ('packets', 'npackets', 'data', 'data_len', 'cuts', 'phase', 'role', 'label',
                                                 'script', 'kind', 'stream_kind')}
                    rep['case_seed'] = cseed
                    fails[sig] = (i, rep, what)
    try:
        pair.run(run_all(), timeout=3600)
    except BaseException as e:       # noqa: B902
        hist['harness-error:job:' + type(e).__name__] = 1
    out.send(('done', hist, fails, count, stats))


def _child(fn_name: str, seed: int, kind: str, start: int, count: int, cur: Any, out: Any) -> None:
    try:
        os.environ.setdefault('PYTHONWARNINGS', 'ignore')
        import warnings
        warnings.simplefilter('ignore')
        import logging
        logging.disable(logging.CRITICAL)
        globals()[fn_name](seed, kind, start, count, cur, out)
    except BaseException:       # noqa: B902
        try:
            out.send(('error', traceback.format_exc()[-1500:]))
        except Exception:
            pass
    finally:
        try:
            out.close()
        except Exception:
            pass


class Running:
    def __init__(self, job: Tuple[str, str, int, int], seed: int):
        self.fn, self.kind, self.start, self.count = job
        self.cur = mp.Value('i', self.start - 1)
        self.rx, tx = mp.Pipe(duplex=False)
        self.proc = mp.Process(target=_child, args=(self.fn, seed, self.kind, self.start, self.count, self.cur, tx),
                               daemon=True)
        self.proc.start()
        tx.close()
        self.last_val = self.start - 1
        self.last_change = time.time()


def run_jobs(seed: int, jobs: List[Tuple[str, str, int, int]], workers: int, deadline: float
             ) -> Tuple[Dict[str, int], Dict[str, Tuple[str, int, Any, str]], int, Dict[str, Any], List[str]]:
    """jobs: (child function name, kind, start, count).  Returns (histogram, failures {sig: (kind, index, input,
    detail)}, cases run, stats, notes)."""
    ctx_jobs = list(jobs)
    running: List[Running] = []
    hist: Dict[str, int] = {}
    fails: Dict[str, Tuple[str, int, Any, str]] = {}
    notes: List[str] = []
    stats: Dict[str, Any] = {'max_rounds': 0, 'max_out_ratio': 0.0}
    ncases = 0

    def merge(kind: str, msg: Any) -> None:
        nonlocal ncases
        h, f, n = msg[1], msg[2], msg[3]
        for k, v in h.items():
            hist[k] = hist.get(k, 0) + v
        for sig, (i, data, detail) in f.items():
            if sig not in fails:
                fails[sig] = (kind, i, data, detail)
        ncases += n
        if len(msg) > 4:
            stats['max_rounds'] = max(stats['max_rounds'], msg[4]['max_rounds'])
            stats['max_out_ratio'] = max(stats['max_out_ratio'], msg[4]['max_out_ratio'])

    while ctx_jobs or running:
        while ctx_jobs and len(running) < workers:
            if time.time() > deadline:
                notes.append(f'deadline reached: {len(ctx_jobs)} jobs not started')
                ctx_jobs = []
                break
            running.append(Running(ctx_jobs.pop(0), seed))
        time.sleep(0.02)
        for r in list(running):
            finished = False
            if r.rx.poll():
                try:
                    msg = r.rx.recv()
                except EOFError:
                    msg = None
                if msg is not None and msg[0] == 'done':
                    merge(r.kind, msg)
                    finished = True
                elif msg is not None and msg[0] == 'error':
                    notes.append(f'{r.kind}: worker error: {msg[1][-300:]}')
                    hist['harness-error:worker'] = hist.get('harness-error:worker', 0) + 1
                    finished = True
            if finished:
                r.proc.join(5)
                if r.proc.is_alive():
                    r.proc.kill()
                running.remove(r)
                continue
            v = r.cur.value
            if v != r.last_val:
                r.last_val, r.last_change = v, time.time()
            dead = not r.proc.is_alive() and not r.rx.poll()
            stalled = time.time() - r.last_change > STALL_S
            if dead or stalled:
                why = 'crash' if dead else 'hang'
                try:
                    r.proc.kill()
                except Exception:
                    pass
                r.proc.join(5)
                running.remove(r)
                i = max(r.last_val, r.start)
                fn_name = r.kind.split(':')[0]
                sig = f'c10:{why}:{fn_name}' if r.fn != '_run_parser_job' else f'{why}:{fn_name}'
                data: Any = None
                if r.fn == '_run_parser_job':
                    try:
                        from props import _c10_parsers as P
                        data = P.gen_case(r.kind, random.Random(f'{seed}:{r.kind}:{i}')).hex()
                    except Exception:
                        data = None
                else:
                    data = {'case_seed': f'{seed}:{r.kind}:{i}', 'kind': fn_name}
                fails.setdefault(sig, (r.kind, i, data,
                                       f'worker {"died" if dead else "made no progress for %ds" % STALL_S} on this case'))
                hist[f'{r.kind}:{why}'] = hist.get(f'{r.kind}:{why}', 0) + 1
                ncases += max(0, i - r.start + 1)
                rest = r.start + r.count - (i + 1)
                if rest > 0:
                    ctx_jobs.insert(0, (r.fn, r.kind, i + 1, rest))
    return hist, fails, ncases, stats, notes
