"""Worker pool for the C10 oracle: every potentially non-terminating call runs in a child process.

A *job* is (kind, start, count).  Case i of a job is a pure function of (seed, kind, i); the child reports
per-case outcomes in batches, keeps the index of the case it is working on in shared memory, and protects each
case with an interval timer.  If a child stops reporting (a C-level call that ignores signals) or dies (stack
overflow), the parent kills it, records the case it was working on as `hang`/`crash`, and restarts the job
after that case.  The check itself therefore never hangs.
"""

from __future__ import annotations

import multiprocessing as mp
import os
import random
import signal
import time
import traceback
from typing import Any, Dict, List, Optional, Tuple

PER_CASE_S = 6.0          # interval timer inside the child
STALL_S = 25.0            # parent: no progress for this long -> kill


def _run_parser_job(seed: int, target: str, start: int, count: int, cur: Any, out: Any) -> None:
    from props import _c10_parsers as P

    def on_alarm(_s: int, _f: Any) -> None:
        raise P.Budget()
    signal.signal(signal.SIGALRM, on_alarm)
    P.artefacts()
    hist: Dict[str, int] = {}
    fails: Dict[str, Tuple[int, str, str]] = {}
    for i in range(start, start + count):
        cur.value = i
        rng = random.Random(f'{seed}:{target}:{i}')
        data = P.gen_case(target, rng)
        signal.setitimer(signal.ITIMER_REAL, PER_CASE_S)
        try:
            key, sig, detail = P.run_case(target, data)
        except P.Budget:
            key, sig, detail = 'budget', f'spins:{target.split(":")[0]}', 'per-case time budget exceeded'
        finally:
            signal.setitimer(signal.ITIMER_REAL, 0)
        hist[key] = hist.get(key, 0) + 1
        if sig and (sig not in fails or len(data) < len(bytes.fromhex(fails[sig][1]))):
            fails[sig] = (i, data.hex(), detail)
    out.send(('done', hist, fails, count))


def _run_conn_job(seed: int, kind: str, start: int, count: int, cur: Any, out: Any) -> None:
    import pair
    from props import _c10_conn as C
    from props import _c10_sftp as S
    parts = kind.split(':')
    leg = parts[0]
    hist: Dict[str, int] = {}
    fails: Dict[str, Tuple[int, Any, str]] = {}
    stats: Dict[str, Any] = {'max_rounds': 0, 'max_out_ratio': 0.0, 'max_case_s': 0.0}     # ratio: response bytes per input byte beyond the constant part

    async def one(i: int) -> Dict[str, Any]:
        cseed = f'{seed}:{kind}:{i}'
        try:
            if leg == 'packet':
                return await C.packet_case(parts[1], parts[2], cseed)
            if leg == 'stream':
                return await C.stream_case(parts[1], parts[2], cseed)
            if leg == 'sftp-server':
                return await S.sftp_server_case(cseed)
            if leg == 'sftp-client':
                return await S.sftp_client_case(cseed)
            raise KeyError(kind)
        except C.Spin as e:
            return {'label': 'spin outside measure', 'spin': True, 'kind': leg, 'spin_in_loop': str(e),
                    'phase': parts[1] if len(parts) > 1 else '', 'role': parts[2] if len(parts) > 2 else ''}

    def wall_clock_only(o: Dict[str, Any]) -> bool:
        """the only evidence of a spin is the wall-clock alarm (which a loaded machine can trip)"""
        why = str(o.get('spin_in_send') or o.get('spin_in_loop') or '')
        return bool(o.get('spin')) and 'output budget' not in why and \
            not any('output budget' in str(w) for _n, w in o.get('loop_errors', []))

    def confirmed(i: int) -> Optional[Dict[str, Any]]:
        """re-run a case whose spin was only seen by the clock; None if it does not reproduce"""
        for _ in range(2):
            try:
                o2 = pair.run(one(i), timeout=120)
            except C.Spin as e:
                o2 = {'spin': True, 'spin_in_loop': str(e), 'kind': leg, 'label': 'spin in the event loop'}
            except Exception:
                return None
            if not o2.get('spin'):
                return None
        return o2

    def record(i: int, o: Dict[str, Any]) -> None:
        key = f'{kind}:{C.outcome_of(o)}'
        hist[key] = hist.get(key, 0) + 1
        stats['max_rounds'] = max(stats['max_rounds'], o.get('rounds', 0))
        if o.get('input_len'):
            stats['max_out_ratio'] = max(stats['max_out_ratio'], max(0, o.get('out_bytes', 0) - C.OUT_A) / max(1, o['input_len']))
        for sig, what in C.failures_of(o):
            if sig not in fails:
                rep = {k: o.get(k) for k in ('packets', 'npackets', 'data', 'data_len', 'cuts', 'phase', 'role', 'label',
                                             'script', 'kind', 'stream_kind')}
                rep['case_seed'] = f'{seed}:{kind}:{i}'
                fails[sig] = (i, rep, what)

    pending_confirm: List[int] = []

    async def run_from(first: int) -> None:
        for i in range(first, start + count):
            cur.value = i
            t_case = time.time()
            try:
                o = await one(i)
            except Exception as e:           # harness trouble, counted but not a finding
                hist['harness-error:' + type(e).__name__] = hist.get('harness-error:' + type(e).__name__, 0) + 1
                continue
            if time.time() - t_case > stats.get('max_case_s', 0.0):
                stats['max_case_s'] = time.time() - t_case
                stats['slowest'] = f'{seed}:{kind}:{i}'
            if wall_clock_only(o):
                pending_confirm.append(i)
                continue
            record(i, o)
    nxt = start
    while nxt < start + count:
        try:
            pair.run(run_from(nxt), timeout=7200)
            break
        except C.Spin:
            # the wall-clock alarm fired inside the event loop itself: check the running case on its own, go on after it
            pending_confirm.append(cur.value)
            nxt = cur.value + 1
        except BaseException as e:       # noqa: B902
            hist[f'harness-error:job:{type(e).__name__}@{kind}:{cur.value}'] = 1
            break
    for i in pending_confirm:
        o2 = confirmed(i)
        if o2 is None:
            hist[f'{kind}:slow-once-not-reproduced'] = hist.get(f'{kind}:slow-once-not-reproduced', 0) + 1
            try:
                record(i, pair.run(one(i), timeout=120))
            except BaseException:       # noqa: B902
                pass
        else:
            o2.setdefault('phase', parts[1] if len(parts) > 1 else '')
            o2.setdefault('role', parts[2] if len(parts) > 2 else '')
            record(i, o2)
    out.send(('done', hist, fails, count, stats))


def _run_corpus_job(seed: int, kind: str, start: int, count: int, cur: Any, out: Any) -> None:
    from props import _c10_conn as C
    from props import _c10_corpus as K
    items = K.corpus_items()
    hist: Dict[str, int] = {}
    fails: Dict[str, Tuple[int, Any, str]] = {}
    for i in range(start, min(start + count, len(items))):
        cur.value = i
        prefix, thunk = items[i]
        try:
            found = thunk()
        except C.Spin as e:
            found = [(f'c10:spins:{prefix}', f'{prefix}: {e}', {'kind': 'corpus-item', 'index': i})]
        except Exception as e:       # harness trouble (e.g. the mutated library cannot even connect)
            hist[f'harness-error:{prefix}:{type(e).__name__}'] = hist.get(f'harness-error:{prefix}:{type(e).__name__}', 0) + 1
            continue
        key = f'{prefix}:' + ('fails' if found else 'holds')
        hist[key] = hist.get(key, 0) + 1
        for sig, what, rep in found:
            fails.setdefault(sig, (i, rep, what))
    out.send(('done', hist, fails, count))


def _run_call_job(seed: int, kind: str, start: int, count: int, cur: Any, out: Any) -> None:
    """run one registered callable in the child and send its (picklable) result back"""
    fn = CALLS[kind]
    out.send(('result', fn()))


CALLS: Dict[str, Any] = {}


def in_child(name: str, fn: Any, timeout: float) -> Tuple[bool, Any]:
    """Run fn() in a forked child with a hard wall-clock limit.  Returns (True, result) or (False, reason)."""
    CALLS[name] = fn
    cur = mp.Value('i', 0)
    rx, tx = mp.Pipe(duplex=False)
    proc = mp.Process(target=_child, args=('_run_call_job', 0, name, 0, 1, cur, tx), daemon=True)
    proc.start()
    tx.close()
    try:
        if rx.poll(timeout):
            try:
                msg = rx.recv()
            except EOFError:
                return False, 'child died'
            if msg[0] == 'result':
                return True, msg[1]
            return False, str(msg[1])[-400:]
        return False, f'no result within {timeout:.0f}s'
    finally:
        try:
            proc.kill()
        except Exception:
            pass
        proc.join(5)
        CALLS.pop(name, None)


def _child(fn_name: str, seed: int, kind: str, start: int, count: int, cur: Any, out: Any) -> None:
    try:
        os.environ.setdefault('PYTHONWARNINGS', 'ignore')
        import warnings
        warnings.simplefilter('ignore')
        import logging
        logging.disable(logging.CRITICAL)
        globals()[fn_name](seed, kind, start, count, cur, out)
    except BaseException:       # noqa: B902
        try:
            out.send(('error', traceback.format_exc()[-1500:]))
        except Exception:
            pass
    finally:
        try:
            out.close()
        except Exception:
            pass


class Running:
    def __init__(self, job: Tuple[str, str, int, int], seed: int):
        self.fn, self.kind, self.start, self.count = job
        self.cur = mp.Value('i', self.start - 1)
        self.rx, tx = mp.Pipe(duplex=False)
        self.proc = mp.Process(target=_child, args=(self.fn, seed, self.kind, self.start, self.count, self.cur, tx),
                               daemon=True)
        self.proc.start()
        tx.close()
        self.last_val = self.start - 1
        self.last_change = time.time()


def run_jobs(seed: int, jobs: List[Tuple[str, str, int, int]], workers: int, deadline: float
             ) -> Tuple[Dict[str, int], Dict[str, Tuple[str, int, Any, str]], int, Dict[str, Any], List[str]]:
    """jobs: (child function name, kind, start, count).  Returns (histogram, failures {sig: (kind, index, input,
    detail)}, cases run, stats, notes)."""
    ctx_jobs = list(jobs)
    running: List[Running] = []
    hist: Dict[str, int] = {}
    fails: Dict[str, Tuple[str, int, Any, str]] = {}
    notes: List[str] = []
    stats: Dict[str, Any] = {'max_rounds': 0, 'max_out_ratio': 0.0}
    ncases = 0

    def merge(kind: str, msg: Any) -> None:
        nonlocal ncases
        h, f, n = msg[1], msg[2], msg[3]
        for k, v in h.items():
            hist[k] = hist.get(k, 0) + v
        for sig, (i, data, detail) in f.items():
            if sig not in fails:
                fails[sig] = (kind, i, data, detail)
        ncases += n
        if len(msg) > 4:
            stats['max_rounds'] = max(stats['max_rounds'], msg[4]['max_rounds'])
            stats['max_out_ratio'] = max(stats['max_out_ratio'], msg[4]['max_out_ratio'])
            if msg[4].get('max_case_s', 0.0) > stats.get('max_case_s', 0.0):
                stats['max_case_s'] = msg[4]['max_case_s']
                stats['slowest'] = msg[4].get('slowest')

    while ctx_jobs or running:
        while ctx_jobs and len(running) < workers:
            if time.time() > deadline:
                notes.append(f'deadline reached: {len(ctx_jobs)} jobs not started')
                ctx_jobs = []
                break
            running.append(Running(ctx_jobs.pop(0), seed))
        time.sleep(0.02)
        if time.time() > deadline + 90 and running:
            notes.append(f'hard deadline: {len(running)} workers stopped before finishing their jobs')
            for r in running:
                try:
                    r.proc.kill()
                except Exception:
                    pass
            running = []
            ctx_jobs = []
            break
        for r in list(running):
            finished = False
            if r.rx.poll():
                try:
                    msg = r.rx.recv()
                except EOFError:
                    msg = None
                if msg is not None and msg[0] == 'done':
                    merge(r.kind, msg)
                    finished = True
                elif msg is not None and msg[0] == 'error':
                    notes.append(f'{r.kind}: worker error: {msg[1][-300:]}')
                    hist['harness-error:worker'] = hist.get('harness-error:worker', 0) + 1
                    finished = True
            if finished:
                r.proc.join(5)
                if r.proc.is_alive():
                    r.proc.kill()
                running.remove(r)
                continue
            v = r.cur.value
            if v != r.last_val:
                r.last_val, r.last_change = v, time.time()
            dead = not r.proc.is_alive() and not r.rx.poll()
            stalled = time.time() - r.last_change > STALL_S
            if dead or stalled:
                why = 'crash' if dead else 'hang'
                try:
                    r.proc.kill()
                except Exception:
                    pass
                r.proc.join(5)
                running.remove(r)
                i = max(r.last_val, r.start)
                fn_name = r.kind.split(':')[0]
                sig = f'c10:{why}:{fn_name}' if r.fn != '_run_parser_job' else f'{why}:{fn_name}'
                data: Any = None
                if r.fn == '_run_parser_job':
                    try:
                        from props import _c10_parsers as P
                        data = P.gen_case(r.kind, random.Random(f'{seed}:{r.kind}:{i}')).hex()
                    except Exception:
                        data = None
                elif r.fn == '_run_corpus_job':
                    data = {'kind': 'corpus-item', 'index': i}
                else:
                    data = {'case_seed': f'{seed}:{r.kind}:{i}', 'kind': fn_name}
                fails.setdefault(sig, (r.kind, i, data,
                                       f'worker {"died" if dead else "made no progress for %ds" % STALL_S} on this case'))
                hist[f'{r.kind}:{why}'] = hist.get(f'{r.kind}:{why}', 0) + 1
                ncases += max(0, i - r.start + 1)
                rest = r.start + r.count - (i + 1)
                if rest > 0:
                    ctx_jobs.insert(0, (r.fn, r.kind, i + 1, rest))
    return hist, fails, ncases, stats, notes
