"""C20 — Forwarded connections relay faithfully and only where permitted.

Lean: Model/Forward.lean (relay machine, permission decision, listener table), Model/Socks.lean (SOCKS parser),
      Lemmas/Forward*.lean, Props/C20.lean, Gen/C20.lean (regenerated), Drivers/C20.lean.
Correspondence: the real SSHSOCKSForwarder / SSHLocalForwarder+SSHForwarder objects with recording transports vs the
      models (all chunkings / event orders, legal and illegal, incl. an open that raises something other than
      ChannelOpenError); the real `forward_connection` on a stand-in connection vs `destOpen`; `sockDest` vs the
      socket layer itself (getaddrinfo, connect to UNIX names); real authenticated sessions for every
      no-port-forwarding x permitopen x certificate set x destination (incl. ports above 65535 and path names
      with a NUL) x request kind x application answer vs the decision function; `permitopen` value parsing;
      listener tables of real connections (incl. the creation-vs-cleanup race and UNIX paths forwarded twice) vs
      the table model.  All legs share one run of the Lean driver.
Oracle: real local / remote / UNIX / SOCKS forwards over loopback endpoints scripted from the four ends (data both
      ways, half-close, close, RST, data before confirmation, crossing events, connection loss): bytes and EOF seen
      at the endpoints, sockets released, no exception reaching the event loop; denied requests create nothing;
      edge cases (_c20_cases.py): the address served is the address asked about, listen addresses the resolver
      rejects, SSH connection lost while the destination is being connected, open that raises another exception.
"""

from __future__ import annotations

import asyncio
import os
from typing import Any, Dict, List, Optional, Tuple

import asyncssh

import pair
from vlib import (Ctx, CorrResult, OracleResult, Failure, Disagreement, Hist, hx)
from props import _c20_translate
from props import _c20_gen as G
from props import _c20_real as R
from props import _c20_cases as K

PROPERTY = 'C20'
MANIFEST = {
    'text': 'Lean 4 theorems about an executable model of asyncssh forwarding: for EVERY interleaving of events '
            'allowed by the transport contracts the relay writes to one side exactly the bytes that arrived on the '
            'other, in order, including data buffered before the channel is confirmed (relay_faithful), EOF is passed '
            'on without closing and the reverse direction keeps flowing (half_close), loss of either transport '
            'closes both (close_closes_both), a channel or listener is created only if the key options, '
            'certificate options and the application all permit it (forward_only_if_permitted), the listener table '
            'is empty after cleanup (listeners_released), and the SOCKS parser is total on every byte string in '
            'every chunking (socks_total). Where the code as it stands falsifies a clause the negation is proved '
            'with a concrete witness and replayed on the real code. Model and code are tied by differential runs '
            'of the real forwarder objects, real authenticated sessions and real listeners; the property itself is '
            'evaluated on real loopback forwards scripted from all four ends.',
    'note': 'kernel socket semantics, asyncio transports and the SSH channel layer (C07-C09) are the environment of '
            'the relay model; their contract is the `legal` predicate',
    'technique': 'Lean 4 invariant proofs over all event sequences + translator for permission checks and SOCKS '
                 'constants + differential correspondence + end-to-end oracle on loopback sockets',
}
LEAN_PROPS = ['AsyncsshModel.Props.C20']
DRIVER = 'Drivers/C20.lean'
TRUSTED = [
    'asyncio selector transports and the SSH channel layer deliver data/EOF only while the protocol holds the '
    'transport, call connection_lost once, and close a socket transport whose eof_received() returns False '
    '(the `legal` predicate of Model/Forward.lean; the channel layer is the subject of C07-C09)',
    'kernel TCP/UNIX socket semantics on loopback; `ipaddress.ip_address` text forms; that `getaddrinfo` reduces a '
    'numeric service below 2^31 modulo 65536 and that the kernel reads a socket path name up to its first NUL '
    '(`sockDest`; compared with the socket layer of the machine on every run)',
    '/proc/self/fd and /proc/net/{tcp,unix} as the view of open and listening sockets',
]
ASSUMPTIONS = [
    'permitopen port strings are ASCII digits with optional sign/blanks (other int() spellings are outside the '
    'parse model; the decision model takes the parsed set)',
    'a TCP address bound by a listener of the connection cannot be bound again (the kernel refuses the second '
    'bind); two creations of a listener for the SAME UNIX path are never in flight at the same time on one '
    'connection (the server works through global requests one at a time; an application calling '
    'forward_local_path twice concurrently for one path is outside the model) -- `llegalRun`',
    'a streamlocal-forward request whose path name has a NUL inside is shown to the application and then fails in '
    'the listener creation (ValueError of os.stat, reported as OSError): not part of the decision model',
    'a permitopen set that is present is non-empty (`_add_permitopen` always adds a pair), so "absent" and "empty" '
    'coincide in the model; key options are always a dictionary (never None), an entry without options giving {}',
]


def translate(ctx: Ctx) -> Dict[str, Any]:
    return _c20_translate.translate(ctx)


def vol(ctx: Ctx, quick: int, thorough: int) -> int:
    """case volume: the quick tier's escalated search (something broke) uses 6x the quick volume, not the full
    thorough volume, to stay near the quick budget"""
    if ctx.tier == 'thorough':
        return thorough
    return min(thorough, quick * 6) if ctx.escalated else quick


# ---------------------------------------------------------------------------
# leg A: SOCKS parser, leg B: relay machine (object level)


VARIANT_NAMES = {'a': 'as-is', 'e': 'eof-repair', 'l': 'early-loss-repair', 'f': 'repaired',
                 'g': 'repaired-incl-open-crash', 'r': 'cleanup-race-repair'}


def _pick_variant(name: str, cases: List[Any], impl: List[Any], models: Dict[str, List[Any]],
                  res: CorrResult, hist: Hist) -> str:
    """the code must follow one variant of the model (as it stands, or with some of the proposed repairs) on
    every case; returns the variant followed ('a' when none fits, with the disagreements against it recorded)"""
    base = models['a']
    for v, mod in models.items():
        if v != 'a':
            hist.hit(f'{name}:cases-distinguishing-{VARIANT_NAMES[v]}', sum(1 for i in range(len(cases)) if mod[i] != base[i]))
    for v, mod in models.items():
        if all(impl[i] == mod[i] for i in range(len(cases))):
            hist.hit(f'{name}:follows-{VARIANT_NAMES[v]}')
            if v != 'a':
                res.notes.append(f'{name}: the implementation follows the model variant "{VARIANT_NAMES[v]}" on all '
                                 f'{len(cases)} cases')
            return v
    bad = [i for i in range(len(cases)) if impl[i] != base[i]]
    for i in bad[:5]:
        res.disagreements.append(Disagreement(case=cases[i], model=base[i], impl=impl[i],
                                              name=f'correspondence:{name}'))
    return 'a'


def corr_socks(ctx: Ctx, res: CorrResult, hist: Hist) -> None:
    rng = ctx.subrng('socks')
    cases: List[List[bytes]] = [list(c) for c in G.SOCKS_CORPUS]
    for i in range(vol(ctx, 1200, 30000)):
        b = G.gen_socks_request(rng) + bytes(rng.randrange(256) for _ in range(rng.choice([0, 0, 0, 3, 9, 40])))
        if rng.random() < 0.35:
            b = G.mutate(rng, b)
            hist.hit('socks:malformed')
        else:
            hist.hit('socks:structured')
        cases.append(G.chunkings(rng, b, rng.randrange(4)))
    impl = []
    for ch in cases:
        line, exc, host = G.run_socks_impl(ch)
        impl.append((line, host))
        hist.hit('socks:impl:' + line.rpartition(' ; ')[2].split(' ')[0])
        if exc:
            hist.hit('socks:impl-raises:' + exc)
    lines_a = ['socks a ' + ' '.join(hx(c) for c in ch) for ch in cases]
    lines_f = ['socks f ' + ' '.join(hx(c) for c in ch) for ch in cases]
    out = yield (lines_a + lines_f)
    mod_a = [G.canon_socks_model(l) for l in out[:len(cases)]]
    mod_f = [G.canon_socks_model(l) for l in out[len(cases):]]
    _pick_variant('socks', [{'op': 'socks', 'chunks': [c.hex() for c in ch]} for ch in cases],
                  impl, {'a': mod_a, 'f': mod_f}, res, hist)
    res.cases += len(cases)
    res.nontrivial += len(set(b''.join(ch) for ch in cases))
    res.samples.append({'line': lines_a[0], 'model': out[0], 'impl': impl[0][0]})


def _relay_model_lines(out: List[str]) -> List[Tuple[List[str], int]]:
    res = []
    for l in out:
        groups = [g.strip() for g in l.split('|')]
        res.append(([g[1:].strip() for g in groups], sum(1 for g in groups if g.startswith('I'))))
    return res


def corr_relay(ctx: Ctx, res: CorrResult, hist: Hist) -> None:
    rng = ctx.subrng('relay')
    cases: List[List[str]] = []
    impl: List[List[str]] = []
    legal_flags: List[bool] = []
    for toks in G.RELAY_CORPUS:
        cases.append(list(toks))
        impl.append(G.run_relay_tokens(toks))
        legal_flags.append(False)
    for i in range(vol(ctx, 1500, 40000)):
        obj = G.RelayImpl(path_variant=bool(i % 2))
        legal_only = (i % 4 != 0)
        toks, o = G.gen_relay_seq(rng, obj, rng.randrange(1, 16), legal_only)
        if not toks:
            continue
        cases.append(toks)
        impl.append(o)
        legal_flags.append(legal_only)
        hist.hit('relay:legal-sequence' if legal_only else 'relay:with-illegal-events')
        for t in toks:
            hist.hit('relay:ev:' + (t if t in ('ok', 'fail', 'crash') else t[:2]))
    lines: List[str] = []
    for v in RELAY_VARIANTS:
        lines += [f'relay {v} ' + ' '.join(t) for t in cases]
    out = yield (lines)
    n = len(cases)
    mods = {v: _relay_model_lines(out[k * n:(k + 1) * n]) for k, v in enumerate(RELAY_VARIANTS)}
    followed = _pick_variant('relay', [{'op': 'relay', 'events': t} for t in cases], impl,
                             {v: [m[0] for m in mods[v]] for v in RELAY_VARIANTS}, res, hist)
    # the generator's idea of what the transports may do must be the model's `legal`
    for i, (t, lf) in enumerate(zip(cases, legal_flags)):
        if lf and mods[followed][i][1]:
            res.disagreements.append(Disagreement(case={'op': 'relay-legality', 'events': t},
                                                  model='illegal event in a sequence generated as legal',
                                                  impl='legal', name='correspondence:relay-legality'))
            break
    res.cases += len(cases)
    res.nontrivial += len(set(tuple(t) for t in cases))
    res.samples.append({'line': lines[1], 'model': out[1], 'impl': impl[1]})


RELAY_VARIANTS = 'aelfg'       # 'f' is the tree before, 'g' the tree after the repair of the open that raises


def corr_dest(ctx: Ctx, res: CorrResult, hist: Hist) -> None:
    """destination side: the real `forward_connection` / `forward_unix_connection` on a stand-in connection whose
    destination connects at once, with the SSH connection still there or already closed, followed by legal relay
    events, against `destOpen` of the model (before / after the repair)"""
    rng = ctx.subrng('dest')
    cases: List[Dict[str, Any]] = []
    impl: List[List[str]] = []
    for i in range(vol(ctx, 200, 4000)):
        alive = (i % 3 != 0)
        unix = bool(i % 2)
        toks, outs = G.gen_dest_case(rng, alive, unix, rng.randrange(0, 8))
        cases.append({'op': 'destopen', 'alive': alive, 'unix': unix, 'events': toks})
        impl.append(outs)
        hist.hit('dest:' + ('connection-alive' if alive else 'connection-lost-while-connecting'))
    lines = []
    for v in 'af':
        lines += ['destopen %s %d %s' % (v, 1 if c['alive'] else 0, ' '.join(c['events'])) for c in cases]
    out = yield ([l.rstrip() for l in lines])
    n = len(cases)
    mods = {v: [m[0] for m in _relay_model_lines(out[k * n:(k + 1) * n])] for k, v in enumerate('af')}
    _pick_variant('dest', cases, impl, {'a': mods['a'], 'f': mods['f']}, res, hist)
    res.cases += n
    res.nontrivial += len(set((c['alive'], c['unix'], tuple(c['events'])) for c in cases))
    res.samples.append({'line': lines[0], 'model': out[0], 'impl': impl[0]})


# ---------------------------------------------------------------------------
# leg C: permission decision on real authenticated sessions

_KEYS: Dict[str, Any] = {}


def keys() -> Dict[str, Any]:
    if not _KEYS:
        key = asyncssh.generate_private_key('ssh-ed25519')
        ca = asyncssh.generate_private_key('ssh-ed25519')
        none = dict(permit_x11_forwarding=False, permit_agent_forwarding=False, permit_pty=False,
                    permit_user_rc=False)
        _KEYS.update(
            key=key, ca=ca,
            pub=key.export_public_key().decode().strip(), capub=ca.export_public_key().decode().strip(),
            # y: all permits; x: every permit but port forwarding; w: only permit-port-forwarding;
            # z: no option at all (options decode to the EMPTY dictionary); c: critical options only
            y=ca.generate_user_certificate(key, 'user', principals=['user'], permit_port_forwarding=True),
            x=ca.generate_user_certificate(key, 'user', principals=['user'], permit_port_forwarding=False),
            w=ca.generate_user_certificate(key, 'user', principals=['user'], permit_port_forwarding=True, **none),
            z=ca.generate_user_certificate(key, 'user', principals=['user'], permit_port_forwarding=False, **none),
            c=ca.generate_user_certificate(key, 'user', principals=['user'], permit_port_forwarding=False,
                                           force_command='true', source_address=['127.0.0.0/8'], **none))
    return _KEYS


PO_SETS: List[List[Tuple[str, Optional[int]]]] = [
    [],
    [('a.example', 80)],
    [('a.example', None)],
    [('a.example', 80), ('b.example', 9)],
    [('::1', 80)],
    [('A.example', 80)],
    [('LOOP', None)],          # LOOP is replaced by 127.0.0.1 (the real destination host)
    [('c.example', 0), ('a.example', 81)],
]
DT_DESTS = [('a.example', 80), ('a.example', 81), ('b.example', 9), ('A.example', 80), ('::1', 80),
            ('c.example', 0), ('a.example.', 80), ('', 80)]


def po_text(po: List[Tuple[str, Optional[int]]]) -> str:
    out = []
    for h, p in po:
        h = '127.0.0.1' if h == 'LOOP' else h
        hh = f'[{h}]' if ':' in h else h
        out.append('permitopen="%s:%s"' % (hh, '*' if p is None else p))
    return ','.join(out)


def po_model(po: List[Tuple[str, Optional[int]]]) -> str:
    if not po:
        return '-'
    return ','.join('%s:%s' % (hx(('127.0.0.1' if h == 'LOOP' else h).encode()), '*' if p is None else p)
                    for h, p in po)


def spec_allows(kind: str, nopf: bool, cert: str, po: List[Tuple[str, Optional[int]]], host: str, port: int) -> bool:
    """OpenSSH's documented rule, written independently of the model: no-port-forwarding forbids everything, a
    certificate must carry permit-port-forwarding, and permitopen (if given) limits direct-tcpip opens to the
    listed host:port pairs, `*` matching any port; hosts are compared literally"""
    if nopf or cert in ('x', 'z', 'c'):      # a certificate without permit-port-forwarding, whatever else it has
        return False
    if kind == 'dt' and po:
        pos = [('127.0.0.1' if h == 'LOOP' else h, p) for h, p in po]
        return any(h == host and (p is None or p == port) for h, p in pos)
    return True


async def _stream_handler(reader: Any, writer: Any) -> None:
    writer.close()


async def perm_session(cfg: Tuple[bool, str, int], reqs: List[Tuple[str, str, int, bool]], tmp: str,
                       dest_port: int, dest_recs: List[Any]) -> List[Dict[str, Any]]:
    """run `reqs` = (kind, host_or_path, port, app_yes) in one authenticated session; returns observations"""
    nopf, cert, poi = cfg
    k = keys()
    opts = ','.join(x for x in (['no-port-forwarding'] if nopf else []) + ([po_text(PO_SETS[poi])] if PO_SETS[poi] else []))
    if cert == 'n':
        ak = (opts + ' ' if opts else '') + k['pub']
        ck: Any = [k['key']]
    else:
        ak = 'cert-authority' + (',' + opts if opts else '') + ' ' + k['capub']
        ck = [(k['key'], k[cert])]
    box: Dict[str, Any] = {'auth': True}
    try:
        c, s, hub = await pair.make_pair(server_factory=R.server_factory(box),
                                         server_opts=dict(authorized_client_keys=asyncssh.import_authorized_keys(ak)),
                                         client_opts=dict(client_keys=ck))
    except (asyncssh.Error, OSError) as e:
        # the credential was not accepted at all: every request is observed as such (never a harness crash)
        return [dict(kind=kind, host='127.0.0.1' if host == 'LOOP' else host, port=port, app=app,
                     verdict='auth-failed:' + type(e).__name__, asked=0, real=(host == 'LOOP'))
                for kind, host, port, app in reqs]
    out = []
    for kind, host, port, app in reqs:
        real = (host == 'LOOP')
        h = '127.0.0.1' if real else host
        if kind == 'dt':
            box['answer'] = (True if real else _stream_handler) if app else False
        elif kind == 'ds':
            box['answer'] = _stream_handler if app else False
        else:
            box['answer'] = (True if real else asyncssh.SSHListener()) if app else False
        box['asked'] = []
        n_dest = len(dest_recs)
        before_listen = (R.listening_tcp_ports(), R.listening_unix_paths()) if real else None
        verdict = 'error'
        obj: Any = None
        try:
            if kind == 'dt':
                _r, obj = await asyncio.wait_for(c.open_connection(h, dest_port if real else port), 2)
                verdict = 'created'
            elif kind == 'ds':
                _r, obj = await asyncio.wait_for(c.open_unix_connection(h), 2)
                verdict = 'created'
            elif kind == 'tf':
                obj = await asyncio.wait_for(c.create_server(lambda *_a: _stream_handler, h, port), 2)
                verdict = 'created'
            else:
                path = os.path.join(tmp, h) if real else h
                obj = await asyncio.wait_for(c.create_unix_server(lambda *_a: _stream_handler, path), 2)
                verdict = 'created'
        except asyncssh.ChannelOpenError as e:
            verdict = {1: 'prohibited', 2: 'refused'}.get(e.code, 'code%d' % e.code)
        except asyncssh.ChannelListenError:
            verdict = 'refused' if box['asked'] else 'prohibited'
        except asyncio.TimeoutError:
            verdict = 'timeout'
        asked = 1 if box['asked'] else 0
        side: Dict[str, Any] = {}
        if real:
            await R.quiesce(6)
            if kind == 'dt':
                side['dest_connections'] = len(dest_recs) - n_dest
            else:
                now = (R.listening_tcp_ports(), R.listening_unix_paths())
                side['new_listeners'] = (len(now[0]) - len(before_listen[0])) + (len(now[1]) - len(before_listen[1]))
        out.append(dict(kind=kind, host=h, port=port, app=app, verdict=verdict, asked=asked, real=real, **side))
        try:
            if obj is not None:
                obj.close()
                if kind in ('tf', 'sf'):
                    await asyncio.wait_for(obj.wait_closed(), 1)
        except Exception:       # noqa: BLE001
            pass
        await R.quiesce(3)
    c.abort()
    await pair.settle(5)
    return out


def perm_requests(rng: Any, full: bool, extra: bool = False) -> List[Tuple[str, str, int, bool]]:
    reqs: List[Tuple[str, str, int, bool]] = []
    if extra:
        # addresses the socket layer would not take literally: ports above 65535, path names with a NUL inside
        # (the application answers these itself, no socket is made: only the decision is observed here; what
        # becomes of such a request when asyncssh makes the socket is the oracle's `address` cases)
        reqs.append(('dt', 'a.example', 65536 + 80, rng.random() < 0.8))
        reqs.append(('dt', rng.choice(['b.example', 'a.example']), rng.choice([65536, 70000, 2 ** 32 - 1]), True))
        reqs.append(('tf', 'a.example', rng.choice([65536, 65536 + 8080, 2 ** 31]), rng.random() < 0.8))
        reqs.append(('ds', '/tmp/verif-c20-x.sock\0.public', 0, rng.random() < 0.8))
        reqs.append(('ds', '\0verif-c20-abstract\0name', 0, True))
        reqs.append(('dt', 'a.example', 65535, True))
    dests = DT_DESTS if full else rng.sample(DT_DESTS, 4)
    for h, p in dests:
        reqs.append(('dt', h, p, rng.random() < 0.8))
    reqs.append(('dt', 'LOOP', 0, True))
    reqs.append(('dt', 'a.example', 80, False))
    reqs.append(('tf', 'LOOP', 0, True))
    reqs.append(('tf', 'a.example', 8080, rng.random() < 0.7))
    reqs.append(('tf', 'LOOP', 0, False))
    reqs.append(('ds', '/tmp/verif-c20-nonexistent.sock', 0, rng.random() < 0.7))
    reqs.append(('sf', 'LOOP', 0, True))
    reqs.append(('sf', '/tmp/verif-c20-dummy.sock', 0, rng.random() < 0.5))
    rng.shuffle(reqs)
    return reqs


async def run_perm_configs(configs: List[Tuple[bool, str, int]], rng: Any, base_tmp: str, full: bool,
                           extra: bool = False) -> List[Any]:
    loop = asyncio.get_event_loop()
    recs: List[R.Rec] = []
    dest = await loop.create_server(lambda: R.Rec(recs), '127.0.0.1', 0)
    dport = dest.sockets[0].getsockname()[1]
    out = []
    for i, cfg in enumerate(configs):
        tmp = os.path.join(base_tmp, 'p%d' % i)
        os.makedirs(tmp, exist_ok=True)
        reqs = perm_requests(rng, full, extra)
        for j, r in enumerate(reqs):
            if r[0] == 'sf' and r[1] == 'LOOP':
                reqs[j] = ('sf', 'LOOP', 0, r[3])
        obs = await perm_session(cfg, reqs, tmp, dport, recs)
        out.append((cfg, obs))
    dest.close()
    for r in recs:
        if r.t is not None:
            r.t.close()
    await R.quiesce(5)
    return out


def all_configs() -> List[Tuple[bool, str, int]]:
    return [(nopf, cert, poi) for nopf in (False, True) for cert in CERT_KINDS for poi in range(len(PO_SETS))]


CERT_KINDS = 'nywxzc'
CERT_DENIES = 'xzc'


def perm_model_line(cfg: Tuple[bool, str, int], o: Dict[str, Any]) -> str:
    nopf, cert, poi = cfg
    return 'perm %s %d %s %s %s %d %d' % (o['kind'], 1 if nopf else 0, cert, po_model(PO_SETS[poi]),
                                          hx(o['host'].encode()), 0 if o['kind'] in ('ds', 'sf') else o['port'],
                                          1 if o['app'] else 0)


def corr_perm(ctx: Ctx, res: CorrResult, hist: Hist) -> None:
    rng = ctx.subrng('perm')
    configs = all_configs()
    if ctx.tier == 'quick' and not ctx.escalated:
        configs = [(False, 'n', i) for i in range(len(PO_SETS))] + \
                  [(False, rng.choice('yw'), i) for i in rng.sample(range(len(PO_SETS)), 4)] + \
                  [(False, 'z', 0), (False, 'c', 0), (False, 'x', 0), (False, 'z', rng.randrange(1, len(PO_SETS)))] + \
                  rng.sample([c for c in configs if c[0] or c[1] in CERT_DENIES], 6)
    tmp = ctx.tmpdir()
    data = pair.run(run_perm_configs(configs, rng, tmp, ctx.tier != 'quick', extra=True), timeout=600)
    lines, expect, cases = [], [], []
    for cfg, obs in data:
        for o in obs:
            # the real-destination direct open asks for 127.0.0.1:<dest port>: the model is given port 0 and the
            # permitopen set only ever names that host with `*`, so the decision does not depend on the number
            lines.append(perm_model_line(cfg, o))
            expect.append('%s %d' % (o['verdict'], o['asked']))
            cases.append({'op': 'perm', 'no_port_forwarding': cfg[0], 'cert': cfg[1],
                          'permitopen': po_text(PO_SETS[cfg[2]]), **{k: o[k] for k in ('kind', 'host', 'port', 'app')}})
            hist.hit('perm:%s:%s' % (o['kind'], o['verdict']))
    out = yield (lines)
    for c, m, e in zip(cases, out, expect):
        res.cases += 1
        if m != e:
            res.disagreements.append(Disagreement(case=c, model=m, impl=e, name='correspondence:permission'))
    res.nontrivial += len(set(lines))
    res.samples.append({'line': lines[0], 'model': out[0], 'impl': expect[0]})


def corr_permitopen(ctx: Ctx, res: CorrResult, hist: Hist) -> None:
    """`_add_permitopen` through the public authorized_keys import"""
    rng = ctx.subrng('permitopen')
    k = keys()
    hosts = ['a.example', 'A.b', '::1', '[::1]', '[a]', '[', ']', '', 'a:b', '[a:b', '127.0.0.1', 'x y']
    ports = ['80', '*', '0', '65535', '65536', '-1', '+7', ' 80', '80 ', '08', '', 'x', '8x', '**', '1_0', '٣', '\t9']
    vals = []
    for _ in range(vol(ctx, 300, 3000)):
        h = rng.choice(hosts)
        p = rng.choice(ports)
        v = h + ':' + p if rng.random() < 0.9 else rng.choice([h, p, h + p, ':' + p, h + ':'])
        vals.append(v)
    vals += ['[::1]:80', 'a:*', 'a', ':', '::', '[]:1', 'a:b:c:9']
    lines, expect = [], []
    for v in vals:
        if '"' in v or '\\' in v or ',' in v or not v.isascii() or '_' in v:
            continue        # outside the parse model's alphabet (see ASSUMPTIONS)
        try:
            ak = asyncssh.import_authorized_keys('permitopen="%s" %s' % (v, k['pub']))
            opts = ak.validate(k['key'].convert_to_public(), '', '127.0.0.1')
            ((h, p),) = tuple(opts['permitopen'])
            e = '%s %s' % (hx(h.encode()), '*' if p is None else p)
        except ValueError:
            e = 'invalid'
        lines.append('permitopen ' + hx(v.encode()))
        expect.append(e)
        hist.hit('permitopen:' + ('invalid' if e == 'invalid' else 'parsed'))
    out = yield (lines)
    for l, m, e in zip(lines, out, expect):
        res.cases += 1
        if m != e:
            res.disagreements.append(Disagreement(case={'op': 'permitopen', 'line': l}, model=m, impl=e,
                                                  name='correspondence:permitopen-parse'))
    res.nontrivial += len(set(lines))


# ---------------------------------------------------------------------------
# leg D: listener tables of real connections


async def listener_history(ops: List[str], tmp: str) -> Tuple[List[str], int, Dict[str, Any]]:
    """ops over one connection:  rq<g> remote forward request (server table; g = application grants)
         rx<i> cancel remote listener i      lq local forward (client table)      ll<i> close local listener i
         Cc close the connection (client side)   Cx cut the link
         Rr race: remote request, link cut before the server has created the listener
         Rl race: local forward started, connection aborted before the listener exists
         uq<j><g> remote forward of UNIX path j (server table)   ux<i> cancel remote UNIX listener i
         ul<j> local forward of UNIX path j (client table)        uc<i> close local UNIX listener i
       events are `q<keyhex>:<port|u>:<granted>:<id>` `c<id>` `l<id>` `x<keyhex>:<port|u>` `C` (ids are the
       harness's; `renumber` maps them to the model's); UNIX keys are labels (ru<j> / lu<j>), not the real paths
       returns (model events for the table concerned, listening sockets left at the end, extra observations)"""
    base_tcp = R.listening_tcp_ports()
    box: Dict[str, Any] = {'answer': True}
    c, s, hub = await pair.make_pair(server_factory=R.server_factory(box))
    ev: List[str] = []
    remote: List[Any] = []
    local: List[Any] = []
    nid = 0
    ids_r: List[int] = []
    ids_l: List[int] = []
    uremote: List[Tuple[Any, int]] = []
    ulocal: List[Tuple[Any, int]] = []
    info: Dict[str, Any] = {}
    for op in ops:
        if c.is_closed() and op[0] not in 'CR':
            continue
        if op.startswith('rq'):
            g = op[2] == '1'
            box['answer'] = True if g else False
            ev.append('q%s:%d:%d:%d' % (hx(b'r%d' % nid), nid, 1 if g else 0, nid))
            try:
                l = await asyncio.wait_for(c.forward_remote_port('127.0.0.1', 0, '127.0.0.1', 9), 2)
                remote.append(l)
                ids_r.append(nid)
                ev.append('c%d' % nid)
            except asyncssh.ChannelListenError:
                remote.append(None)
                ids_r.append(nid)
            if g:
                nid += 1
        elif op.startswith('rx'):
            i = int(op[2:])
            if i < len(remote) and remote[i] is not None:
                remote[i].close()
                try:
                    await asyncio.wait_for(remote[i].wait_closed(), 1)
                except asyncio.TimeoutError:
                    info['cancel_timeout'] = True
                ev.append('x%s:%d' % (hx(b'r%d' % ids_r[i]), ids_r[i]))
                remote[i] = None
        elif op == 'lq':
            ev.append('q%s:%d:1:%d' % (hx(b'l%d' % nid), nid, nid))
            kind = nid % 3
            if kind == 0:
                l = await c.forward_local_port('127.0.0.1', 0, '127.0.0.1', 9)
            elif kind == 1:
                l = await c.forward_socks('127.0.0.1', 0)
            else:
                l = await c.forward_local_port('127.0.0.1', 0, '127.0.0.1', 9)
            local.append(l)
            ids_l.append(nid)
            ev.append('c%d' % nid)
            nid += 1
        elif op.startswith('ll'):
            i = int(op[2:])
            if i < len(local) and local[i] is not None:
                local[i].close()
                await asyncio.wait_for(local[i].wait_closed(), 1)
                ev.append('l%d' % ids_l[i])
                local[i] = None
        elif op.startswith('uq'):
            j, g = int(op[2]), op[3] == '1'
            box['answer'] = True if g else False
            ev.append('q%s:u:%d:%d' % (hx(b'ru%d' % j), 1 if g else 0, nid))
            try:
                l = await asyncio.wait_for(c.forward_remote_path(os.path.join(tmp, 'ru%d.sock' % j), '/nonexistent'), 2)
                uremote.append((l, j))
                ev.append('c%d' % nid)
            except asyncssh.ChannelListenError:
                uremote.append((None, j))
            if g:
                nid += 1
        elif op.startswith('ux'):
            i = int(op[2:])
            if i < len(uremote) and uremote[i][0] is not None:
                l, j = uremote[i]
                l.close()
                try:
                    await asyncio.wait_for(l.wait_closed(), 1)
                except (asyncio.TimeoutError, asyncssh.Error):
                    info['cancel_timeout'] = True
                ev.append('x%s:u' % hx(b'ru%d' % j))
                uremote[i] = (None, j)
        elif op.startswith('ul'):
            j = int(op[2])
            ev.append('q%s:u:1:%d' % (hx(b'lu%d' % j), nid))
            try:
                if j % 2:
                    l = await c.forward_local_path_to_port(os.path.join(tmp, 'lu%d.sock' % j), '127.0.0.1', 9)
                else:
                    l = await c.forward_local_path(os.path.join(tmp, 'lu%d.sock' % j), '/nonexistent')
                ulocal.append((l, nid))
                ev.append('c%d' % nid)
            except OSError:
                ulocal.append((None, nid))
            nid += 1
        elif op.startswith('uc'):
            i = int(op[2:])
            if i < len(ulocal) and ulocal[i][0] is not None:
                l, lid = ulocal[i]
                l.close()
                await asyncio.wait_for(l.wait_closed(), 1)
                ev.append('l%d' % lid)
                ulocal[i] = (None, lid)
        elif op == 'Cc':
            c.close()
            try:
                await asyncio.wait_for(c.wait_closed(), 1)
            except asyncio.TimeoutError:
                c.abort()
            await R.wait_until(lambda: s.is_closed())
            ev.append('C')
        elif op == 'Cx':
            hub.cut_transport()
            await R.wait_until(lambda: s.is_closed() and c.is_closed())
            ev.append('C')
        elif op == 'Rr':
            box['answer'] = True
            hub.auto = False
            t = asyncio.ensure_future(c.forward_remote_port('127.0.0.1', 0, '127.0.0.1', 9))
            await R.quiesce(4)
            hub.deliver(pair.C2S)              # the server reads the request and starts the creation task
            hub.cut_transport()                # ... and loses the connection before the task has run
            try:
                await asyncio.wait_for(t, 1)
            except (asyncssh.Error, asyncssh.ChannelListenError, asyncio.TimeoutError, OSError):
                pass
            ev += ['q%s:%d:1:%d' % (hx(b'r%d' % nid), nid, nid), 'C', 'c%d' % nid]
            nid += 1
            await R.wait_until(lambda: s.is_closed() and c.is_closed())
        elif op == 'Rl':
            t = asyncio.ensure_future(c.forward_local_port('127.0.0.1', 0, '127.0.0.1', 9))
            hub.cut_transport()
            try:
                l = await asyncio.wait_for(t, 1)
                info['race_local_returned_listener'] = l is not None
            except (asyncssh.Error, asyncssh.ChannelListenError, asyncio.TimeoutError, OSError) as e:
                info['race_local_raised'] = type(e).__name__
            ev += ['q%s:%d:1:%d' % (hx(b'l%d' % nid), nid, nid), 'C', 'c%d' % nid]
            nid += 1
            await R.wait_until(lambda: s.is_closed() and c.is_closed())
    return ev, len(base_tcp), info


def split_tables(ops: List[str], ev: List[str]) -> List[str]:
    return ev


async def run_listener_cases(cases: List[List[str]], base_tmp: str, expected: Optional[List[int]],
                             stop_after_leaks: int = 10 ** 9) -> List[Any]:
    out = []
    leaks = 0
    for i, ops in enumerate(cases):
        if leaks >= stop_after_leaks:
            break
        tmp = os.path.join(base_tmp, 'l%d' % i)
        os.makedirs(tmp, exist_ok=True)
        err0 = len(pair.LOOP_ERRORS)
        ev, base, info = await listener_history(ops, tmp)
        want = expected[i] if expected is not None else None

        def count() -> int:
            return len(R.listening_tcp_ports()) - base + \
                len([p for p in R.listening_unix_paths() if p.startswith(tmp)])
        if any(o in ('Rr', 'Rl') for o in ops):
            # a creation task may still be in flight (executor thread): give it the full bounded wait to show up
            await R.wait_until(lambda: count() > 0)
            await R.quiesce(4)
        else:
            await R.wait_until(lambda: count() == (want or 0))
        n = count()
        info['loop_errors'] = [(e.get('message'), type(e.get('exception')).__name__) for e in pair.LOOP_ERRORS[err0:]]
        leaks += 1 if n else 0
        out.append((ev, n, info))
        # do not let leaked listeners of one case disturb the next: baseline is re-read per case
    return out


LISTENER_CORPUS = [
    ['rq1', 'Cc'], ['rq1', 'rq1', 'rx0', 'Cx'], ['rq0', 'rq1', 'Cc'], ['lq', 'lq', 'll0', 'Cc'],
    ['lq', 'rq1', 'Cx'], ['Rr'], ['Rl'], ['rq1', 'Rr'], ['lq', 'Rl'], ['rq1', 'rx0', 'rq1', 'Cc'],
    # UNIX paths: the same path forwarded twice on one connection (the second request must not cost the first
    # listener its place in the table), forwarded again after a cancel, two different paths
    ['uq01', 'uq01', 'Cc'], ['uq01', 'uq01', 'ux1', 'Cx'], ['ul0', 'ul0', 'uc0', 'Cc'], ['ul1', 'ul1', 'Cx'],
    ['uq01', 'ux0', 'uq01', 'Cc'], ['uq01', 'uq11', 'ul0', 'Cc'], ['uq00', 'uq01', 'Cx'], ['ul0', 'uc0', 'ul0', 'Cc'],
]


def gen_listener_case(rng: Any) -> List[str]:
    ops: List[str] = []
    nr = nl = nur = nul = 0
    for _ in range(rng.randrange(1, 6)):
        k = rng.random()
        if rng.random() < 0.3:
            # UNIX paths, two per table: repeats are frequent
            if k < 0.4:
                ops.append('uq%d%d' % (rng.randrange(2), 1 if rng.random() < 0.85 else 0))
                nur += 1
            elif k < 0.55 and nur:
                ops.append('ux%d' % rng.randrange(nur))
            elif k < 0.85:
                ops.append('ul%d' % rng.randrange(2))
                nul += 1
            elif nul:
                ops.append('uc%d' % rng.randrange(nul))
        elif k < 0.35:
            g = rng.random() < 0.8
            ops.append('rq%d' % (1 if g else 0))
            nr += 1
        elif k < 0.5 and nr:
            ops.append('rx%d' % rng.randrange(nr))
        elif k < 0.8:
            ops.append('lq')
            nl += 1
        elif nl:
            ops.append('ll%d' % rng.randrange(nl))
    ops.append(rng.choice(['Cc', 'Cx', 'Cc', 'Cx', 'Rr', 'Rl']))
    return ops


def model_listen_lines(ev: List[str], variant: str) -> List[str]:
    """the server's and the client's tables are separate: events with keys r* / ids of remote requests go to the
    server table, l* to the client table; cleanup goes to both"""
    srv, cli = [], []
    owner: Dict[str, str] = {}
    for e in ev:
        if e[0] == 'q':
            key = bytes.fromhex(e[1:].split(':')[0])
            idn = e[1:].split(':')[3]
            owner[idn] = 's' if key.startswith(b'r') else 'c'
            (srv if owner[idn] == 's' else cli).append(e)
        elif e[0] in 'cfl':
            (srv if owner.get(e[1:], 's') == 's' else cli).append(e)
        elif e[0] == 'x':
            srv.append(e)
        elif e == 'C':
            srv.append(e)
            cli.append(e)
    return ['listen %s %s' % (variant, ' '.join(renumber(srv))), 'listen %s %s' % (variant, ' '.join(renumber(cli)))]


def renumber(ev: List[str]) -> List[str]:
    """listener ids are per table in the model (0,1,2,... in request order of granted requests)"""
    mp: Dict[str, int] = {}
    out = []
    nxt = 0
    for e in ev:
        if e[0] == 'q':
            h, port, g, idn = e[1:].split(':')
            if g == '1':
                mp[idn] = nxt
                nxt += 1
            out.append('q%s:%s:%s' % (h, port, g))
        elif e[0] in 'cfl':
            out.append('%s%d' % (e[0], mp.get(e[1:], 9999)))
        else:
            out.append(e)
    return out


def count_listening(model_line: str) -> int:
    part = [p for p in model_line.split(' ') if p.startswith('listening=')][0][10:]
    return 0 if part == '-' else len(part.split(','))


def corr_listen(ctx: Ctx, res: CorrResult, hist: Hist) -> None:
    rng = ctx.subrng('listen')
    cases = [list(c) for c in LISTENER_CORPUS] + [gen_listener_case(rng) for _ in range(vol(ctx, 20, 250))]
    tmp = ctx.tmpdir()
    data = pair.run(run_listener_cases(cases, tmp, None), timeout=900)
    lines: List[str] = []
    for ev, _n, _info in data:
        for v in 'afr':
            lines += model_listen_lines(ev, v)
    out = yield (lines)
    impl, cs = [], []
    mods: Dict[str, List[int]] = {'a': [], 'f': [], 'r': []}
    for i, (ops, (ev, n, info)) in enumerate(zip(cases, data)):
        for k, v in enumerate('afr'):
            mods[v].append(count_listening(out[6 * i + 2 * k]) + count_listening(out[6 * i + 2 * k + 1]))
        impl.append(n)
        cs.append({'op': 'listeners', 'ops': ops, 'model_events': ev})
        for o in ops:
            hist.hit('listen:' + o[:2])
        # the histories the harness produces must be ones the theorems speak about (repaired variant)
        if ' legal=0' in out[6 * i + 2] + out[6 * i + 3]:
            res.disagreements.append(Disagreement(case=cs[-1], model='history not llegalRun for the repaired variant',
                                                  impl='produced by sequential API calls',
                                                  name='correspondence:listen-legality'))
    # (tried in this order: as it stood / with both repairs / with the creation-vs-cleanup repair only)
    _pick_variant('listen', cs, impl, mods, res, hist)
    res.cases += len(cases)
    res.nontrivial += len(set(tuple(c) for c in cases))
    res.samples.append({'ops': cases[5], 'model_lines': lines[30:32], 'model': out[30:32], 'impl_listening_left': impl[5]})


def corr_sockdest(ctx: Ctx, res: CorrResult, hist: Hist) -> None:
    """`sockDest` of the model against the socket layer itself: the port `getaddrinfo` returns for a numeric
    service (numbers below 2^31; larger ones it refuses), and the UNIX socket a `connect` to a name with a NUL
    inside reaches"""
    import socket
    rng = ctx.subrng('sockdest')
    ports = [0, 1, 22, 65535, 65536, 65536 + 22, 70000, 2 * 65536 + 5, 2 ** 31 - 1] + \
        [rng.randrange(2 ** 31) if rng.random() < 0.5 else rng.randrange(3 * 65536) for _ in range(vol(ctx, 40, 400))]
    lines, expect = [], []
    for p in ports:
        for kind, flags in (('dt', 0), ('tf', socket.AI_PASSIVE)):
            got = socket.getaddrinfo('127.0.0.1', p, family=socket.AF_INET, type=socket.SOCK_STREAM, flags=flags)[0][4]
            lines.append('sockdest %s %s %d' % (kind, hx(b'127.0.0.1'), p))
            expect.append('%s %d' % (hx(got[0].encode()), got[1]))
            hist.hit('sockdest:port-' + ('in-range' if p < 65536 else 'above-65535'))
    # UNIX: listening sockets are bound under every prefix of the name that can be bound; which one does a
    # connect to the full name reach?
    tmp = ctx.tmpdir()
    d = os.path.join(tmp, 'sd').encode() + b'/'
    os.makedirs(d.decode(), exist_ok=True)
    ab = b'\0verif-c20-%d-' % os.getpid()
    names = [(d, b'a.sock'), (d, b'a.sock\0.public'), (d, b'a\0b\0c'), (d, b'plain\0'), (ab, b'abs'),
             (ab, b'abs\0tail'), (ab, b'\0x\0')]
    for base, tail in names:
        name = base + tail
        bound: Dict[bytes, Any] = {}
        for k in range(1, len(tail) + 1):
            pre = base + tail[:k]
            if not pre.startswith(b'\0') and b'\0' in pre:
                continue        # a path name cannot be bound with a NUL inside either
            sk = socket.socket(socket.AF_UNIX, socket.SOCK_STREAM)
            try:
                sk.bind(pre)
                sk.listen(1)
                sk.setblocking(False)
                bound[pre] = sk
            except OSError:
                sk.close()
        cl = socket.socket(socket.AF_UNIX, socket.SOCK_STREAM)
        reached: Optional[bytes] = None
        try:
            cl.connect(name)
            for pre, sk in bound.items():
                try:
                    acc, _ = sk.accept()
                    acc.close()
                    reached = pre
                except BlockingIOError:
                    pass
        except (OSError, ValueError):
            reached = None
        cl.close()
        for pre, sk in bound.items():
            sk.close()
            if not pre.startswith(b'\0'):
                os.unlink(pre)
        lines.append('sockdest ds %s 0' % hx(name))
        expect.append('%s 0' % (hx(reached) if reached is not None else 'unreachable'))
        hist.hit('sockdest:unix-' + ('abstract' if name.startswith(b'\0') else
                                    ('nul-inside' if b'\0' in name else 'plain')))
    out = yield (lines)
    for l, m, e in zip(lines, out, expect):
        res.cases += 1
        if m != e:
            res.disagreements.append(Disagreement(case={'op': 'sockdest', 'line': l}, model=m, impl=e,
                                                  name='correspondence:socket-layer-address'))
    res.nontrivial += len(set(lines))


def correspondence(ctx: Ctx) -> CorrResult:
    res = CorrResult()
    hist = Hist()
    # every leg runs the implementation, yields its lines for the Lean driver and compares when it gets the
    # answers back: one driver run for all legs (starting the driver is the expensive part)
    legs = [leg(ctx, res, hist) for leg in (corr_socks, corr_relay, corr_dest, corr_sockdest, corr_permitopen,
                                            corr_perm, corr_listen)]
    batches = [list(next(g)) for g in legs]
    out = ctx.model(DRIVER, [l for b in batches for l in b])
    pos = 0
    for g, b in zip(legs, batches):
        try:
            g.send(out[pos:pos + len(b)])
        except StopIteration:
            pass
        pos += len(b)
    res.histogram = dict(hist)
    res.rule = ('SOCKS: seeded SOCKS4/4a/5 requests (+35% mutated, + corpus) in 4 chunking styles fed to the real '
                'SSHSOCKSForwarder, compared call by call (writes, close, forward(host, port), escaping exception, '
                'early data); relay: seeded event sequences (3/4 legal by the transport contract, 1/4 arbitrary) on '
                'the real SSHLocalPort/PathForwarder + SSHForwarder with recording transports, compared event by '
                'event, incl. the open raising another exception; destination side: the real forward_connection / '
                'forward_unix_connection on a stand-in connection (alive / lost while connecting) followed by legal '
                'events; sockDest against getaddrinfo and connects to UNIX names with NUL; '
                'permission: authenticated sessions for (no-port-forwarding x none/cert+/cert- x 8 permitopen '
                'sets) x 4 request kinds x destinations (incl. ports above 65535, NUL in path names, abstract names) x '
                'application answer, verdict and whether the application '
                'was asked; permitopen values through import_authorized_keys; listener tables of real connections '
                'incl. creation racing cleanup and UNIX paths forwarded twice (sockets left listening). '
                'distinct = distinct inputs per leg')
    return res


# ---------------------------------------------------------------------------
# oracle


def gen_script(rng: Any) -> List[str]:
    ops: List[str] = []
    held = rng.random() < 0.3
    if held:
        ops.append('hold')
    ops.append('connect')
    a_w = b_w = True
    a_open = b_open = True
    confirmed = not held
    for _ in range(rng.randrange(1, 9)):
        k = rng.random()
        if k < 0.28 and a_open and a_w:
            ops.append('aw%d' % rng.choice([1, 3, 17, 200, 4000, 20000]))
        elif k < 0.50 and b_open and b_w and confirmed:
            ops.append('bw%d' % rng.choice([1, 3, 17, 200, 4000, 20000]))
        elif k < 0.58 and a_open and a_w:
            ops.append('ae')
            a_w = False
        elif k < 0.66 and b_open and b_w and confirmed:
            ops.append('be')
            b_w = False
        elif k < 0.71 and a_open:
            ops.append('ac')
            a_open = False
        elif k < 0.76 and b_open and confirmed:
            ops.append('bc')
            b_open = False
        elif k < 0.79 and a_open:
            ops.append('ar')
            a_open = False
        elif k < 0.82 and b_open and confirmed:
            ops.append('br')
            b_open = False
        elif k < 0.90:
            if held:
                ops.append('release')
                held = False
                confirmed = True
            elif rng.random() < 0.5:
                ops.append('hold')
                held = True
        elif k < 0.93:
            ops.append('cut')
            break
        elif k < 0.95:
            ops.append('sclose')
            break
    if held:
        ops.append('release')
    return ops


SCRIPT_CORPUS = [
    ('local_port', ['connect', 'aw10', 'bw5', 'ae', 'bw7', 'bc']),
    ('local_path', ['connect', 'aw10', 'bw5', 'be', 'aw3', 'ac']),
    ('remote_port', ['hold', 'connect', 'aw300', 'ae', 'release', 'bw5', 'bc']),
    ('socks', ['hold', 'connect', 'aw20', 'release', 'bw5', 'be', 'aw1', 'ac']),
    ('local_port', ['connect', 'aw1', 'hold', 'ae', 'be', 'release', 'ac', 'bc']),       # EOFs cross on the link
    ('remote_path', ['connect', 'hold', 'be', 'ae', 'release']),
    ('local_port', ['hold', 'connect', 'aw10', 'ar', 'release']),                        # socket lost before confirm
    ('remote_port', ['hold', 'connect', 'aw10', 'ar', 'release', 'settle']),
    ('local_port', ['connect', 'aw10', 'cut']),
    ('remote_port', ['connect', 'bw10', 'sclose']),
    ('local_port_to_path', ['connect', 'aw10', 'bw5', 'br']),
]


def script_features(script: List[str]) -> Dict[str, bool]:
    feats = dict(early_abort=False, eof_crossing=False)
    # early abort: A's socket is reset/closed inside the hold window in which it connected
    if script and script[0] == 'hold' and 'connect' in script:
        for op in script[script.index('connect') + 1:]:
            if op == 'release':
                break
            if op in ('ar', 'ac'):
                feats['early_abort'] = True
    # EOF crossing: inside one hold window both ends finish their write side (EOF or close)
    win: Optional[set] = None
    for op in script:
        if op == 'hold':
            win = set()
        elif op == 'release':
            win = None
        elif win is not None:
            # (an abortive close of a UNIX socket is seen as EOF by the peer, like a plain close)
            if op in ('ae', 'ac', 'ar'):
                win.add('a')
            if op in ('be', 'bc', 'br'):
                win.add('b')
            if win == {'a', 'b'}:
                feats['eof_crossing'] = True
    # a connect made under hold also crosses with whatever A finishes before the release
    return feats


def expectations(script: List[str]) -> Dict[str, Any]:
    """reference semantics of one reliable full-duplex byte pipe with half-close between A and B"""
    must = {'a2b': 0, 'b2a': 0}        # number of leading bytes that must have arrived
    pend = {'a2b': 0, 'b2a': 0}
    frozen = {'a2b': False, 'b2a': False}
    held = False
    abortive = False
    eof_must = {'a2b': False, 'b2a': False}
    closed = {'a': False, 'b': False}
    for op in script:
        if op == 'hold':
            held = True
        elif op == 'release':
            held = False
            for d in must:
                if not frozen[d]:
                    must[d] += pend[d]
                pend[d] = 0
        elif op in ('cut', 'sclose'):
            abortive = True
            for d in must:
                frozen[d] = True
        elif op[:2] in ('aw', 'bw'):
            d = 'a2b' if op[0] == 'a' else 'b2a'
            n = int(op[2:])
            recv = 'b' if op[0] == 'a' else 'a'
            if closed[op[0]] or closed[recv]:
                frozen[d] = True
            if held:
                pend[d] += n
            elif not frozen[d]:
                must[d] += n
        elif op in ('ae', 'be'):
            d = 'a2b' if op[0] == 'a' else 'b2a'
            if not frozen[d] and not closed['b' if op[0] == 'a' else 'a']:
                eof_must[d] = True
        elif op in ('ac', 'bc', 'ar', 'br'):
            closed[op[0]] = True
            other = 'b2a' if op[0] == 'a' else 'a2b'      # data towards the closed end may be lost
            frozen[other] = True
            pend[other] = 0
            if op[1] == 'r':
                mine = 'a2b' if op[0] == 'a' else 'b2a'
                frozen[mine] = True
                pend[mine] = 0
                eof_must[mine] = False
    return dict(must=must, eof_must=eof_must, abortive=abortive, closed=closed)


def judge(kind: str, script: List[str], obs: Dict[str, Any]) -> List[Tuple[str, str]]:
    """property predicates on one observed scenario -> [(signature, description)]"""
    probs: List[Tuple[str, str]] = []
    if 'setup_error' in obs:
        return [('harness-setup:' + obs['setup_error'].split(':')[0], obs['setup_error'])]
    exp = expectations(script)
    feats = script_features(script)
    cause = 'socket-lost-before-channel-confirmed' if feats['early_abort'] else \
        ('eof-crossing' if feats['eof_crossing'] else 'other')
    a, b = obs.get('a'), obs.get('b')
    sa, sb = obs['sent_a'], obs['sent_b']
    if b is not None:
        if not sa.startswith(b['data']):
            probs.append(('relay-data-corrupted:a2b', f'B received bytes that A did not send in that order '
                                                     f'({len(b["data"])} received, {len(sa)} sent)'))
        elif len(b['data']) < min(exp['must']['a2b'], len(sa)):
            probs.append(('relay-data-lost:a2b', f'B received {len(b["data"])} of the {exp["must"]["a2b"]} bytes that '
                                                 f'had to arrive'))
    elif exp['must']['a2b'] > 0:
        probs.append(('relay-data-lost:a2b', 'the destination was never connected although data had to arrive'))
    if a is not None and b is not None:
        if not sb.startswith(a['data']):
            probs.append(('relay-data-corrupted:b2a', f'A received bytes that B did not send in that order '
                                                     f'({len(a["data"])} received, {len(sb)} sent)'))
        elif len(a['data']) < min(exp['must']['b2a'], len(sb)) and not a['closed']:
            probs.append(('relay-data-lost:b2a', f'A received {len(a["data"])} of the {exp["must"]["b2a"]} bytes that '
                                                 f'had to arrive'))
    if not exp['abortive']:
        if exp['eof_must']['a2b'] and b is not None and not (b['eof'] or b['lost']):
            probs.append(('eof-not-propagated:a2b', 'A shut down its write side but B saw neither EOF nor close'))
        if exp['eof_must']['b2a'] and a is not None and not a['closed'] and not (a['eof'] or a['lost']):
            probs.append(('eof-not-propagated:b2a', 'B shut down its write side but A saw neither EOF nor close'))
        # half-close must not tear the connection down: one end only shut down its write side, nobody closed
        closers = ('ac', 'ar', 'bc', 'br', 'cut', 'sclose')
        if not any(op in script for op in closers) and a is not None and b is not None:
            if 'ae' in script and 'be' not in script and b['lost']:
                probs.append(('half-close-closed-connection:a2b',
                              'A only shut down its write side but B lost the connection'))
            if 'be' in script and 'ae' not in script and a['lost']:
                probs.append(('half-close-closed-connection:b2a',
                              'B only shut down its write side but A lost the connection'))
    for key, who in (('b_after_a_gone', 'B'), ('a_after_b_gone', 'A')):
        o = obs.get(key)
        if o is not None and not (o['eof'] or o['lost']):
            probs.append((f'close-not-propagated:{cause}', f'one end went away but {who} saw neither EOF nor close'))
    if obs.get('released_while_connected') is False:
        probs.append((f'relay-sockets-leak:{cause}',
                      f'both ends are closed but {obs.get("extra_sockets_while_connected")} relayed socket(s) stay '
                      f'open for the rest of the SSH connection'))
    if obs.get('released_after_close') is False:
        probs.append(('sockets-left-after-connection-close',
                      f'{obs.get("left_after_close")} socket(s) of the forward remain after the SSH connection ended'))
    if obs.get('conn_closed_before_teardown') and not exp['abortive']:
        probs.append((f'ssh-connection-killed:{cause}', 'the SSH connection was closed by the forwarding code'))
    for msg, cls in obs.get('loop_errors', []):
        probs.append((f'loop-exception:{cls}', f'{msg} ({cls})'))
    return probs


def payload_fn(seed: str) -> Any:
    import random
    r = random.Random(seed)

    def f(n: int) -> bytes:
        return r.randbytes(n)
    return f


MAX_NEW_FAILING = 12        # the search stops once this many scripts failed with a signature not yet confirmed twice
MAX_REPEAT_FAILING = {'quick': 50, 'thorough': 250}    # ... or this many failed with signatures already confirmed
                                                        # on two other scripts (per tier)


async def eval_scenarios(cases: List[Tuple[str, List[str]]], base_tmp: str, label: str,
                         tier: str = 'quick') -> List[Any]:
    out = []
    failing_new = failing_repeat = 0
    confirmed: Dict[str, int] = {}          # signature -> scripts on which it was confirmed by 3 attempts
    for i, (kind, script) in enumerate(cases):
        if failing_new >= MAX_NEW_FAILING or failing_repeat >= MAX_REPEAT_FAILING[tier]:
            break
        tries = []
        for attempt in range(3):
            tmp = os.path.join(base_tmp, f'{label}{i}-{attempt}')
            os.makedirs(tmp, exist_ok=True)
            obs = await R.Scenario(kind, script, tmp, payload_fn(f'{label}{i}'), expectations(script)['must']).run()
            probs = judge(kind, script, obs)
            tries.append((probs, obs))
            if not probs:
                break
            if all(confirmed.get(sg, 0) >= 2 for sg, _ in probs):
                break       # nothing new: these signatures were already confirmed on two other scripts
        # a new problem counts only if every attempt shows it (guards against a slow wall clock)
        if all(t[0] for t in tries):
            sigs = set(s for s, _ in tries[0][0])
            for t in tries[1:]:
                sigs &= set(s for s, _ in t[0])
            probs = [(s, d) for s, d in tries[0][0] if s in sigs]
        else:
            probs = []
        if probs:
            if len(tries) == 3:
                failing_new += 1
                for sg, _ in probs:
                    confirmed[sg] = confirmed.get(sg, 0) + 1
            else:
                failing_repeat += 1
        out.append((kind, script, probs, tries[-1][1]))
    return out


async def big_early_data_case(tmp: str) -> Dict[str, Any]:
    """data beyond the channel window written before the channel is confirmed, then the local socket is reset"""
    loop = asyncio.get_event_loop()
    recs: List[R.Rec] = []
    dest = await loop.create_server(lambda: R.Rec(recs), '127.0.0.1', 0)
    dport = dest.sockets[0].getsockname()[1]
    c, s, hub = await pair.make_pair(server_factory=R.server_factory({'answer': True}))
    err0 = len(pair.LOOP_ERRORS)
    lst = await c.forward_local_port('127.0.0.1', 0, '127.0.0.1', dport)
    hub.auto = False
    a = await R.connect_raw(('127.0.0.1', lst.get_port()))
    n = 2 * 1024 * 1024 + 200 * 1024
    ok = await a.write(b'E' * n)
    await R.quiesce(10)
    a.reset()
    await R.quiesce(10)
    hub.auto = True
    hub.kick()
    await R.wait_until(lambda: c.is_closed() or (bool(recs) and len(recs[0].data) >= n), 0.2)
    await R.quiesce(10)
    obs = dict(wrote=ok, conn_closed=bool(c.is_closed()), dest_bytes=len(recs[0].data) if recs else 0,
               loop_errors=[(e.get('message'), type(e.get('exception')).__name__) for e in pair.LOOP_ERRORS[err0:]])
    del pair.LOOP_ERRORS[err0:]
    c.abort()
    for r in recs:
        if r.t is not None:
            r.t.close()
    dest.close()
    await R.quiesce(10)
    return obs


async def socks_socket_cases(cases: List[List[bytes]]) -> List[Any]:
    """malformed / generated SOCKS input through a real listener and real sockets (the server application accepts
    every destination with a stream handler, so no outside connection is attempted)"""
    c, s, hub = await pair.make_pair(server_factory=R.server_factory({'answer': _stream_handler}))
    lst = await c.forward_socks('127.0.0.1', 0)
    out = []
    for chunks in cases:
        err0 = len(pair.LOOP_ERRORS)
        a = await R.connect_raw(('127.0.0.1', lst.get_port()))
        for ch in chunks:
            if ch:
                await a.write(ch)
            await R.quiesce(3)
        await R.quiesce(6)
        a.pump()
        errs = [(e.get('message'), type(e.get('exception')).__name__) for e in pair.LOOP_ERRORS[err0:]]
        del pair.LOOP_ERRORS[err0:]
        out.append(dict(errors=errs, reply=bytes(a.data), eof=a.eof, lost=a.lost))
        a.close()
    lst.close()
    c.abort()
    await R.quiesce(6)
    return out


def socks_reference(data: bytes) -> Optional[Tuple[str, int, bytes]]:
    """independent reading of RFC 1928 / SOCKS4 / SOCKS4a: a well-formed, acceptable CONNECT request at the start
    of `data` -> (host, port, bytes after the request); None when the request is malformed, incomplete, offers no
    'no authentication' method, or carries a field whose acceptance may depend on segmentation (NUL-terminated
    field longer than 255 bytes)"""
    import ipaddress
    if len(data) < 2:
        return None
    if data[0] == 5:
        n = data[1]
        p = 2 + n
        if len(data) < p + 4 or 0 not in data[2:p]:
            return None
        if data[p:p + 3] != b'\x05\x01\x00':
            return None
        at = data[p + 3]
        p += 4
        if at == 1 or at == 4:
            ln = 4 if at == 1 else 16
            if len(data) < p + ln + 2:
                return None
            host = str(ipaddress.ip_address(data[p:p + ln]))
            p += ln
        elif at == 3:
            if len(data) < p + 1:
                return None
            ln = data[p]
            p += 1
            if len(data) < p + ln + 2:
                return None
            try:
                host = data[p:p + ln].decode('utf-8')
            except UnicodeDecodeError:
                return None
            p += ln
        else:
            return None
        return host, (data[p] << 8) + data[p + 1], data[p + 2:]
    if data[0] == 4:
        if data[1] != 1 or len(data) < 9:
            return None
        port = (data[2] << 8) + data[3]
        ip = data[4:8]
        i = data.find(b'\0', 8)
        if i < 0 or i - 8 > 255:
            return None
        p = i + 1
        if ip[:3] == b'\0\0\0' and ip[3] != 0:
            j = data.find(b'\0', p)
            if j < 0 or j - p > 255:
                return None
            try:
                host = data[p:j].decode('utf-8')
            except UnicodeDecodeError:
                return None
            if host == '':
                return None          # (the parser then waits for a second string; not a well-formed request)
            return host, port, data[j + 1:]
        return str(ipaddress.ip_address(ip)), port, data[p:]
    return None


HOSTILE_HOSTS = ['x' * 64 + '.example', 'a..b', '.', '\x00', 'a\x00b', '-', 'xn--', 'a' * 300, '[::1', '::g', ' ']


async def hostile_host_cases(hosts: List[str]) -> List[Any]:
    """destination names the resolver rejects must fail the open, not the SSH connection (server forwards itself)"""
    out = []
    for via in ('direct', 'socks'):
        for host in hosts:
            c, s, hub = await pair.make_pair(server_factory=R.server_factory({'answer': True}))
            err0 = len(pair.LOOP_ERRORS)
            res = 'none'
            try:
                if via == 'direct':
                    _r, w = await asyncio.wait_for(c.open_connection(host, 9), 1)
                    res = 'opened'
                    w.close()
                else:
                    hb = host.encode()
                    if len(hb) > 255:
                        c.abort()
                        continue
                    lst = await c.forward_socks('127.0.0.1', 0)
                    a = await R.connect_raw(('127.0.0.1', lst.get_port()))
                    await a.write(R.socks5_request(host, 9))

                    def done() -> bool:
                        a.pump()
                        return a.eof or a.lost or c.is_closed()
                    await R.wait_until(done)
                    res = 'closed' if (a.eof or a.lost) else 'open'
                    a.close()
            except asyncssh.ChannelOpenError as e:
                res = 'refused:' + str(e.reason)[:40]
            except (asyncio.TimeoutError, OSError) as e:
                res = 'exc:' + type(e).__name__
            await R.quiesce(6)
            out.append(dict(via=via, host=host, result=res, client_closed=bool(c.is_closed()),
                            server_closed=bool(s.is_closed()),
                            loop_errors=[(e.get('message'), type(e.get('exception')).__name__)
                                         for e in pair.LOOP_ERRORS[err0:]]))
            del pair.LOOP_ERRORS[err0:]
            c.abort()
            await R.quiesce(4)
    return out


def oracle(ctx: Ctx) -> OracleResult:
    res = OracleResult()
    hist = Hist()
    rng = ctx.subrng('oracle')
    tmp = ctx.tmpdir()

    # (1) SOCKS: nothing may escape data_received, for any byte string in any chunking -------------------------
    cases: List[List[bytes]] = [list(c) for c in G.SOCKS_CORPUS]
    for s in ctx.suspects:
        if isinstance(s, dict) and s.get('op') == 'socks':
            cases.append([bytes.fromhex(c) for c in s['chunks']])
    for _ in range(vol(ctx, 3000, 50000)):
        b = G.gen_socks_request(rng) + bytes(rng.randrange(256) for _ in range(rng.choice([0, 0, 5])))
        if rng.random() < 0.6:
            b = G.mutate(rng, b)
        cases.append(G.chunkings(rng, b, rng.randrange(4)))
    seen: Dict[str, Any] = {}
    wrong = 0
    for ch in cases:
        line, exc, host_arg = G.run_socks_impl(ch)
        res.evaluations += 1
        hist.hit('socks-object:' + ('raises:' + exc if exc else 'ok'))
        ref = socks_reference(b''.join(ch))
        if ref is not None:
            # a well-formed request must be forwarded to exactly the requested destination, whatever the chunking
            status = line.rpartition(' ; ')[2].split(' ')
            got = (host_arg, int(status[2]), b'' if status[3] == '-' else bytes.fromhex(status[3])) \
                if status[0] == 'connect' else None
            hist.hit('socks-object:well-formed:' + ('served' if got == ref else 'NOT-served'))
            if got != ref:
                wrong += 1
                if wrong <= 3:
                    res.failures.append(Failure(
                        signature=('socks-request-not-served' if got is None else
                                   ('socks-early-data-wrong' if got[:2] == ref[:2] else 'socks-wrong-destination')),
                        what=f'SOCKS request {b"".join(ch)[:40].hex()}... in {len(ch)} chunk(s) asks for '
                             f'{ref[0][:30]!r}:{ref[1]} (+{len(ref[2])} bytes of data) but the forwarder '
                             + (f'opened {got[0][:30]!r}:{got[1]} with {len(got[2])} bytes of early data' if got
                                else f'ended as {status[0]}'),
                        replay={'kind': 'socks-ref', 'chunks': [c.hex() for c in ch]}))
        if exc and exc not in seen:
            # shrink: shortest prefix (single chunk) that still raises
            whole = b''.join(ch)
            small = whole
            for n in range(1, len(whole) + 1):
                if G.run_socks_impl([whole[:n]])[1] == exc:
                    small = whole[:n]
                    break
            seen[exc] = small
    sock_cases = [[seen[e]] for e in seen] + [list(c) for c in G.SOCKS_CORPUS[:6]] + \
        [G.chunkings(rng, G.mutate(rng, G.gen_socks_request(rng)), rng.randrange(4)) for _ in range(vol(ctx, 20, 200))]
    sock_out = pair.run(socks_socket_cases(sock_cases), timeout=600)
    loop_seen = set()
    for ch, o in zip(sock_cases, sock_out):
        res.evaluations += 1
        for _msg, cls in o['errors']:
            loop_seen.add(cls)
            hist.hit('socks-socket:loop-error:' + cls)
    for exc, small in seen.items():
        res.failures.append(Failure(
            signature=f'socks-exception-escapes:{exc}',
            what=f'SSHSOCKSForwarder.data_received({small.hex()}) raises {exc}'
                 + (' (seen as "Fatal error: protocol.data_received() call failed" by the event loop of a real '
                    'forward_socks listener)' if exc in loop_seen else ''),
            replay={'kind': 'socks', 'chunks': [small.hex()]}))
    for cls in loop_seen - set(seen):
        res.failures.append(Failure(signature=f'socks-exception-escapes:{cls}',
                                    what=f'{cls} reached the event loop from a forward_socks listener',
                                    replay={'kind': 'socks-socket'}))

    # (2) end-to-end forwards scripted from the four ends ---------------------------------------------------------
    scen: List[Tuple[str, List[str]]] = [(k, list(sc)) for k, sc in SCRIPT_CORPUS]
    for s in ctx.suspects:
        if isinstance(s, dict) and s.get('op') == 'relay':
            scen += scripts_from_relay_events(s['events'])
    for i in range(vol(ctx, 70, 2000)):
        scen.append((R.Scenario.KINDS[i % len(R.Scenario.KINDS)], gen_script(rng)))
    data = pair.run(eval_scenarios(scen, tmp, 's', ctx.tier), timeout=3000)
    reported: Dict[str, int] = {}
    for kind, script, probs, obs in data:
        res.evaluations += 1
        hist.hit('forward:' + kind)
        for op in script:
            hist.hit('forward-op:' + (op[:2] if op[0] in 'ab' else op))
        for sig, what in probs:
            hist.hit('forward-problem:' + sig)
            reported[sig] = reported.get(sig, 0) + 1
            if reported[sig] <= 2:
                res.failures.append(Failure(signature=sig, what=f'{kind} forward, script {" ".join(script)}: {what}',
                                            replay={'kind': 'scenario', 'forward': kind, 'script': script}))
    big = pair.run(big_early_data_case(tmp), timeout=120)
    res.evaluations += 1
    hist.hit('forward:big-early-data:' + ('conn-closed' if big['conn_closed'] else 'ok'))
    if big['conn_closed']:
        res.failures.append(Failure(
            signature='ssh-connection-killed:socket-lost-before-channel-confirmed',
            what='local client wrote 2.2 MB before the channel was confirmed and reset its socket: the flush of the '
                 'early data hits `assert self._transport is not None` in pause_reading and the whole SSH connection '
                 'is torn down',
            replay={'kind': 'big-early-data'}))
    for _msg, cls in big['loop_errors']:
        res.failures.append(Failure(signature=f'loop-exception:{cls}', what='big early data case', replay={'kind': 'big-early-data'}))
    hdata = pair.run(hostile_host_cases(HOSTILE_HOSTS), timeout=300)
    hrep = 0
    for o in hdata:
        res.evaluations += 1
        hist.hit('hostile-host:%s:%s' % (o['via'], 'conn-killed' if o['server_closed'] else 'refused-cleanly'))
        if o['server_closed'] or o['client_closed']:
            hrep += 1
            if hrep <= 2:
                res.failures.append(Failure(
                    signature='ssh-connection-killed:destination-host-rejected-by-resolver',
                    what=f'{o["via"]} open to host {o["host"][:20]!r}...: the name is rejected before any connection '
                         f'attempt (ValueError/UnicodeError from getaddrinfo), forward_connection only converts '
                         f'OSError, and the server tears down the whole SSH connection ({o["result"]})',
                    replay={'kind': 'hostile-host', 'via': o['via'], 'host': o['host']}))
        for _msg, cls in o['loop_errors']:
            res.failures.append(Failure(signature=f'loop-exception:{cls}', what=f'hostile host {o}',
                                        replay={'kind': 'hostile-host', 'via': o['via'], 'host': o['host']}))

    # (3) a request is served only if credential and application permit it ----------------------------------------
    prng = ctx.subrng('oracle-perm')
    configs = all_configs()
    if ctx.tier == 'quick' and not ctx.escalated:
        configs = [(False, prng.choice('nyw'), i) for i in range(len(PO_SETS))] + \
                  [(False, 'z', 0), (False, 'c', 0), (False, 'z', 6), (True, 'w', 0)] + \
                  prng.sample([c for c in configs if c[0] or c[1] in CERT_DENIES], 5)
    pdata = pair.run(run_perm_configs(configs, prng, tmp, ctx.tier != 'quick' or ctx.escalated), timeout=900)
    for cfg, obs in pdata:
        nopf, cert, poi = cfg
        for o in obs:
            res.evaluations += 1
            port = o['port']
            allowed = spec_allows(o['kind'], nopf, cert, PO_SETS[poi], o['host'], port)
            hist.hit('perm:%s:%s' % ('allowed' if allowed else 'denied', o['verdict']))
            desc = (f'{o["kind"]} to {o["host"]!r}:{port} with options [{"no-port-forwarding " if nopf else ""}'
                    f'{po_text(PO_SETS[poi])}] cert={cert} app={"yes" if o["app"] else "no"}')
            rep = {'kind': 'perm', 'cfg': [nopf, cert, poi], 'req': [o['kind'], 'LOOP' if o['real'] else o['host'], port, o['app']]}
            created = o['verdict'] == 'created'
            if created and not (allowed and o['app']):
                why = 'no-port-forwarding' if nopf else ('certificate' if cert in CERT_DENIES else
                                                        ('permitopen' if not allowed else 'application-refused'))
                res.failures.append(Failure(signature=f'forward-not-permitted:{o["kind"]}:{why}',
                                            what=f'request served although not permitted: {desc}', replay=rep))
            if not allowed and (o['asked'] or o.get('dest_connections') or o.get('new_listeners')):
                res.failures.append(Failure(signature=f'denied-request-had-effect:{o["kind"]}',
                                            what=f'denied request reached the application or created something: {desc} '
                                                 f'-> {o}', replay=rep))
            if allowed and o['app'] and not created and o['verdict'] != 'timeout':
                res.failures.append(Failure(signature=f'permitted-request-refused:{o["kind"]}',
                                            what=f'permitted request refused ({o["verdict"]}): {desc}', replay=rep))
            if not o['app'] and allowed and (o.get('dest_connections') or o.get('new_listeners')):
                res.failures.append(Failure(signature=f'refused-request-had-effect:{o["kind"]}',
                                            what=f'the application refused but something was created: {desc}', replay=rep))

    # (4) listeners are released when their connection ends --------------------------------------------------------
    lcases = [list(c) for c in LISTENER_CORPUS] + [gen_listener_case(rng) for _ in range(vol(ctx, 15, 200))]
    ldata = pair.run(run_listener_cases(lcases, tmp, [0] * len(lcases), stop_after_leaks=8), timeout=900)
    lrep: Dict[str, int] = {}
    for ops, (ev, n, info) in zip(lcases, ldata):
        res.evaluations += 1
        hist.hit('listeners:' + ('leak' if n else 'released'))
        if n:
            side = 'server' if 'Rr' in ops else ('client' if 'Rl' in ops else 'no-race')
            sig = f'listener-leak:created-after-cleanup:{side}' if side != 'no-race' else 'listener-leak:after-cleanup'
            twice = [t for t in ('uq0', 'uq1', 'ul0', 'ul1') if sum(1 for o in ops if o.startswith(t)) > 1]
            if side == 'no-race' and twice:
                sig = 'listener-leak:unix-path-forwarded-twice:' + ('server' if twice[0][1] == 'q' else 'client')
            lrep[sig] = lrep.get(sig, 0) + 1
            if lrep[sig] <= 2:
                res.failures.append(Failure(
                    signature=sig,
                    what=f'{n} listening socket(s) of the forward remain after the connection ended; history {ops}',
                    replay={'kind': 'listeners', 'ops': ops}))
        for _msg, cls in info.get('loop_errors', []):
            res.failures.append(Failure(signature=f'loop-exception:{cls}', what=f'listener history {ops}',
                                        replay={'kind': 'listeners', 'ops': ops}))
    # (5) several forwards on one connection ------------------------------------------------------------------------
    mcases = [(list(k), list(pr), cn) for k, pr, cn in MULTI_CORPUS] + \
        [gen_multi_case(rng) for _ in range(vol(ctx, 12, 200))]
    mdata = pair.run(multi_forward_cases(mcases), timeout=1500)
    mrep: Dict[str, int] = {}
    for (kinds_, probes_, cancel_), probs in zip(mcases, mdata):
        res.evaluations += 1
        hist.hit('multi-forward:%d:%s' % (len(kinds_), 'cancel' if cancel_ is not None else 'no-cancel'))
        for sig, what in probs:
            hist.hit('multi-forward-problem:' + sig)
            mrep[sig] = mrep.get(sig, 0) + 1
            if mrep[sig] <= 2:
                res.failures.append(Failure(signature=sig, what=what, replay={
                    'kind': 'multi-forward', 'kinds': kinds_, 'probes': probes_, 'cancel': cancel_}))
    # (6) edges of a forward's life (deterministic corpus, see _c20_cases.py) ------------------------------------------
    edata = pair.run(edge_cases(tmp), timeout=900)
    for grp, name, probs in edata:
        res.evaluations += 1
        hist.hit(f'edge:{grp}:' + ('problem' if probs else 'ok'))
        for sig, what, rep in probs:
            hist.hit('edge-problem:' + sig)
            res.failures.append(Failure(signature=sig, what=what, replay=rep))
    # the runner prints the first few failures: let them be of different root causes (first one failure per
    # signature family, then one per signature, then the rest; order within each group unchanged)
    fam_seen: set = set()
    sig_seen: set = set()
    first, second, rest = [], [], []
    for f in res.failures:
        fam = ':'.join(f.signature.split(':')[:2])
        if fam not in fam_seen:
            first.append(f)
        elif f.signature not in sig_seen:
            second.append(f)
        else:
            rest.append(f)
        fam_seen.add(fam)
        sig_seen.add(f.signature)
    res.failures = first + second + rest
    res.nontrivial = len(edata) + len(set(b''.join(c) for c in cases)) + len(set((k, tuple(s)) for k, s in scen)) + \
        sum(len(o) for _c, o in pdata) + len(set(tuple(c) for c in lcases))
    res.histogram = dict(hist)
    res.samples = [{'scenario': scen[4][0], 'script': scen[4][1], 'problems': data[4][2]},
                   {'listener_history': lcases[5], 'listening_left': ldata[5][1]}]
    res.rule = ('SOCKS byte strings (corpus + seeded + mutated, 4 chunkings) into the real parser object and through '
                'real sockets; forwards of 6 kinds (local/remote TCP and UNIX, SOCKS, TCP-to-UNIX) over loopback '
                'endpoints with seeded scripts of write/EOF/close/RST from both ends, link hold/release (data before '
                'confirmation, crossing events), link cut and connection close, each judged against a reliable '
                'full-duplex pipe (prefix/order, required delivery, EOF and close propagation, sockets released while '
                'connected and after close, no loop exception; a problem must show in 3 attempts); permission '
                'sessions judged against an independent statement of the OpenSSH rule; listener histories incl. '
                'creation racing cleanup and repeated UNIX paths judged by listening sockets left; deterministic edge '
                'cases on real sockets (3 attempts): requests for ports above 65535 / path names with NUL against an '
                'application policy about the address actually reached (+ controls that must be served), listen '
                'addresses the resolver rejects with a bystander forward, SSH link cut between the channel open and '
                'the destination connect (5 forward kinds), channel open ending in another exception (raising accept '
                'handler, malformed confirmation)')
    return res


# ---------------------------------------------------------------------------------------------------------
# (6) edge cases: a problem counts only if it shows in each of three attempts (guards against a slow wall clock)


async def edge_cases(base_tmp: str) -> List[Tuple[str, str, List[K.Problem]]]:
    out: List[Tuple[str, str, List[K.Problem]]] = []
    todo: List[Tuple[str, str, Any]] = \
        [('address', c, lambda t, c=c: K.address_case(c, t)) for c in K.ADDRESS_CASES] + \
        [('hostile-listen', f'{k}:{a[:12]}', lambda t, k=k, a=a: K.hostile_listen_case(k, a, t)) for k, a in K.HOSTILE_LISTEN] + \
        [('dest-race', c, lambda t, c=c: K.dest_race_case(c, t)) for c in K.DEST_RACE_CASES] + \
        [('open-raises', c, lambda t, c=c: K.open_raises_case(c, t)) for c in K.OPEN_RAISES_CASES]
    for i, (grp, name, fn) in enumerate(todo):
        probs: List[K.Problem] = []
        for attempt in range(3):
            tmp = os.path.join(base_tmp, 'edge%d-%d' % (i, attempt))
            os.makedirs(tmp, exist_ok=True)
            got = await fn(tmp)
            if attempt == 0:
                probs = got
            else:
                sigs = set(p[0] for p in got)
                probs = [p for p in probs if p[0] in sigs]
            if not probs:
                break
        out.append((grp, name, probs))
    return out


# ---------------------------------------------------------------------------------------------------------
# (5) several forwards on ONE connection: each listener leads to ITS destination, also after a sibling is cancelled

MULTI_KINDS = ['remote0', 'remote0', 'remoteN', 'local', 'socks']
MULTI_CORPUS = [(['remote0', 'remote0'], [0, 1, 0], 1), (['remote0', 'remote0', 'remote0'], [2, 0, 1], 2),
                (['remote0', 'local', 'remote0'], [0, 1, 2], 2), (['remote0', 'remoteN', 'remote0'], [0, 1, 2, 0], 0),
                (['local', 'local', 'socks'], [0, 1, 2], 1)]


def gen_multi_case(rng: Any) -> Tuple[List[str], List[int], Optional[int]]:
    kinds = [rng.choice(MULTI_KINDS) for _ in range(rng.choice([2, 2, 3, 4]))]
    probes = [rng.randrange(len(kinds)) for _ in range(rng.randint(len(kinds), len(kinds) + 2))]
    cancel = rng.choice([None, len(kinds) - 1, rng.randrange(len(kinds))])
    return kinds, probes, cancel


async def multi_forward_case(kinds: List[str], probes: List[int], cancel: Optional[int]) -> List[Tuple[str, str]]:
    """[(signature, what)] -- every destination answers with its own tag, so a connection that comes out at the
    wrong destination (or nowhere) is visible to the connecting side"""
    probs: List[Tuple[str, str]] = []
    dests: List[Any] = []
    dports: List[int] = []
    hits: List[int] = [0] * len(kinds)

    def handler(i: int) -> Any:
        async def handle(reader: Any, writer: Any) -> None:
            hits[i] += 1
            try:
                writer.write(b'D%d:' % i)
                d = await asyncio.wait_for(reader.read(64), 2)
                writer.write(d)
                await writer.drain()
            except Exception:       # noqa: BLE001
                pass
            finally:
                writer.close()
        return handle
    for i in range(len(kinds)):
        srv = await asyncio.start_server(handler(i), '127.0.0.1', 0)
        dests.append(srv)
        dports.append(srv.sockets[0].getsockname()[1])
    box: Dict[str, Any] = {'answer': True}
    c, s, hub = await pair.make_pair(server_factory=R.server_factory(box))
    listeners: List[Any] = []
    try:
        for i, k in enumerate(kinds):
            if k == 'remote0':
                l = await asyncio.wait_for(c.forward_remote_port('127.0.0.1', 0, '127.0.0.1', dports[i]), 3)
            elif k == 'remoteN':
                free = _free_port()
                l = await asyncio.wait_for(c.forward_remote_port('127.0.0.1', free, '127.0.0.1', dports[i]), 3)
            elif k == 'local':
                l = await asyncio.wait_for(c.forward_local_port('127.0.0.1', 0, '127.0.0.1', dports[i]), 3)
            else:
                l = await asyncio.wait_for(c.forward_socks('127.0.0.1', 0), 3)
            listeners.append(l)

        async def probe(i: int, phase: str) -> None:
            want = b'D%d:ping%d' % (i, i)
            got = b''
            try:
                r, w = await asyncio.wait_for(asyncio.open_connection('127.0.0.1', listeners[i].get_port()), 2)
                if kinds[i] == 'socks':
                    w.write(R.socks5_request('127.0.0.1', dports[i]))
                    got_reply = await asyncio.wait_for(r.readexactly(R.SOCKS5_REPLY_LEN), 2)
                    if got_reply[:2] != b'\x05\x00':
                        got = b'<socks refused>'
                        raise ConnectionError('socks')
                w.write(b'ping%d' % i)
                while len(got) < len(want):
                    d = await asyncio.wait_for(r.read(64), 2)
                    if not d:
                        break
                    got += d
                w.close()
            except Exception as e:      # noqa: BLE001
                got = got or ('<%s>' % type(e).__name__).encode()
            if got != want:
                reached = [j for j in range(len(kinds)) if got.startswith(b'D%d:' % j)]
                sig = ('forward-reached-wrong-destination:' if reached else 'forward-reached-no-destination:') + \
                    kinds[i] + (':after-sibling-cancelled' if phase == 'after' else '')
                probs.append((sig, f'listener #{i} ({kinds[i]}) is configured for destination #{i}; a connection to it '
                                   f'got {got[:40]!r} instead of {want!r} ({phase} cancel of #{cancel}); forwards on '
                                   f'this connection: {kinds}'))
        for i in probes:
            await probe(i, 'before')
        if cancel is not None:
            listeners[cancel].close()
            try:
                await asyncio.wait_for(listeners[cancel].wait_closed(), 2)
            except Exception:       # noqa: BLE001
                pass
            await R.quiesce()
            for i in range(len(kinds)):
                if i != cancel:
                    await probe(i, 'after')
    except Exception as e:      # noqa: BLE001
        probs.append(('multi-forward-setup-failed:' + type(e).__name__, f'{kinds}: {e}'))
    finally:
        for l in listeners:
            try:
                l.close()
            except Exception:       # noqa: BLE001
                pass
        c.abort()
        s.abort()
        for d in dests:
            d.close()
        await R.quiesce()
    return probs


def _free_port() -> int:
    import socket
    sk = socket.socket()
    sk.bind(('127.0.0.1', 0))
    p = sk.getsockname()[1]
    sk.close()
    return p


async def multi_forward_cases(cases: List[Tuple[List[str], List[int], Optional[int]]]) -> List[List[Tuple[str, str]]]:
    return [await multi_forward_case(*c) for c in cases]


def scripts_from_relay_events(events: List[str]) -> List[Tuple[str, List[str]]]:
    """turn a relay-level disagreement into end-to-end scripts exercising the same order of events"""
    script: List[str] = ['hold', 'connect']
    released = False
    for t in events:
        if t == 'ok' and not released:
            script.append('release')
            released = True
        elif t.startswith('ds'):
            script.append('aw%d' % max(1, len(t) // 2 - 1))
        elif t.startswith('dc') and released:
            script.append('bw%d' % max(1, len(t) // 2 - 1))
        elif t == 'es':
            script.append('ae')
        elif t == 'ec' and released:
            script.append('be')
        elif t == 'ls':
            script.append('ar')
        elif t == 'lc' and released:
            script.append('bc')
    if not released:
        script.append('release')
    return [('local_port', script), ('remote_port', script)]


def replay(ctx: Ctx, rep: Dict[str, Any]) -> List[Failure]:
    r = rep.get('replay', rep)
    kind = r.get('kind')
    if kind == 'socks':
        chunks = [bytes.fromhex(c) for c in r['chunks']]
        _l, exc, _h = G.run_socks_impl(chunks)
        return [Failure(f'socks-exception-escapes:{exc}', f'data_received raises {exc}', r)] if exc else []
    if kind == 'socks-ref':
        chunks = [bytes.fromhex(c) for c in r['chunks']]
        line, _exc, host_arg = G.run_socks_impl(chunks)
        ref = socks_reference(b''.join(chunks))
        status = line.rpartition(' ; ')[2].split(' ')
        got = (host_arg, int(status[2]), b'' if status[3] == '-' else bytes.fromhex(status[3])) \
            if status[0] == 'connect' else None
        return [Failure('socks-wrong-destination', f'asked {ref}, got {got}', r)] if ref is not None and got != ref else []
    if kind == 'scenario':
        tmp = ctx.tmpdir()
        data = pair.run(eval_scenarios([(r['forward'], r['script'])], tmp, 'r'), timeout=120)
        return [Failure(sig, what, r) for sig, what in data[0][2]]
    if kind == 'multi-forward':
        probs = pair.run(multi_forward_case(r['kinds'], r['probes'], r['cancel']), timeout=120)
        return [Failure(sig, what, r) for sig, what in probs]
    if kind == 'big-early-data':
        big = pair.run(big_early_data_case(ctx.tmpdir()), timeout=120)
        return [Failure('ssh-connection-killed:socket-lost-before-channel-confirmed', str(big), r)] \
            if big['conn_closed'] else []
    if kind == 'hostile-host':
        o = [x for x in pair.run(hostile_host_cases([r['host']]), timeout=60) if x['via'] == r['via']]
        return [Failure('ssh-connection-killed:destination-host-rejected-by-resolver', str(o[0]), r)] \
            if o and (o[0]['server_closed'] or o[0]['client_closed']) else []
    if kind in ('address', 'hostile-listen', 'dest-race', 'open-raises'):
        return [Failure(sig, what, r) for sig, what, _rep in K.replay(r, ctx.tmpdir())]
    if kind == 'listeners':
        data = pair.run(run_listener_cases([r['ops']], ctx.tmpdir(), [0]), timeout=120)
        n = data[0][1]
        return [Failure('listener-leak', f'{n} listening sockets left', r)] if n else []
    if kind == 'perm':
        import random
        cfg = (bool(r['cfg'][0]), r['cfg'][1], int(r['cfg'][2]))

        async def one() -> Any:
            loop = asyncio.get_event_loop()
            recs: List[R.Rec] = []
            dest = await loop.create_server(lambda: R.Rec(recs), '127.0.0.1', 0)
            o = await perm_session(cfg, [tuple(r['req'])], ctx.tmpdir(), dest.sockets[0].getsockname()[1], recs)   # type: ignore
            dest.close()
            return o
        o = pair.run(one(), timeout=60)[0]
        allowed = spec_allows(o['kind'], cfg[0], cfg[1], PO_SETS[cfg[2]], o['host'], o['port'])
        if o['verdict'] == 'created' and not (allowed and o['app']):
            return [Failure('forward-not-permitted', str(o), r)]
        if not allowed and o['asked']:
            return [Failure('denied-request-had-effect', str(o), r)]
        return []
    return []
