"""C12 — SFTP transfers reproduce the source bytes exactly or report failure.

Lean: Model/SftpIO.lean (the parallel-I/O scheduler as a nondeterministic machine), Props/C12.lean
(read_correct, write_correct, copy_correct_or_error, copy_short_source_raises, error_propagates, sparse_holes,
sparse_copy_exact, fileobj_offsets, the witnesses of the two repaired defects old_reader_zero_length_reply_corrupts /
old_copier_trailing_hole_truncated, and the gen_* theorems tying the integer expressions of sftp.py — regenerated
into Gen/C12.lean — to the model).
The two repairs (an error on an empty DATA reply; extending a sparse destination whose source ends in a hole) are
detected by the translator (Gen.C12.readerRejectsEmpty / copierExtendsSparse); read_correct and sparse_copy_exact
need them (they stop building if a repair is reverted), the model and the driver follow whichever the tree has.
Correspondence: the real _SFTPFileReader / _SFTPFileWriter / _SFTPFileCopier / SFTPClientFile driven against a
fake handler/fs whose replies are harness-controlled futures (the PRNG picks completion order, batch sizes,
short-read lengths, per-block errors); issued request sequence and result are compared with the Lean machine
run on the same schedule.  Plus end-to-end get/put/copy/open through a real in-process server that answers
short, late and out of order, compared with the model run on the observed reply log.
Oracle: destination bytes == source bytes on normal return, or an exception; never silent corruption.

After the model/code audit: the environment of a write is modelled in full (`WEvX`: a block may be answered with an
FX_EOF status, the kernel may accept only a part of it; `cev` for the copier's destination), `read()` to the end of
the file is modelled with its path choice (`fread`), consecutive writes of a file object tile the file in BYTES
(text mode: the encoded form).  Three repairs are detected by the translator (Gen.C12.writeEofIsError /
serverWritesAll / readToEndUsesReader); write_correct_live, copy_correct_any_status, sparse_copy_exact_any_status and
read_to_end_correct need them, the witnesses old_writer_eof_status_truncates / old_server_short_write_acknowledged /
old_copier_eof_status_truncates / old_read_to_end_short_reply_final keep the behaviour before the repairs.  The
oracle drives a real server whose destination files cannot grow past a limit (short write() of an unbuffered file),
that answers a WRITE with FX_EOF, that short-reads below the block size, whose attributes carry no size, and text
mode files (utf-8 non-ASCII, utf-16, utf-32) with consecutive write()/tell()/relative seek().  A short server-side
write inside get/put/copy (copier) has no counterpart in the copier model's replies: oracle only.
"""

from __future__ import annotations

import asyncio
import os
from typing import Any, Callable, Dict, List, Optional, Tuple

import asyncssh
from asyncssh import sftp as sftpmod

import pair
from vlib import (Ctx, CorrResult, OracleResult, Failure, Disagreement, Hist, hx, unhx)
import props._c12_translate as _tr

PROPERTY = 'C12'
MANIFEST = {
    'text': 'Lean 4 theorems about an executable model of asyncssh\'s parallel SFTP I/O scheduler as a '
            'nondeterministic machine: for EVERY completion order, batch split and short-read pattern (empty replies '
            'included: they raise) a read returns src[off:off+size] (read_correct), a write leaves pwrite(file, off, data) (write_correct), '
            'a non-sparse get/put/copy returns only with destination = source and raises when the source ends '
            'before its announced size (copy_correct_or_error, copy_short_source_raises; no hypothesis on c), any '
            'failed block makes the operation raise (error_propagates), sparse ranges land at their own offsets '
            '(sparse_holes) and a sparse copy is exact for every hole layout (sparse_copy_exact), the file '
            'object position is the POSIX one (fileobj_offsets) and consecutive writes tile the file in bytes of the '
            'encoded data (consecutive_writes_tile); a write returns only with the file = pwrite(data) whatever status '
            '(FX_EOF included) any block is answered with and however little of a block the kernel accepts '
            '(write_correct_live), copies likewise (copy_correct_any_status, sparse_copy_exact_any_status), read() to the '
            'end of the file returns everything up to EOF under short replies (read_to_end_correct). The model is tied to the '
            'code by a translator for the integer expressions (gen_* theorems re-proved every run) and by a '
            'differential run of the real reader/writer/copier/file object against harness-controlled futures; the '
            'property itself is evaluated on the real code incl. real sparse files and an out-of-order, '
            'short-reading in-process server.',
    'note': 'server-side application order of concurrent writes is modelled as completion order; the kernel\'s '
            'SEEK_DATA/SEEK_HOLE and the server\'s copy-data loop are exercised, not modelled; the two repaired '
            'defects are kept as Lean witnesses about the pre-fix model and as oracle signatures',
    'technique': 'Lean 4 proof by invariant over the reachable states of a nondeterministic scheduler machine + '
                 'AST translator for integer expressions + differential correspondence with controlled futures + '
                 'byte-equality oracle',
}
LEAN_PROPS = ['AsyncsshModel.Props.C12']
DRIVER = 'Drivers/C12.lean'
TRUSTED = [
    'asyncio.wait(FIRST_COMPLETED) returns a non-empty set of finished tasks; the model allows every split of '
    'completions into batches, the correspondence realises random ones',
    'a write answered FX_OK is applied whole by the server when its task completes (outstanding writes are disjoint); '
    'that the stock SFTPServer.write does write the whole block or raise is checked by the translator '
    '(Gen.C12.serverWritesAll, gen_writeLoop) and by the oracle with a destination that cannot grow',
    'os.SEEK_DATA/SEEK_HOLE of the kernel and the server-side copy-data loop are exercised by the oracle only',
]
ASSUMPTIONS = [
    'block_size >= 1 and max_requests >= 1 inside the scheduler (entry points replace non-positive values: '
    'gen_default_max_requests)',
    'the server is truthful: DATA replies carry bytes of the file at the requested offset, at most as many as '
    'requested (an empty reply is allowed: the reader raises on it)',
    'the source content does not change during a transfer (except where the oracle truncates it on purpose)',
    'the size announced in the source\'s attributes is its length (`total`, `_end()`); when the attributes carry no size '
    'or size 0 for a file with content the statement fails: known findings source-size-unannounced:*',
]

SIG_TRAILING_HOLE = 'sparse-copy:trailing-hole-dropped'
SIG_ZERO_READ = 'sftp-read:zero-length-data-reply-silent-hole'
SIG_EOF_ON_WRITE = 'eof-status-on-write-taken-for-end-of-file'
SIG_READ_TO_END = 'read-to-end:short-reply-to-single-request-final'
SIG_SHORT_WRITE = 'server-short-write-acknowledged'
SIG_NO_SIZE_COPY = 'source-size-unannounced:copied-as-empty'
SIG_NO_SIZE_READ = 'source-size-unannounced:read-to-end-empty'
SIG_REMOTE_COPY_SHORT = 'short-source-not-reported:remote-copy'
SIG_TEXT_POS = 'fileobj-position:text-write-not-advanced-by-encoded-bytes'

BLOCKS = [1, 2, 7, 16384]
MAXREQS = [1, 2, 3, 128]


def translate(ctx: Ctx) -> Dict[str, Any]:
    return _tr.translate(ctx)


_FLAGS: Dict[str, int] = {}


def flags() -> Dict[str, int]:
    """which of the two optional safety steps the tree being checked has (same detection as Gen/C12.lean)"""
    if not _FLAGS:
        try:
            info = _tr.generate()[1]
            _FLAGS.update(strict=int(info['reader_rejects_empty']), ext=int(info['copier_extends_sparse']),
                          eof=int(info.get('write_eof_is_error', False)), wall=int(info.get('server_writes_all', False)),
                          ter=int(info.get('read_to_end_uses_reader', False)))
        except Exception:
            _FLAGS.update(strict=0, ext=0, eof=0, wall=0, ter=0)
    return _FLAGS


# ---------------------------------------------------------------------------
# generators


def boundary_sizes(B: int, M: int, rng: Any) -> List[int]:
    k = rng.randint(2, 5)
    s = {0, 1, B - 1, B, B + 1, k * B - 1, k * B, k * B + 1, M * B - 1, M * B, M * B + 1, (M + 1) * B + 1}
    return sorted(x for x in s if x >= 0)


def content(rng: Any, n: int) -> bytes:
    """non-zero bytes with a position-dependent pattern (so that shifted or swapped blocks are visible)"""
    if n > 4096:
        seed = rng.randrange(0, 255)
        pat = bytes(range(1, 256))
        pat = pat[seed:] + pat[:seed]
        return (pat * (n // 255 + 1))[:n]          # period 255: blocks of 2^k bytes never line up
    return bytes(rng.randrange(1, 256) for _ in range(n))


def pick_case(rng: Any, small: bool) -> Tuple[int, int, int]:
    """(B, M, size) around block and request-count boundaries; `small` keeps lines for the model short"""
    while True:
        B = rng.choice(BLOCKS)
        M = rng.choice(MAXREQS)
        size = rng.choice(boundary_sizes(B, M, rng))
        if small and size > 50000:
            continue
        if size > 2200000:
            continue
        return B, M, size


# ---------------------------------------------------------------------------
# controlled futures: the environment of the real reader / writer / copier


class Entry:
    __slots__ = ('kind', 'off', 'arg', 'fut', 'req', 'noerr')

    def __init__(self, kind: str, off: int, arg: Any, fut: Any, req: Optional[Tuple[int, int]] = None):
        self.kind, self.off, self.arg, self.fut, self.req = kind, off, arg, fut, req
        self.noerr = False


class Ctl:
    def __init__(self) -> None:
        self.out: List[Entry] = []
        self.new: List[Entry] = []
        self.read_req: Dict[int, Tuple[int, int]] = {}

    def call(self, kind: str, off: int, arg: Any) -> Any:
        fut = asyncio.get_event_loop().create_future()
        e = Entry(kind, off, arg, fut)
        self.out.append(e)
        self.new.append(e)
        return fut

    def take_new(self) -> List[Entry]:
        n, self.new = self.new, []
        return n


class FakeHandler:
    """stands in for SFTPClientHandler under _SFTPFileReader / _SFTPFileWriter / SFTPClientFile"""

    def __init__(self, ctl: Ctl, file: bytearray, max_read_len: int = 1 << 22, max_write_len: int = 1 << 22,
                 immediate: bool = False, append: bool = False):
        self.ctl, self.file, self.immediate, self.append = ctl, file, immediate, append
        self.limits = sftpmod.SFTPLimits(0, max_read_len, max_write_len, 0)
        self.logger = None

    async def read(self, handle: bytes, offset: int, length: int) -> Tuple[bytes, bool]:
        if self.immediate:
            if offset < 0 or length < 0:
                sftpmod.UInt64(offset), sftpmod.UInt32(length)      # raises like the real encoder
            data = bytes(self.file[offset:offset + length])
            if not data:
                raise sftpmod.SFTPEOFError
            return data, False
        return await self.ctl.call('r', offset, length)

    async def write(self, handle: bytes, offset: int, data: bytes) -> int:
        if offset < 0:
            sftpmod.UInt64(offset)
        if not self.immediate:
            await self.ctl.call('w', offset, bytes(data))     # raises when the reply is an error / EOF status
        if self.append:
            self.file += data
        else:
            pwrite(self.file, offset, data)          # the server applied the write and answered FX_OK
        return len(data)

    async def fstat(self, handle: bytes, flags: int = 0) -> Any:
        return sftpmod.SFTPAttrs(size=len(self.file))

    async def close(self, handle: bytes) -> None:
        return None


def pwrite(buf: bytearray, off: int, data: bytes) -> None:
    if not data:
        return
    if off > len(buf):
        buf += b'\0' * (off - len(buf))
    buf[off:off + len(data)] = data


class FakeSrcFile:
    def __init__(self, ctl: Ctl, ranges: List[Tuple[int, int]]):
        self.ctl, self.ranges = ctl, ranges

    async def read(self, size: int, offset: int) -> bytes:
        self.ctl.read_req[offset] = (offset, size)
        return await self.ctl.call('r', offset, size)

    async def request_ranges(self, offset: int, length: int) -> Any:
        for r in self.ranges:
            yield r

    async def close(self) -> None:
        return None


class FakeDstFile:
    def __init__(self, ctl: Ctl):
        self.ctl = ctl
        self.content = bytearray()

    async def write(self, data: bytes, offset: int) -> int:
        e_fut = self.ctl.call('w', offset, bytes(data))
        self.ctl.out[-1].req = self.ctl.read_req.pop(offset, None)
        self.ctl.out[-1].noerr = self.ctl.out[-1].req is None     # the extension write of a sparse copy
        n = await e_fut                          # raises when the reply is an error / EOF status
        pwrite(self.content, offset, data)
        return n

    async def close(self) -> None:
        return None


class FakeFS:
    limits = sftpmod.SFTPLimits(0, 1 << 22, 1 << 22, 0)

    def __init__(self, f: Any):
        self.f = f

    async def open(self, path: bytes, mode: str, block_size: int = -1) -> Any:
        return self.f


async def settle(n: int = 12) -> None:
    for _ in range(n):
        await asyncio.sleep(0)


ERRS = [lambda: sftpmod.SFTPFailure('injected'), lambda: OSError(5, 'injected'),
        lambda: sftpmod.SFTPPermissionDenied('injected')]


class Schedule:
    """What the environment does: either drawn from a PRNG (and recorded) or replayed from a record."""

    def __init__(self, rng: Any = None, record: Optional[List[List[Any]]] = None, perr: float = 0.0,
                 pshort: float = 0.5, mode: str = 'truthful'):
        self.rng, self.perr, self.pshort, self.mode = rng, perr, pshort, mode
        self.record: List[List[Any]] = [] if record is None else [list(b) for b in record]
        self.replaying = record is not None
        self.pos = 0
        self.zeroed = False

    def reply_read(self, src: bytes, off: int, size: int, eof_as_empty: bool) -> Tuple[str, bytes]:
        rng = self.rng
        avail = max(0, min(size, len(src) - off))
        if self.perr and rng.random() < self.perr:
            return 'x', b''
        if self.mode == 'malformed':
            r = rng.random()
            if r < 0.15:
                return 'd', b''                                   # zero-length DATA (F8 region)
            if r < 0.25 and avail:
                return 'e', b''                                   # EOF although data remains
            if r < 0.35:
                return 'd', src[off:off + size + rng.randint(1, 3)]   # more than asked
        if self.mode == 'zero-once' and not self.zeroed and avail and off > 0:
            self.zeroed = True
            return 'd', b''
        if avail == 0:
            return ('d', b'') if eof_as_empty else ('e', b'')
        c = avail if rng.random() >= self.pshort else rng.randint(1, avail)
        return 'd', src[off:off + c]

    def choose(self, out: List[Entry], src: bytes, eof_as_empty: bool) -> List[Tuple[Entry, str, bytes]]:
        if self.replaying:
            if self.pos >= len(self.record):
                return []
            res = []
            for kind, off, rk, data in self.record[self.pos]:
                for e in out:
                    if e.kind == kind and e.off == off and not any(e is x[0] for x in res):
                        res.append((e, rk, bytes.fromhex(data)))
                        break
            self.pos += 1
            return res
        rng = self.rng
        k = 1 if rng.random() < 0.5 else rng.randint(1, len(out))
        chosen = rng.sample(out, k)
        res = []
        for e in chosen:
            if e.kind == 'r':
                rk, data = self.reply_read(src, e.off, e.arg, eof_as_empty)
            else:
                rk, data = ('x', b'') if (self.perr and rng.random() < self.perr and not e.noerr) else ('o', b'')
                if rk == 'x' and rng.random() < 0.4:
                    rk = 'e'                     # the WRITE is answered with an FX_EOF status
            res.append((e, rk, data))
        self.record.append([[e.kind, e.off, rk, data.hex()] for e, rk, data in res])
        return res


def outcome_of(task: Any) -> str:
    try:
        r = task.result()
    except sftpmod.SFTPFailure as e:
        return 'short' if 'Unexpected EOF' in str(e) else 'raised'
    except (sftpmod.SFTPError, OSError):
        return 'raised'
    except asyncio.CancelledError:
        return 'cancelled'
    except Exception as e:
        return 'exc:' + type(e).__name__
    if isinstance(r, (bytes, bytearray)):
        return 'ok:' + hx(bytes(r))
    return 'ok'


def show_batch(reqs: List[Tuple[int, int]]) -> str:
    return ','.join(f'{o}:{s}' for o, s in sorted(reqs)) if reqs else '-'


async def drive(make: Callable[[], Any], ctl: Ctl, sched: Schedule, src: bytes, kind: str,
                tuple_reply: bool) -> Tuple[List[str], List[str], Any]:
    """Run the real coroutine against controlled futures.
    Returns (model event tokens, request batches as shown by the driver, finished task)."""
    task = asyncio.ensure_future(make())
    await settle()
    def reqs_of(new: List[Entry]) -> List[Tuple[int, int]]:
        if kind == 'write':
            return [(e.off, len(e.arg)) for e in new if e.kind == 'w']
        return [(e.off, e.arg) for e in new if e.kind == 'r']
    batches = [show_batch(reqs_of(ctl.take_new()))]
    events: List[str] = []
    for _ in range(100000):
        if task.done():
            break
        if not ctl.out:
            await settle(30)
            if task.done() or not ctl.out:
                break
        picks = sched.choose(ctl.out, src, eof_as_empty=(kind == 'copy'))
        if not picks:
            break
        finishing = False
        for e, rk, data in picks:
            ctl.out.remove(e)
            if e.fut.done():
                # the code under test gave this request up (cancelled it) before its reply came: nothing to answer;
                # recorded, so that model and oracle see a request that was never completed
                events.append(f'gone:{e.off}')
                continue
            if kind == 'copy' and e.kind == 'w' and e.req is None:
                e.fut.set_result(len(e.arg))       # the final extension write of a sparse copy: not a block
                continue
            if kind == 'copy' and e.kind == 'r':
                if rk == 'x':
                    req = ctl.read_req.get(e.off, (e.off, e.arg))
                    events.append(f'x:{req[0]}:{req[1]}')
                    finishing = True
                    e.fut.set_exception(ERRS[e.off % len(ERRS)]())
                else:
                    e.fut.set_result(data)           # the task goes on to write; not a model event yet
                continue
            if kind == 'copy':
                req = e.req or (e.off, len(e.arg))
                size, payload = req[1], e.arg
            elif kind == 'write':
                size, payload = len(e.arg), e.arg
            else:
                size, payload = e.arg, data
            finishing = True
            if rk == 'x':
                events.append(f'x:{e.off}:{size}')
                e.fut.set_exception(ERRS[e.off % len(ERRS)]())
            elif rk == 'e':
                events.append(f'e:{e.off}:{size}')
                e.fut.set_exception(sftpmod.SFTPEOFError())
            elif kind == 'write':
                events.append(f'o:{e.off}:{size}')
                e.fut.set_result(len(payload))
            elif kind == 'copy':
                events.append(f'd:{e.off}:{size}:{hx(payload)}')
                e.fut.set_result(len(payload))
            else:
                events.append(f'd:{e.off}:{size}:{hx(payload)}')
                e.fut.set_result((payload, False) if tuple_reply else payload)
        await settle()
        reqs = reqs_of(ctl.take_new())
        if finishing:
            events.append('b')
            batches.append(show_batch(reqs))
        elif reqs:
            batches.append('unexpected:' + show_batch(reqs))
    if not task.done():
        task.cancel()
        try:
            await task
        except BaseException:
            pass
    return events, batches, task


# ---- the four fake-driven experiments ------------------------------------------------------------


def run_reader(B: int, M: int, start: int, size: int, src: bytes, sched: Schedule) -> Tuple[str, str]:
    """returns (model line, implementation output)"""
    async def go() -> Tuple[str, str]:
        ctl = Ctl()
        h = FakeHandler(ctl, bytearray(src))
        ev, batches, task = await drive(
            lambda: sftpmod._SFTPFileReader(B, M, h, b'h', start, size).run(), ctl, sched, src, 'read', True)
        return (f'read {flags()["strict"]} {B} {M} {start} {size} ' + ' '.join(ev)).strip(), ';'.join(batches) + ' ' + outcome_of(task)
    return pair.run(go(), timeout=120)


def run_fread(block_size: int, max_read_len: int, M: int, off: int, size: int, src: bytes,
              sched: Schedule, to_end: Optional[int] = None) -> Tuple[str, str]:
    """`to_end`: None = read(size, off); -1 / 0 = read(-1, off) / read(offset=off) (to the end of the file; `size`
    must then be what `_end() - offset` gives: len(src) - off)"""
    async def go() -> Tuple[str, str]:
        ctl = Ctl()
        h = FakeHandler(ctl, bytearray(src), max_read_len=max_read_len)
        f = sftpmod.SFTPClientFile(h, b'h', False, None, 'strict', block_size, M)
        call = (lambda: f.read(size, off)) if to_end is None else \
            ((lambda: f.read(-1, off)) if to_end == -1 else (lambda: f.read(offset=off)))
        ev, batches, task = await drive(call, ctl, sched, src, 'read', True)
        rl = max_read_len if block_size == -1 else block_size
        te = int(to_end is not None)
        par = 'parallel' if (rl and ((flags()['ter'] and te) or size > min(rl, max_read_len))) else 'single'
        line = f'fread {flags()["strict"]} {flags()["ter"]} {te} {rl} {max_read_len} {M} {off} {size} ' + ' '.join(ev)
        if par == 'single':
            return line.strip(), 'single ' + batches[0] + ' ' + outcome_of(task)
        return line.strip(), 'parallel ' + ';'.join(batches) + ' ' + outcome_of(task)
    return pair.run(go(), timeout=120)


def run_writer(B: int, M: int, start: int, data: bytes, file0: bytes, sched: Schedule) -> Tuple[str, str, bytes]:
    async def go() -> Tuple[str, str, bytes]:
        ctl = Ctl()
        file = bytearray(file0)
        h = FakeHandler(ctl, file)
        ev, batches, task = await drive(
            lambda: sftpmod._SFTPFileWriter(B, M, h, b'h', start, data).run(), ctl, sched, b'', 'write', False)
        out = outcome_of(task)
        if out == 'ok':
            out = 'ok:' + hx(bytes(file))
        return (f'write {flags()["eof"]} {flags()["wall"]} {B} {M} {start} {hx(data)} {hx(file0)} ' + ' '.join(ev)).strip(), \
            ';'.join(batches) + ' ' + out, bytes(file)
    return pair.run(go(), timeout=120)


def run_copier(B: int, M: int, total: int, sparse: bool, ranges: List[Tuple[int, int]], src: bytes,
               sched: Schedule) -> Tuple[str, str, bytes]:
    async def go() -> Tuple[str, str, bytes]:
        ctl = Ctl()
        sf, df = FakeSrcFile(ctl, ranges), FakeDstFile(ctl)
        copied = [0]

        def progress(_s: bytes, _d: bytes, done: int, _total: int) -> None:
            copied[0] = done
        ev, batches, task = await drive(
            lambda: sftpmod._SFTPFileCopier(B, M, total, sparse, FakeFS(sf), FakeFS(df), b's', b'd', progress).run(),
            ctl, sched, src, 'copy', False)
        out = outcome_of(task)
        if out == 'ok':
            out = 'ok:' + hx(bytes(df.content))
        rs = ','.join(f'{o}:{l}' for o, l in ranges) if (sparse and ranges) else '-'
        return (f'copy {flags()["ext"]} {flags()["eof"]} {B} {M} {total} {int(sparse)} {rs} ' + ' '.join(ev)).strip(), \
            ';'.join(batches) + ' ' + out + f' copied={copied[0]}', bytes(df.content)
    return pair.run(go(), timeout=120)


# ---- SFTPClientFile position tracking ------------------------------------------------------------


def gen_fops(rng: Any, nasty: bool) -> List[Tuple[Any, ...]]:
    ops: List[Tuple[Any, ...]] = []
    for _ in range(rng.randint(1, 9)):
        r = rng.random()
        explicit = rng.randint(0, 14) if (nasty and rng.random() < 0.3) else None
        if r < 0.3:
            ops.append(('r', rng.choice([None, -1, 0, 1, 2, 3, 5, 9, 40]), explicit))
        elif r < 0.6:
            ops.append(('w', bytes(rng.randrange(1, 256) for _ in range(rng.choice([0, 1, 2, 3, 5, 8]))), explicit))
        elif r < 0.72:
            ops.append(('ss', rng.randint(-2 if nasty else 0, 14)))
        elif r < 0.82:
            ops.append(('sc', rng.randint(-6 if nasty else -2, 5)))
        elif r < 0.9:
            ops.append(('se', rng.randint(-6 if nasty else -3, 4)))
        else:
            ops.append(('t',))
    ops.append(('t',))
    return ops


TEXT_ENCODINGS = ['utf-8', 'utf-8', 'utf-16', 'utf-32', 'utf-16-le', 'latin-1']
TEXT_ALPHABET = ['a', 'Z', ' ', '\n', '\u00e9', '\u0142', '\u00ff', '\u8ee2', '\u9001', '\U0001f600']


def gen_text_ops(rng: Any, encoding: str) -> List[Tuple[Any, ...]]:
    """calls on a file opened in TEXT mode: mostly consecutive write(str) without offset, with tell() and relative
    seeks in between.  A write op is ('w', <encoded bytes>, None, <the str handed to write()>): the model and
    the POSIX reference get the bytes, the real file object the string."""
    alpha = [c for c in TEXT_ALPHABET if encoding != 'latin-1' or ord(c) < 256]
    ops: List[Tuple[Any, ...]] = []
    for _ in range(rng.randint(2, 8)):
        r = rng.random()
        if r < 0.65:
            n = rng.choice([0, 1, 1, 2, 3, 5, 9])
            text = ''.join(rng.choice(alpha) for _ in range(n))
            ops.append(('w', text.encode(encoding), None, text))
        elif r < 0.8:
            ops.append(('t',))
        elif r < 0.9:
            ops.append(('sc', rng.randint(-2, 3)))
        elif r < 0.95:
            ops.append(('se', rng.randint(-3, 2)))
        else:
            ops.append(('ss', rng.randint(0, 9)))
    ops.append(('t',))
    return ops


def fop_token(op: Tuple[Any, ...]) -> str:
    n = lambda v: 'n' if v is None else str(v)  # noqa: E731
    if op[0] == 'r':
        return f'r:{n(op[1])}:{n(op[2])}'
    if op[0] == 'w':
        return f'w:{hx(op[1])}:{n(op[2])}'
    if op[0] == 't':
        return 't'
    return f'{op[0]}:{op[1]}'


def run_fobj(appending: bool, block_size: int, max_len: int, content0: bytes,
             ops: List[Tuple[Any, ...]], encoding: Optional[str] = None) -> Tuple[str, str]:
    async def go() -> Tuple[str, str]:
        file = bytearray(content0)
        h = FakeHandler(Ctl(), file, max_read_len=max_len, max_write_len=max_len, immediate=True, append=appending)
        f = sftpmod.SFTPClientFile(h, b'h', appending, encoding, 'strict', block_size, 2)
        res = []
        for op in ops:
            try:
                if op[0] == 'r':
                    r = await (f.read(op[1], op[2]) if op[1] is not None else f.read(offset=op[2]))
                    res.append('b' + hx(r))
                elif op[0] == 'w':
                    res.append('n%d' % await f.write(op[3] if len(op) > 3 else op[1], op[2]))
                elif op[0] == 'ss':
                    res.append('n%d' % await f.seek(op[1]))
                elif op[0] == 'sc':
                    res.append('n%d' % await f.seek(op[1], 1))
                elif op[0] == 'se':
                    res.append('n%d' % await f.seek(op[1], 2))
                else:
                    res.append('n%d' % await f.tell())
            except OverflowError:
                res.append('exc')
            except Exception as e:
                res.append('exc:' + type(e).__name__)
        pos = await f.tell()
        rl = max_len if block_size == -1 else block_size
        line = f'fobj {int(appending)} {flags()["ter"]} {rl} {rl} {max_len} {hx(content0)} ' + ' '.join(fop_token(o) for o in ops)
        return line, ','.join(res) + ' ' + hx(bytes(file)) + ' ' + str(pos)
    return pair.run(go(), timeout=60)


def canon_fobj(line: str, out: str) -> str:
    """a write that raised may have been applied in part (blocks of the parallel writer): the file content after
    it is unspecified, so the comparison stops at that call"""
    ops = line.split(' ')[7:]
    parts = out.split(' ')
    rs = parts[0].split(',')
    for k, (o, r) in enumerate(zip(ops, rs)):
        if o.startswith('w:') and r.startswith('exc'):
            return ','.join(rs[:k + 1]) + ' * *'
    return out


# ---------------------------------------------------------------------------
# end to end: a real server that answers short, late, out of order, or with errors


class Behaviour:
    def __init__(self, rng: Any, pshort: float = 0.4, fail_read: Optional[int] = None,
                 fail_write: Optional[int] = None, lie_size: int = 0, ooo: bool = True,
                 eof_write: Optional[int] = None, fsize_limit: Optional[int] = None, hide_size: Optional[str] = None):
        self.rng, self.pshort, self.fail_read, self.fail_write, self.lie_size, self.ooo = \
            rng, pshort, fail_read, fail_write, lie_size, ooo
        self.eof_write = eof_write          # the n-th WRITE is answered with an FX_EOF status
        self.fsize_limit = fsize_limit      # files opened for writing cannot grow past this size (as RLIMIT_FSIZE / a
        #                                     full disk: the write() that crosses the limit is short, the next one fails)
        self.hide_size = hide_size          # 'none' / 'zero': the attributes of `src` carry no size / size 0
        self.nread = self.nwrite = 0
        self.readlog: List[Tuple[int, int, int]] = []       # (offset, size, returned) in completion order
        self.writelog: List[Tuple[int, int]] = []
        self.wevents: List[str] = []        # the writer model's events, in completion order
        self.faulted = False
        self.short_write: Optional[Tuple[int, int, int]] = None   # (offset, size, accepted) of the first short write()


class LimitedFile:
    """What `open(..., buffering=0)` gives, on a file system where the file cannot grow past `limit` bytes: the
    write() that crosses the limit writes the part that fits and returns that count, a write() at or past the
    limit raises (EFBIG under RLIMIT_FSIZE, ENOSPC/EDQUOT on a full disk / quota)."""

    def __init__(self, f: Any, limit: int, beh: Behaviour):
        self._f, self._limit, self._beh = f, limit, beh
        self.last_short: Optional[int] = None

    def write(self, data: Any) -> int:
        pos = self._f.tell()
        room = self._limit - pos
        if room <= 0 and len(data):
            raise OSError(27, 'File too large')
        if len(data) > room:
            self.last_short = room
            return self._f.write(bytes(data[:room]))
        return self._f.write(data)

    def __getattr__(self, name: str) -> Any:
        return getattr(self._f, name)


def server_factory(beh: Behaviour) -> Any:
    class Srv(sftpmod.SFTPServer):
        async def read(self, file_obj: Any, offset: int, size: int) -> bytes:   # type: ignore
            beh.nread += 1
            n = beh.nread
            for _ in range(beh.rng.choice([0, 0, 1, 2, 5])):
                await asyncio.sleep(0)
            if beh.fail_read is not None and n == beh.fail_read:
                beh.faulted = True
                raise sftpmod.SFTPFailure('injected read failure')
            data = super().read(file_obj, offset, size)
            if len(data) > 1 and beh.rng.random() < beh.pshort:
                data = data[:beh.rng.randint(1, len(data) - 1)]
            beh.readlog.append((offset, size, len(data)))
            return data

        async def write(self, file_obj: Any, offset: int, data: bytes) -> int:   # type: ignore
            beh.nwrite += 1
            n = beh.nwrite
            for _ in range(beh.rng.choice([0, 0, 1, 2, 5])):
                await asyncio.sleep(0)
            if beh.fail_write is not None and n == beh.fail_write:
                beh.faulted = True
                beh.wevents.append(f'x:{offset}:{len(data)}')
                raise sftpmod.SFTPFailure('injected write failure')
            if beh.eof_write is not None and n == beh.eof_write:
                beh.faulted = True
                beh.wevents.append(f'e:{offset}:{len(data)}')
                raise sftpmod.SFTPEOFError('')
            if isinstance(file_obj, LimitedFile):
                file_obj.last_short = None
                failed: Optional[OSError] = None
                r = 0
                try:
                    r = super().write(file_obj, offset, data)
                except OSError as exc:
                    failed = exc
                if file_obj.last_short is not None:      # the kernel accepted only a part of this block
                    beh.faulted = True
                    if beh.short_write is None:
                        beh.short_write = (offset, len(data), file_obj.last_short)
                    beh.wevents.append(f's:{offset}:{len(data)}:{file_obj.last_short}')
                elif failed is not None:
                    beh.faulted = True
                    beh.wevents.append(f'x:{offset}:{len(data)}')
                else:
                    beh.writelog.append((offset, len(data)))
                    beh.wevents.append(f'o:{offset}:{len(data)}')
                if failed is not None:
                    raise failed
                return r
            beh.writelog.append((offset, len(data)))
            beh.wevents.append(f'o:{offset}:{len(data)}')
            return super().write(file_obj, offset, data)

        def open(self, path: bytes, pflags: int, attrs: Any) -> Any:
            f = super().open(path, pflags, attrs)
            if beh.fsize_limit is not None and (pflags & sftpmod.FXF_WRITE):
                return LimitedFile(f, beh.fsize_limit, beh)
            return f

        def _lie(self, attrs: Any, path: bytes) -> Any:
            if (beh.lie_size or beh.hide_size) and path.endswith(b'src'):
                attrs = sftpmod.SFTPAttrs.from_local(attrs) if not isinstance(attrs, sftpmod.SFTPAttrs) else attrs
                if beh.hide_size:
                    attrs.size = None if beh.hide_size == 'none' else 0
                else:
                    attrs.size = (attrs.size or 0) + beh.lie_size
            return attrs

        def fstat(self, file_obj: Any) -> Any:
            attrs = super().fstat(file_obj)
            name = getattr(file_obj, 'name', b'')
            if beh.hide_size and isinstance(name, bytes) and name.endswith(b'src'):
                attrs = sftpmod.SFTPAttrs.from_local(attrs)
                attrs.size = None if beh.hide_size == 'none' else 0
            return attrs

        def stat(self, path: bytes) -> Any:
            return self._lie(super().stat(path), path)

        def lstat(self, path: bytes) -> Any:
            return self._lie(super().lstat(path), path)
    return Srv


async def _ooo_recv_packets(self: Any) -> None:
    """SFTPServerHandler.recv_packets with READ/WRITE requests served concurrently (replies out of order)."""
    try:
        while self._reader:
            packet = await self.recv_packet()
            pkttype = packet.get_byte()
            pktid = packet.get_uint32()
            self.log_received_packet(pkttype, pktid, packet)
            if pkttype in (sftpmod.FXP_READ, sftpmod.FXP_WRITE):
                asyncio.ensure_future(self._process_packet(pkttype, pktid, packet))
            else:
                await self._process_packet(pkttype, pktid, packet)
    except sftpmod.PacketDecodeError as exc:
        await self._cleanup(sftpmod.SFTPBadMessage(str(exc)))
    except EOFError:
        await self._cleanup(None)
    except (OSError, sftpmod.Error) as exc:
        await self._cleanup(exc)


class ServerMode:
    """patch the (environment-side) server handler for the duration of a run"""

    def __init__(self, ooo: bool, remote_copy: bool):
        self.ooo, self.remote_copy = ooo, remote_copy

    def __enter__(self) -> None:
        H = sftpmod.SFTPServerHandler
        self.saved_ext = H._extensions
        self.had = 'recv_packets' in H.__dict__
        if self.ooo:
            H.recv_packets = _ooo_recv_packets           # type: ignore
        if not self.remote_copy:
            H._extensions = [e for e in H._extensions if e[0] != b'copy-data']

    def __exit__(self, *a: Any) -> None:
        H = sftpmod.SFTPServerHandler
        H._extensions = self.saved_ext
        if self.ooo and not self.had:
            del H.recv_packets


def write_file(path: str, data: bytes) -> None:
    with open(path, 'wb') as f:
        f.write(data)


def read_file(path: str) -> Optional[bytes]:
    try:
        with open(path, 'rb') as f:
            return f.read()
    except FileNotFoundError:
        return None


def make_sparse(path: str, extents: List[Tuple[int, bytes]], length: int) -> bytes:
    with open(path, 'wb') as f:
        for off, data in extents:
            f.seek(off)
            f.write(data)
        f.truncate(length)
    return read_file(path) or b''


def real_ranges(path: str, limit: int) -> List[Tuple[int, int]]:
    res = []
    with open(path, 'rb') as f:
        end = 0
        try:
            while end < limit:
                s = f.seek(end, os.SEEK_DATA)
                end = min(f.seek(s, os.SEEK_HOLE), limit)
                res.append((s, end - s))
        except OSError:
            pass
    return res


async def e2e(op: str, d: str, src: bytes, B: int, M: int, beh: Behaviour, sparse: bool = False,
              remote_copy: bool = True, extents: Optional[List[Tuple[int, bytes]]] = None,
              length: Optional[int] = None, truncate_to: Optional[int] = None,
              off: int = 0, size: int = -1, file0: bytes = b'', texts: Optional[List[str]] = None,
              encoding: Optional[str] = None) -> Dict[str, Any]:
    """One end-to-end operation in directory d.  Returns outcome, destination bytes, source bytes."""
    sp, dp = os.path.join(d, 'src'), os.path.join(d, 'dst')
    if extents is not None:
        src = make_sparse(sp, extents, length or 0)
    else:
        write_file(sp, src)
    res: Dict[str, Any] = {'src': src}
    with ServerMode(beh.ooo, remote_copy):
        c, s, hub = await pair.make_pair(server_opts=dict(sftp_factory=server_factory(beh)))
        try:
            async with c.start_sftp_client() as sftp:
                fired = [False]

                def progress(_s: Any, _d: Any, done: int, total: int) -> None:
                    if truncate_to is not None and not fired[0] and done:
                        fired[0] = True
                        os.truncate(sp, truncate_to)
                ph = progress if truncate_to is not None else None
                try:
                    if op in ('get', 'put', 'copy'):
                        fn = {'get': sftp.get, 'put': sftp.put, 'copy': sftp.copy}[op]
                        await asyncio.wait_for(fn(sp, dp, sparse=sparse, block_size=B, max_requests=M,
                                                  progress_handler=ph), 60)
                        res['dst'] = read_file(dp)
                    elif op == 'read':
                        async with sftp.open(sp, 'rb', block_size=B, max_requests=M) as f:
                            res['dst'] = await asyncio.wait_for(f.read(size, off), 60)
                    elif op == 'read_all':              # read() / read(-1): everything up to the end of the file
                        async with sftp.open(sp, 'rb', block_size=B, max_requests=M) as f:
                            if off:
                                await f.seek(off)
                            res['dst'] = await asyncio.wait_for(f.read() if size % 2 else f.read(-1), 60)
                            res['tell'] = await f.tell()
                    elif op == 'read_parallel':
                        async with sftp.open(sp, 'rb', block_size=B, max_requests=M) as f:
                            buf = bytearray()
                            async for o, data in await f.read_parallel(size, off):
                                pwrite(buf, o - off, data)
                            res['dst'] = bytes(buf)
                    elif op == 'write':
                        write_file(dp, file0)
                        async with sftp.open(dp, 'r+b', block_size=B, max_requests=M) as f:
                            await asyncio.wait_for(f.write(src, off), 60)
                        res['dst'] = read_file(dp)
                    elif op == 'write_text':            # consecutive write(str) calls on a file opened in text mode
                        kw = {} if encoding is None else {'encoding': encoding}
                        async with sftp.open(dp, 'w', block_size=B, max_requests=M, **kw) as f:
                            pos = 0
                            for t in texts or []:
                                pos += await asyncio.wait_for(f.write(t), 60)
                                if await f.tell() != pos:
                                    res['tell_mismatch'] = (await f.tell(), pos)
                        res['dst'] = read_file(dp)
                    res['outcome'] = 'ok'
                except asyncio.TimeoutError:
                    res['outcome'] = 'timeout'
                except (sftpmod.SFTPError, OSError) as e:
                    res['outcome'] = 'raised:' + type(e).__name__ + ':' + str(e)[:40]
                except Exception as e:
                    res['outcome'] = 'exc:' + type(e).__name__ + ':' + str(e)[:40]
        finally:
            c.abort()
            await pair.settle(10)
    return res


def expected_e2e(op: str, src: bytes, off: int, size: int, file0: bytes) -> bytes:
    if op == 'read_all':
        return src[off:]
    if op in ('read', 'read_parallel'):
        return src[off:] if size < 0 else src[off:off + size]
    if op == 'write':
        b = bytearray(file0)
        pwrite(b, off, src)
        return bytes(b)
    return src


# ---------------------------------------------------------------------------
# correspondence


def _case_stream(ctx: Ctx, rng: Any, n: int, small: bool, perr: float, mode: str = 'truthful') -> List[Dict[str, Any]]:
    cases = []
    for i in range(n):
        B, M, size = pick_case(rng, small)
        kind = ['read', 'write', 'copy', 'copy', 'fread'][i % 5]
        L = size if rng.random() < 0.7 else max(0, size + rng.choice([-3, -1, 1, 2, B]))
        start = rng.choice([0, 0, 1, B, 3 * B + 1]) if kind in ('read', 'write', 'fread') else 0
        cases.append(dict(kind=kind, B=B, M=M, size=size, L=L, start=start, seed=rng.randrange(1 << 30),
                          perr=perr if rng.random() < 0.3 else 0.0, mode=mode,
                          sparse=(kind == 'copy' and rng.random() < 0.4)))
        if kind == 'fread' and rng.random() < 0.5:
            cases[-1]['to_end'] = rng.choice([-1, 0])         # read(-1) / read(): to the end of the file
    return cases


def gen_ranges(rng: Any, total: int) -> List[Tuple[int, int]]:
    """increasing, disjoint data ranges inside [0,total) — a hole layout"""
    res, pos = [], 0
    while pos < total and len(res) < 6:
        gap = rng.choice([0, 0, 1, 2, 5, total // 4])
        ln = rng.choice([1, 2, 3, 7, total // 3 + 1])
        o = pos + gap
        if o >= total:
            break
        ln = min(ln, total - o)
        res.append((o, ln))
        pos = o + ln
        if rng.random() < 0.25:
            break
    if res and rng.random() < 0.75:                 # mostly: no trailing hole
        o, l = res[-1]
        res[-1] = (o, total - o)
    return res


def run_case(case: Dict[str, Any], record: Optional[List[List[Any]]] = None) -> Dict[str, Any]:
    """Execute one fake-driven case on the real code.  Returns model line, impl output, expectation."""
    import random
    rng = random.Random(case['seed'])
    src = content(rng, case['L'])
    sched = Schedule(rng, record, perr=case['perr'], mode=case['mode'])
    B, M, size, start = case['B'], case['M'], case['size'], case['start']
    out: Dict[str, Any] = {}
    if case['kind'] == 'read':
        line, impl = run_reader(B, M, start, size, src, sched)
        out['expect'] = src[start:start + size]
    elif case['kind'] == 'fread':
        bs = rng.choice([B, B, -1, 0])
        mrl = rng.choice([B, 2 * B, 1 << 22])
        to_end = case.get('to_end')
        if to_end is not None:
            start = min(start, len(src))
            size = len(src) - start              # what `_end() - offset` gives
        line, impl = run_fread(bs, mrl, M, start, size, src, sched, to_end)
        out['expect_prefix'] = src[start:start + size]
        out['to_end_with_block_size'] = to_end is not None and bs != 0
    elif case['kind'] == 'write':
        data = content(rng, size)
        file0 = content(rng, rng.choice([0, 0, 1, start, start + size + 2]))
        line, impl, _f = run_writer(B, M, start, data, file0, sched)
        b = bytearray(file0)
        pwrite(b, start, data)
        out['expect'] = bytes(b)
    else:
        sparse = case['sparse']
        ranges = gen_ranges(rng, size) if sparse else [(0, size)]
        if sparse:
            # a source consistent with its ranges: zero outside them
            sb = bytearray(len(src))
            for o, l in ranges:
                sb[o:o + l] = src[o:o + l]
            src = bytes(sb)
        line, impl, _d = run_copier(B, M, size, sparse, ranges, src, sched)
        out['expect'] = src[:size]
        out['ranges'] = ranges
        out['src_len'] = len(src)
    out.update(line=line, impl=impl, record=sched.record, src=src)
    return out


def correspondence(ctx: Ctx) -> CorrResult:
    res = CorrResult()
    hist = Hist()
    rng = ctx.subrng('corr')
    lines: List[str] = []
    expect: List[Tuple[str, Any, str]] = []

    # (1) structured, mostly valid stream: truthful server, random order / batches / short reads / errors
    cases = _case_stream(ctx, rng, ctx.n(900, 6000), small=True, perr=0.08)
    # (2) malformed stream: zero-length replies, early EOF, over-long replies
    cases += _case_stream(ctx, rng, ctx.n(200, 1500), small=True, perr=0.05, mode='malformed')
    for case in cases:
        r = run_case(case)
        lines.append(r['line'])
        expect.append((case['kind'], {k: v for k, v in case.items()}, r['impl']))
        hist.hit(f"{case['kind']}:{case['mode']}:B{case['B']}:M{case['M']}")
        hist.hit('outcome:' + r['impl'].rsplit(' ', 2 if case['kind'] == 'copy' else 1)[1].split(':')[0])

    # (3) file-object positions
    for i in range(ctx.n(600, 5000)):
        nasty = i % 4 == 0
        appending = rng.random() < 0.4
        bs = rng.choice([0, 2, 3, -1])
        c0 = bytes(rng.randrange(1, 256) for _ in range(rng.choice([0, 1, 4, 9])))
        ops = gen_fops(rng, nasty)
        line, impl = run_fobj(appending, bs, rng.choice([4, 1 << 22]), c0, ops)
        lines.append(line)
        expect.append(('fobj', {'appending': appending, 'block_size': bs, 'content': c0.hex(),
                                'ops': [fop_token(o) for o in ops]}, impl))
        hist.hit('fobj:' + ('nasty' if nasty else 'plain'))
    # (3b) the same machine for files opened in TEXT mode: the model is given the encoded bytes of each string
    for i in range(ctx.n(250, 2000)):
        enc = rng.choice(TEXT_ENCODINGS)
        appending = rng.random() < 0.25
        bs = rng.choice([0, 2, 3, 7, -1])
        c0 = bytes(rng.randrange(1, 256) for _ in range(rng.choice([0, 0, 3, 9])))
        ops = gen_text_ops(rng, enc)
        line, impl = run_fobj(appending, bs, rng.choice([4, 1 << 22]), c0, ops, encoding=enc)
        lines.append(line)
        expect.append(('fobj', {'appending': appending, 'block_size': bs, 'content': c0.hex(), 'encoding': enc,
                                'ops': [fop_token(o) for o in ops]}, impl))
        hist.hit('fobj:text:' + enc)

    # (4) the SEEK_DATA walk on real sparse files (page-aligned extents)
    scratch = ctx.tmpdir()
    for i in range(ctx.n(12, 60)):
        exts, pos = [], 0
        for _ in range(rng.randint(0, 4)):
            pos += rng.choice([0, 1, 3]) * 4096
            ln = rng.choice([1, 2]) * 4096
            exts.append((pos, ln))
            pos += ln + 4096
        length = pos + rng.choice([0, 4096, 3 * 4096]) if rng.random() < 0.7 else max(0, pos - 4096 - rng.choice([0, 100]))
        merged: List[Tuple[int, int]] = []
        for o, l in exts:
            if merged and merged[-1][0] + merged[-1][1] == o:
                merged[-1] = (merged[-1][0], merged[-1][1] + l)
            else:
                merged.append((o, l))
        p = os.path.join(scratch, f'sp{i}')
        make_sparse(p, [(o, b'\x55' * l) for o, l in exts], length)
        lines.append(f'ranges {length} ' + (','.join(f'{o}:{l}' for o, l in merged) if merged else '-'))

        async def walk(path: str = p, limit: int = length) -> str:
            with open(path, 'rb') as f:
                rs = [r async for r in sftpmod._request_ranges(f, 0, limit)]
            return ','.join(f'{o}:{l}' for o, l in rs) if rs else '-'
        expect.append(('ranges', {'extents': merged, 'length': length}, pair.run(walk())))
        hist.hit('ranges')

    # (5) end to end: real client, real server answering short / late / out of order; the model is run on the
    #     reply log the server recorded (one completion per batch) and must predict the same destination
    e2e_cases = []
    for i in range(ctx.n(60, 400)):
        B = rng.choice([1, 2, 7, 16384]) if i % 3 else rng.choice([7, 16384])
        M = rng.choice(MAXREQS)
        size = rng.choice([s for s in boundary_sizes(B, M, rng) if s <= 70000] or [B])
        if B <= 2:
            size = min(size, 300)
        op = ['get', 'put', 'copy', 'read', 'write', 'read_all', 'write', 'put'][i % 8]
        fault = 'none'
        if i % 8 >= 6 and size:
            fault = rng.choice(['write-eof', 'fsize'])        # EOF status for a WRITE / a destination that cannot grow
        if op == 'read_all':
            B = rng.choice([B, -1, 0])
        e2e_cases.append(dict(op=op, B=B, M=M, size=size, seed=rng.randrange(1 << 30), fault=fault,
                              remote_copy=(rng.random() < 0.5),
                              off=rng.choice([0, 1, B]) if op in ('read', 'write') else
                              (min(size, rng.choice([0, 1, size // 2])) if op == 'read_all' else 0)))

    async def run_e2e() -> List[Dict[str, Any]]:
        import random
        outs = []
        for i, cs in enumerate(e2e_cases):
            r = random.Random(cs['seed'])
            src = content(r, cs['size'])
            d = os.path.join(scratch, f'e{i}')
            os.makedirs(d)
            beh = Behaviour(r, eof_write=r.randint(1, 3) if cs['fault'] == 'write-eof' else None,
                            fsize_limit=r.randint(0, cs['size'] - 1) if cs['fault'] == 'fsize' else None)
            if cs['op'] == 'copy' and cs['remote_copy']:
                beh.pshort = 0.0    # the server-side copy-data loop takes a short SFTPServer.read for EOF
            file0 = content(r, r.choice([0, 3, cs['size'] + 5])) if cs['op'] == 'write' else b''
            o = await e2e(cs['op'], d, src, cs['B'], cs['M'], beh, remote_copy=cs['remote_copy'],
                          off=cs['off'], size=cs['size'], file0=file0)
            o['beh'] = beh
            o['file0'] = file0
            outs.append(o)
        return outs
    for cs, o in zip(e2e_cases, pair.run(run_e2e(), timeout=900)):
        beh = o['beh']
        src, B, M, op = o['src'], cs['B'], cs['M'], cs['op']
        impl = ('short' if 'Unexpected EOF' in o['outcome'] else o['outcome'].split(':')[0]) + \
            (':' + hx(o.get('dst') or b'') if o['outcome'] == 'ok' else '')
        hist.hit(f'e2e:{op}:' + o['outcome'].split(':')[0])
        if op == 'get' or (op == 'copy' and not cs['remote_copy']):
            ev = ' '.join(f'd:{a}:{s}:{hx(src[a:a + c])} b' for a, s, c in beh.readlog)
            lines.append(f'copy {flags()["ext"]} {flags()["eof"]} {B} {M} {len(src)} 0 - {ev}'.strip())
            expect.append(('e2e-' + op, cs, impl))
        elif op in ('read', 'read_all'):
            ev = ' '.join((f'd:{a}:{s}:{hx(src[a:a + c])} b' if c else f'e:{a}:{s} b') for a, s, c in beh.readlog)
            mrl = 1 << 22
            rl = mrl if B == -1 else B
            te = int(op == 'read_all')
            sz = max(0, len(src) - cs['off']) if te else cs['size']
            lines.append(f'fread {flags()["strict"]} {flags()["ter"]} {te} {rl} {mrl} {M} {cs["off"]} {sz} {ev}'.strip())
            expect.append(('e2e-' + op, cs, impl))
        elif op == 'write':
            ev = ' '.join(w + ' b' for w in beh.wevents)
            if len(src) > B:
                lines.append(f'write {flags()["eof"]} {flags()["wall"]} {B} {M} {cs["off"]} {hx(src)} {hx(o["file0"])} {ev}'.strip())
                expect.append(('e2e-write', cs, impl))
        elif op == 'copy':
            lines.append(f'rcopy {hx(src)} 0:{len(src)}')
            expect.append(('e2e-rcopy', cs, impl))
        elif not any(w.startswith('s:') for w in beh.wevents):
            # put: the reads are local and full; one block per request.  (A short server-side write has no
            # counterpart in the copier model's replies: such runs are judged by the oracle only.)
            def tok(w: str) -> str:
                k, a, n = w.split(':')[:3]
                return f'd:{a}:{n}:{hx(src[int(a):int(a) + int(n)])} b' if k == 'o' else f'{k}:{a}:{n} b'
            ev = ' '.join(tok(w) for w in beh.wevents)
            lines.append(f'copy {flags()["ext"]} {flags()["eof"]} {B} {M} {len(src)} 0 - {ev}'.strip())
            expect.append(('e2e-put', cs, impl))

    # run the model --------------------------------------------------------------------------------
    out = ctx.model(DRIVER, lines)
    for line, (name, case, impl), mod in zip(lines, expect, out):
        res.cases += 1
        if name == 'fobj':
            mod, impl = canon_fobj(line, mod), canon_fobj(line, impl)
        if name.startswith('e2e'):
            # only the outcome is comparable (the batch structure of the real run is not observable)
            m = mod.split(' ')
            if name == 'e2e-rcopy':
                mo = 'ok:' + m[0]
            else:
                mo = next((t for t in m if t.startswith(('ok', 'raised', 'short', 'running'))), mod)
            mod, line = mo, line[:300]
        if mod != impl:
            res.disagreements.append(Disagreement(case={'op': name, 'case': case, 'line': line[:2000]},
                                                  model=mod[:600], impl=impl[:600], name=f'correspondence:{name}'))
    res.nontrivial = len(set(lines))
    res.histogram = dict(hist)
    res.samples = [{'line': lines[i][:300], 'model': out[i][:200], 'impl': expect[i][2][:200]}
                   for i in (0, 1, len(cases), len(lines) - 1)]
    res.rule = ('sizes around block/request-count boundaries (0,1,B-1,B,B+1,kB±1,MB±1) for B in {1,2,7,16384}, '
                'M in {1,2,3,128}; per case a seeded schedule: which outstanding futures complete together, short '
                'read lengths, EOF, injected errors; a separate malformed stream (zero-length, early EOF, over-long '
                'replies); file-object op sequences; real sparse files; end-to-end runs; distinct = distinct lines')
    return res


# ---------------------------------------------------------------------------
# oracle: the property evaluated on the real code


def classify_sparse(src: bytes, dst: Optional[bytes], ranges: List[Tuple[int, int]]) -> Optional[str]:
    if dst == src:
        return None
    end = max((o + l for o, l in ranges), default=0)
    if dst is not None and len(dst) < len(src) and src.startswith(dst) and not any(src[len(dst):]) \
            and end < len(src) and len(dst) <= end:
        return SIG_TRAILING_HOLE
    return 'silent-corruption:sparse'


def check_fake(case: Dict[str, Any], r: Dict[str, Any]) -> Optional[Tuple[str, str]]:
    """property predicate on a fake-driven run with a truthful, non-empty-replying server"""
    impl = r['impl']
    kind = case['kind']
    toks = impl.split(' ')
    oc = next((t for t in toks if t.startswith(('ok', 'raised', 'short', 'exc', 'cancelled'))), 'none')
    injected = any(x[2] == 'x' for b in r['record'] for x in b)
    eof_on_write = any(x[2] == 'e' and x[0] == 'w' for b in r['record'] for x in b)
    if oc.startswith('ok'):
        got = unhx(oc[3:]) if ':' in oc else b''
        if injected:
            return ('error-swallowed:' + kind, f'a block failed but {kind} returned normally')
        if eof_on_write:
            return (SIG_EOF_ON_WRITE,
                    f'{"_SFTPFileWriter" if kind == "write" else "_SFTPFileCopier"}: a WRITE was answered with an FX_EOF status but {kind} returned normally'
                    + (f' with {len(got)} of {len(r["expect"])} bytes at the destination' if 'expect' in r else ''))
        if kind == 'fread':
            exp = r['expect_prefix']
            if r.get('to_end_with_block_size') and got != exp:
                return (SIG_READ_TO_END, f'read() to the end of a {len(exp)}-byte range returned normally with '
                                         f'{len(got)} bytes: a short reply to the single request was taken as final')
            if not (exp.startswith(got) and (got or not exp)):
                return ('silent-corruption:fread', f'read returned {got[:16].hex()}… expected a prefix of {exp[:16].hex()}…')
            if toks[0] == 'parallel' and got != exp:
                return ('silent-corruption:fread', 'parallel read returned fewer/other bytes than requested')
            return None
        if kind == 'copy':
            if case['sparse']:
                sig = classify_sparse(r['src'][:case['size']], got, r['ranges'])
                if sig and r['src_len'] >= case['size']:
                    return (sig, f'sparse copy returned normally with {len(got)} bytes for a {case["size"]}-byte source')
                return None
            if r['src_len'] < case['size']:
                return ('short-source-not-reported:copier', 'source shorter than announced but the copy returned normally')
        if got != r['expect']:
            i = next((j for j in range(min(len(got), len(r['expect']))) if got[j] != r['expect'][j]),
                     min(len(got), len(r['expect'])))
            return (f'silent-corruption:{kind}', f'{kind} returned normally but byte {i} differs '
                                                 f'(len {len(got)} vs {len(r["expect"])})')
        return None
    if oc in ('raised',):
        return None if (injected or eof_on_write) else (f'spurious-error:{kind}', 'operation raised although no block failed')
    if oc == 'short':
        if kind == 'copy' and not case['sparse'] and (r['src_len'] < case['size'] or eof_on_write or injected):
            return None       # (an EOF status for a WRITE surfaces as this error in a tree that takes it for EOF)
        return ('spurious-error:copy', 'Unexpected EOF raised although the source has its announced size')
    return (f'hang-or-crash:{kind}', f'outcome {oc}')


def oracle(ctx: Ctx) -> OracleResult:
    res = OracleResult()
    hist = Hist()
    rng = ctx.subrng('oracle')
    scratch = ctx.tmpdir()
    seen = set()

    def fail(sig: str, what: str, replay: Dict[str, Any]) -> None:
        hist.hit('FAIL:' + sig)
        if sum(1 for f in res.failures if f.signature == sig) < 3:
            res.failures.append(Failure(sig, what, replay))

    # (0) inputs on which model and implementation disagreed -----------------------------------------
    for s in ctx.suspects:
        case = s.get('case') if isinstance(s, dict) else None
        if isinstance(case, dict) and case.get('kind') in ('read', 'write', 'copy', 'fread') and case.get('mode') == 'truthful':
            r = run_case(case)
            res.evaluations += 1
            bad = check_fake(case, r)
            if bad:
                fail(bad[0], bad[1] + f' [case {case}]', {'kind': 'fake', 'case': case, 'record': r['record']})

    # (a) fake-driven transfers, truthful server, every B x M, boundary sizes -------------------------
    cases = []
    for B in BLOCKS:
        for M in MAXREQS:
            sizes = [s for s in boundary_sizes(B, M, rng) if s <= (2200000 if ctx.tier == 'thorough' else 420000)]
            for size in (sizes if (ctx.tier == 'thorough' or ctx.escalated) else rng.sample(sizes, min(len(sizes), 7))):
                for kind in ('read', 'write', 'copy', 'fread'):
                    if size > 60000 and kind != rng.choice(['read', 'write', 'copy']):
                        continue
                    L = size if rng.random() < 0.75 else max(0, size + rng.choice([-B, -1, 1, B]))
                    cases.append(dict(kind=kind, B=B, M=M, size=size, L=L,
                                      start=rng.choice([0, 1, B]) if kind != 'copy' else 0,
                                      seed=rng.randrange(1 << 30), perr=0.1 if rng.random() < 0.25 else 0.0,
                                      mode='truthful', sparse=(kind == 'copy' and rng.random() < 0.35)))
    cases += _case_stream(ctx, rng, ctx.n(600, 6000), small=False, perr=0.1)
    for case in cases:
        if case['kind'] == 'copy' and case['sparse'] and case['size'] > 60000:
            case['sparse'] = False
        r = run_case(case)
        res.evaluations += 1
        seen.add((case['kind'], case['B'], case['M'], case['size'], case['L'], case['start']))
        hist.hit(f"fake:{case['kind']}:B{case['B']}:M{case['M']}")
        bad = check_fake(case, r)
        if bad:
            fail(bad[0], bad[1] + f' [B={case["B"]} M={case["M"]} size={case["size"]} L={case["L"]} '
                                  f'start={case["start"]} sparse={case["sparse"]}]',
                 {'kind': 'fake', 'case': case, 'record': r['record']})

    # (b) the excluded point of read_correct (F8): one zero-length DATA reply without EOF ---------------
    for B, M, size in [(2, 2, 4), (7, 3, 30), (16384, 2, 40000)]:
        case = dict(kind='read', B=B, M=M, size=size, L=size, start=0, seed=rng.randrange(1 << 30), perr=0.0,
                    mode='zero-once', sparse=False)
        r = run_case(case)
        res.evaluations += 1
        oc = r['impl'].split(' ')[-1]
        hist.hit('zero-length-reply:' + oc.split(':')[0])
        if oc.startswith('ok') and unhx(oc[3:]) != r['expect']:
            got = unhx(oc[3:])
            fail(SIG_ZERO_READ,
                 f'_SFTPFileReader(block_size={B}, max_requests={M}) over a {size}-byte file: one request answered '
                 f'by a zero-length DATA reply (no EOF) -> read() returns normally with {len(got)} of {len(r["expect"])} '
                 f'bytes, {sum(1 for a, b in zip(got, r["expect"]) if a != b)} of them wrong (zero-filled hole)',
                 {'kind': 'fake', 'case': case, 'record': r['record']})

    # (d) the file object's position against a real POSIX file (Python raw FileIO on a scratch file) ----------
    for i in range(ctx.n(300, 4000)):
        appending = rng.random() < 0.4
        bs = rng.choice([0, 2, 3, -1])
        c0 = bytes(rng.randrange(1, 256) for _ in range(rng.choice([0, 1, 4, 9])))
        ops = [o for o in gen_fops(rng, False) if not (appending and o[0] == 'w' and not o[1])]
        bad = check_fobj_posix(os.path.join(scratch, f'pf{i % 50}'), appending, bs, c0, ops)
        res.evaluations += 1
        seen.add(('fobj', appending, bs, c0, tuple(fop_token(o) for o in ops)))
        hist.hit('fobj-posix:' + ('append' if appending else 'plain'))
        if bad:
            fail('fileobj-position:' + bad[0], bad[1] + f' [appending={appending} block_size={bs} content={c0.hex()} '
                                                        f'ops={[fop_token(o) for o in ops]}]',
                 {'kind': 'fobj', 'appending': appending, 'block_size': bs, 'content': c0.hex(),
                  'ops': [[o[0]] + [x.hex() if isinstance(x, bytes) else x for x in o[1:]] for o in ops]})

    # (d') files opened in text mode: consecutive write(str) calls, tell(), relative seeks; the POSIX file is given the
    #      encoded bytes.  A difference that disappears when the same bytes are written in binary mode is the text
    #      path's own (position / block arithmetic in characters instead of encoded bytes).
    text_cases: List[Tuple[str, bool, int, bytes, List[Tuple[Any, ...]]]] = []
    for enc, texts in TEXT_CORPUS:
        for bs in (-1, 3, 0):
            text_cases.append((enc, False, bs, b'', [('w', t.encode(enc), None, t) for t in texts] + [('t',)]))
    for i in range(ctx.n(200, 3000)):
        enc = rng.choice(TEXT_ENCODINGS)
        appending = rng.random() < 0.25
        ops = [o for o in gen_text_ops(rng, enc) if not (appending and o[0] == 'w' and not o[1])]
        text_cases.append((enc, appending, rng.choice([0, 2, 3, 7, -1]),
                           bytes(rng.randrange(1, 256) for _ in range(rng.choice([0, 0, 3, 9]))), ops))
    for i, (enc, appending, bs, c0, ops) in enumerate(text_cases):
        path = os.path.join(scratch, f'tf{i % 50}')
        bad = check_fobj_posix(path, appending, bs, c0, ops, encoding=enc)
        res.evaluations += 1
        seen.add(('fobj-text', enc, appending, bs, c0, tuple(fop_token(o) for o in ops)))
        hist.hit('fobj-posix:text:' + enc)
        if bad:
            sig = 'fileobj-position:' + bad[0]
            if check_fobj_posix(path, appending, bs, c0, [o[:3] if o[0] == 'w' else o for o in ops]) is None:
                sig = SIG_TEXT_POS
            fail(sig, f'file opened with encoding={enc!r}: ' + bad[1] +
                 f' [appending={appending} block_size={bs} content={c0.hex()} ops={[text_token(o) for o in ops]}]',
                 {'kind': 'fobj', 'appending': appending, 'block_size': bs, 'content': c0.hex(), 'encoding': enc,
                  'ops': [[o[0]] + [x.hex() if isinstance(x, bytes) else x for x in o[1:]] for o in ops]})

    # (c) end to end ---------------------------------------------------------------------------------------
    res.failures = pair.run(_oracle_e2e(ctx, rng, scratch, hist, res, seen), timeout=3000) + res.failures
    # one failing input per root cause first (the runner prints the first few)
    firsts: List[Failure] = []
    rest: List[Failure] = []
    for f in res.failures:
        (rest if any(x.signature == f.signature for x in firsts) else firsts).append(f)
    res.failures = firsts + rest
    res.nontrivial = len(seen)
    res.histogram = dict(hist)
    res.samples = [{'case': {k: v for k, v in c.items()}} for c in cases[:2]]
    res.rule = ('real reader/writer/copier/file object against a truthful fake server (every B in {1,2,7,16384} x M in '
                '{1,2,3,128}, boundary sizes, random completion order/batches/short reads/errors) and real get/put/'
                'copy/open through an in-process server answering short, late, out of order or failing, incl. real '
                'sparse files with generated hole layouts and sources shorter than announced; failure = normal '
                'return with destination != source, swallowed block error, or spurious error; distinct = distinct '
                '(op,B,M,size,offset,faults) tuples')
    return res


# deterministic end-to-end cases (run first): one per root cause found by the model/code audit
E2E_CORPUS: List[Dict[str, Any]] = [
    # the destination cannot take the whole file: the server-side write() that crosses the limit is short
    dict(op='put', B=16384, M=2, size=30000, seed=101, fault='fsize', limit=20000, sparse=False, remote_copy=True, off=0, ooo=False),
    dict(op='put', B=-1, M=-1, size=70000, seed=102, fault='fsize', limit=65536, sparse=True, remote_copy=True, off=0, ooo=False),
    dict(op='write', B=16384, M=2, size=30000, seed=103, fault='fsize', limit=20000, sparse=False, remote_copy=True, off=0, ooo=False),
    dict(op='write', B=0, M=1, size=3000, seed=104, fault='fsize', limit=1000, sparse=False, remote_copy=True, off=0, ooo=False),
    dict(op='copy', B=16384, M=2, size=30000, seed=105, fault='fsize', limit=20000, sparse=False, remote_copy=True, off=0, ooo=False),
    dict(op='copy', B=16384, M=2, size=30000, seed=106, fault='fsize', limit=20000, sparse=False, remote_copy=False, off=0, ooo=False),
    dict(op='put', B=16384, M=2, size=30000, seed=107, fault='fsize', limit=29999, sparse=False, remote_copy=True, off=0, ooo=False),
    dict(op='write', B=4096, M=3, size=8193, seed=108, fault='fsize', limit=8192, sparse=False, remote_copy=True, off=0, ooo=True),
    # a WRITE answered with an FX_EOF status
    dict(op='write', B=1000, M=3, size=10000, seed=111, fault='write-eof', nth=4, sparse=False, remote_copy=True, off=0, ooo=False),
    dict(op='put', B=1000, M=3, size=10000, seed=112, fault='write-eof', nth=4, sparse=True, remote_copy=True, off=0, ooo=False),
    dict(op='put', B=1000, M=3, size=10000, seed=113, fault='write-eof', nth=2, sparse=False, remote_copy=True, off=0, ooo=True),
    dict(op='copy', B=1000, M=2, size=5000, seed=114, fault='write-eof', nth=3, sparse=True, remote_copy=False, off=0, ooo=False),
    dict(op='write', B=0, M=1, size=3000, seed=115, fault='write-eof', nth=1, sparse=False, remote_copy=True, off=0, ooo=False),
    # read() to the end of a file below the block size, server answers short
    dict(op='read_all', B=-1, M=-1, size=1000, seed=121, fault='none', pshort=1.0, sparse=False, remote_copy=True, off=0, ooo=False),
    dict(op='read_all', B=-1, M=-1, size=40001, seed=122, fault='none', pshort=1.0, sparse=False, remote_copy=True, off=7, ooo=True),
    dict(op='read_all', B=16384, M=2, size=16384, seed=123, fault='none', pshort=1.0, sparse=False, remote_copy=True, off=0, ooo=True),
    # a source whose attributes carry no size / size 0 (as /proc files do)
    dict(op='get', B=16384, M=2, size=5000, seed=131, fault='size-none', sparse=False, remote_copy=True, off=0, ooo=False),
    dict(op='get', B=-1, M=-1, size=1430, seed=132, fault='size-zero', sparse=True, remote_copy=True, off=0, ooo=False),
    dict(op='copy', B=16384, M=2, size=5000, seed=133, fault='size-none', sparse=False, remote_copy=False, off=0, ooo=False),
    dict(op='read_all', B=-1, M=-1, size=1430, seed=134, fault='size-zero', sparse=False, remote_copy=True, off=0, ooo=False),
    # text mode: the position moves by the encoded bytes (default utf-8 with non-ASCII text, utf-16, utf-32; the last one
    # goes through the parallel writer)
    dict(op='write_text', B=-1, M=-1, size=0, seed=151, fault='none', sparse=False, remote_copy=True, off=0, ooo=False,
         texts=['na\u00efve caf\u00e9 cr\u00e8me br\u00fbl\u00e9e\n', '\u8ee2\u9001\u3055\u308c\u305f\n', 'status: \U0001f600 done\n']),
    dict(op='write_text', B=-1, M=-1, size=0, seed=152, fault='none', sparse=False, remote_copy=True, off=0, ooo=False,
         encoding='utf-16', texts=['plain ascii line\n', 'second\n', 'tail\n']),
    dict(op='write_text', B=-1, M=-1, size=0, seed=153, fault='none', sparse=False, remote_copy=True, off=0, ooo=False,
         encoding='utf-32', texts=['ab', '\u00e9', 'cd']),
    dict(op='write_text', B=1024, M=3, size=0, seed=154, fault='none', sparse=False, remote_copy=True, off=0, ooo=True,
         texts=['000000 \u00e9\u00e8\u00ea \u0142\u00f3\u017c\n', 'trailer\n', '\u00e9'], repeat=300),
    # non-sparse copy on one connection of a source shorter than announced
    dict(op='copy', B=16384, M=2, size=12345, seed=141, fault='lie', sparse=False, remote_copy=True, off=0, ooo=False),
]


TEXT_CORPUS: List[Tuple[str, List[str]]] = [
    ('utf-8', ['na\u00efve caf\u00e9 cr\u00e8me br\u00fbl\u00e9e\n', 'za\u017c\u00f3\u0142\u0107 g\u0119\u015bl\u0105 ja\u017a\u0144\n', 'tail\n']),
    ('utf-8', ['\u8ee2\u9001\u3055\u308c\u305f\u30d5\u30a1\u30a4\u30eb\n', 'status: \U0001f600 done\n', 'x']),
    ('utf-16', ['plain ascii line\n', 'second line\n']),
    ('utf-32', ['ab', '\u00e9', 'cd']),
    ('utf-16-le', ['plain ascii line number one\n', 'PLAIN\n', 'tail\n']),
    ('latin-1', ['na\u00efve caf\u00e9\n', 'tail\n']),
]


def text_token(op: Tuple[Any, ...]) -> str:
    return f'w:{op[3]!r}' if (op[0] == 'w' and len(op) > 3) else fop_token(op)


def check_fobj_posix(path: str, appending: bool, block_size: int, content0: bytes,
                     ops: List[Tuple[Any, ...]], encoding: Optional[str] = None) -> Optional[Tuple[str, str]]:
    """the same calls on an SFTPClientFile (ideal server) and on a raw Python file; first difference.
    With `encoding` the SFTPClientFile is a text-mode file: its write() gets the str (op[3]), the raw file the
    encoded bytes (op[1])."""
    write_file(path, content0)

    async def go() -> Optional[Tuple[str, str]]:
        file = bytearray(content0)
        h = FakeHandler(Ctl(), file, max_read_len=4, max_write_len=4, immediate=True, append=appending)
        f = sftpmod.SFTPClientFile(h, b'h', appending, encoding, 'strict', block_size, 2)
        with open(path, 'a+b' if appending else 'r+b', buffering=0) as ref:
            for k, op in enumerate(ops):
                try:
                    if op[0] == 'r':
                        if op[1] in (None, -1) and ref.tell() > os.fstat(ref.fileno()).st_size:
                            continue        # read-to-end from beyond the end: asyncssh raises (noted, not judged)
                        want: Any = ref.read(-1 if op[1] is None else op[1])
                    elif op[0] == 'w':
                        want = ref.write(op[1])
                    elif op[0] in ('ss', 'sc', 'se'):
                        want = ref.seek(op[1], {'ss': 0, 'sc': 1, 'se': 2}[op[0]])
                    else:
                        want = ref.tell()
                except (OSError, ValueError):
                    continue                # not a valid POSIX call (negative position): skipped on both sides
                try:
                    if op[0] == 'r':
                        got: Any = await (f.read(op[1]) if op[1] is not None else f.read())
                    elif op[0] == 'w':
                        got = await f.write(op[3] if (encoding and len(op) > 3) else op[1])
                    elif op[0] in ('ss', 'sc', 'se'):
                        got = await f.seek(op[1], {'ss': 0, 'sc': 1, 'se': 2}[op[0]])
                    else:
                        got = await f.tell()
                except Exception as e:
                    got = 'exc:' + type(e).__name__
                if got != want:
                    return (op[0], f'call #{k} {fop_token(op)} returned {got!r}, a POSIX file returns {want!r}')
        if bytes(file) != read_file(path):
            return ('content', f'file content {bytes(file).hex()} differs from the POSIX file {(read_file(path) or b"").hex()}')
        return None
    return pair.run(go(), timeout=60)


async def _oracle_e2e(ctx: Ctx, rng: Any, scratch: str, hist: Hist, res: OracleResult, seen: set) -> List[Failure]:
    import random
    fails: List[Failure] = []
    counts: Dict[str, int] = {}

    def fail(sig: str, what: str, replay: Dict[str, Any]) -> None:
        hist.hit('FAIL:' + sig)
        counts[sig] = counts.get(sig, 0) + 1
        if counts[sig] <= 3:
            fails.append(Failure(sig, what, replay))

    specs: List[Dict[str, Any]] = list(E2E_CORPUS)
    ops = ['get', 'put', 'copy', 'read', 'write', 'read_parallel', 'read_all']
    n = ctx.n(180, 1500)
    for i in range(n):
        B = rng.choice(BLOCKS)
        M = rng.choice(MAXREQS)
        sizes = [s for s in boundary_sizes(B, M, rng) if s <= (2200000 if i % 25 == 0 else 140000)]
        size = rng.choice(sizes)
        if B <= 2:
            size = min(size, 700)
        op = ops[i % len(ops)]
        fault = rng.choice(['none', 'none', 'none', 'read', 'write', 'lie', 'truncate', 'write-eof', 'fsize',
                            'size-none', 'size-zero'])
        if fault in ('write-eof', 'fsize') and (op not in ('put', 'copy', 'write') or size == 0):
            fault = 'none'
        if fault in ('size-none', 'size-zero') and op not in ('get', 'copy', 'read_all'):
            fault = 'none'
        if op == 'read_all' and rng.random() < 0.3:
            B = rng.choice([-1, 0, 16384, 1 << 20])          # also the single-request region of read()
        hidden = fault in ('size-none', 'size-zero')         # (a position past the announced end makes read() raise)
        specs.append(dict(op=op, B=B, M=M, size=size, seed=rng.randrange(1 << 30), fault=fault,
                          sparse=rng.random() < 0.3, remote_copy=rng.random() < 0.5,
                          off=(rng.choice([0, 0, 1, B, 2 * B + 1]) if op in ('read', 'write', 'read_parallel') else
                               min(size, rng.choice([0, 0, 1, size // 2])) if (op == 'read_all' and not hidden) else 0),
                          ooo=rng.random() < 0.8))
    # default block size / max_requests (the entry points' own defaults)
    specs.append(dict(op='get', B=-1, M=-1, size=300000, seed=1, fault='none', sparse=False, remote_copy=True, off=0, ooo=True))
    specs.append(dict(op='put', B=-1, M=-1, size=300000, seed=2, fault='none', sparse=True, remote_copy=True, off=0, ooo=True))
    specs.append(dict(op='copy', B=0, M=0, size=100000, seed=3, fault='none', sparse=False, remote_copy=False, off=0, ooo=True))
    for i, sp in enumerate(specs):
        out = await run_e2e_spec(sp, os.path.join(scratch, f'o{i}'))
        res.evaluations += 1
        seen.add(('e2e', sp['op'], sp['B'], sp['M'], sp['size'], sp['off'], sp['fault'], sp['sparse']))
        hist.hit(f"e2e:{sp['op']}:{sp['fault']}:{out['outcome'].split(':')[0]}")
        bad = check_e2e(sp, out)
        if bad:
            fail(bad[0], bad[1] + f' [{ {k: v for k, v in sp.items()} }]', {'kind': 'e2e', 'spec': sp})

    # sparse files with generated hole layouts (real holes in the scratch directory)
    layouts: List[Dict[str, Any]] = [
        dict(extents=[(0, 5000)], length=1000000),                       # data then a long trailing hole
        dict(extents=[], length=65536),                                   # nothing but a hole
        dict(extents=[(0, 5000), (200000, 3000)], length=203000),         # hole in the middle, data at the end
        dict(extents=[(131072, 4096)], length=135168),                    # leading hole
    ]
    for _ in range(ctx.n(28, 250)):
        exts, pos = [], rng.choice([0, 0, 4096 * rng.randint(1, 20)])
        for _k in range(rng.randint(0, 4)):
            ln = rng.choice([1, 100, 4096, 5000, 20000])
            exts.append((pos, ln))
            pos += ln + 4096 * rng.randint(1, 30)
        last = exts[-1][0] + exts[-1][1] if exts else 0
        length = last if rng.random() < 0.5 else last + rng.choice([1, 4096, 100000])
        layouts.append(dict(extents=exts, length=length))
    for i, lay in enumerate(layouts):
        r = random.Random(i)
        op = ['get', 'put', 'copy', 'copy'][i % 4]
        B = rng.choice([7, 4096, 16384, -1]) if lay['length'] < 50000 else rng.choice([4096, 16384, -1])
        M = rng.choice([1, 2, 3, 128, -1])
        sp = dict(op=op, B=B, M=M, size=lay['length'], seed=i, fault='none', sparse=True,
                  remote_copy=(i % 8 < 4), off=0, ooo=True,
                  extents=[[o, l] for o, l in lay['extents']])
        out = await run_e2e_spec(sp, os.path.join(scratch, f's{i}'))
        res.evaluations += 1
        seen.add(('sparse', op, B, M, tuple(map(tuple, sp['extents'])), lay['length']))
        bad = check_e2e(sp, out)
        hist.hit(f"sparse:{op}:{'trailing-hole' if out.get('trailing_hole') else 'no-trailing-hole'}:"
                 + ('ok' if not bad else 'FAIL'))
        if bad:
            fail(bad[0], bad[1] + f' [op={op} block_size={B} max_requests={M} extents={sp["extents"]} '
                                  f'length={lay["length"]} remote_copy={sp["remote_copy"]}]',
                 {'kind': 'e2e', 'spec': sp})
    return fails


async def run_e2e_spec(sp: Dict[str, Any], d: str) -> Dict[str, Any]:
    import random
    r = random.Random(sp['seed'])
    os.makedirs(d, exist_ok=True)
    src = content(r, sp['size']) if 'extents' not in sp else b''
    fault = sp['fault']
    beh = Behaviour(r, ooo=sp['ooo'], pshort=0.0 if (sp['op'] == 'copy' and sp['remote_copy']) else sp.get('pshort', 0.4),
                    fail_read=r.randint(1, 4) if fault == 'read' else None,
                    fail_write=r.randint(1, 4) if fault == 'write' else None,
                    lie_size=r.choice([1, sp['B'] if sp['B'] > 0 else 5, 100]) if fault == 'lie' else 0,
                    eof_write=sp.get('nth', r.randint(1, 4)) if fault == 'write-eof' else None,
                    fsize_limit=sp.get('limit', r.randint(0, max(0, sp['size'] - 1))) if fault == 'fsize' else None,
                    hide_size=fault[5:] if fault in ('size-none', 'size-zero') else None)
    truncate_to = None
    if fault == 'truncate' and sp['op'] in ('get', 'put') and sp['size'] > 2:
        truncate_to = r.randint(0, sp['size'] - 1)
    file0 = content(r, r.choice([0, 2, sp['size'] + 3])) if sp['op'] == 'write' else b''
    extents = None
    if 'extents' in sp:
        extents = [(o, bytes(((o + j) % 255) + 1 for j in range(l))) for o, l in sp['extents']]
    texts = None
    if sp['op'] == 'write_text':
        texts = [t * sp.get('repeat', 1) for t in sp['texts']]
        src = b''.join(t.encode(sp.get('encoding') or 'utf-8') for t in texts)
    out = await e2e(sp['op'], d, src, sp['B'], sp['M'], beh, sparse=sp['sparse'], remote_copy=sp['remote_copy'],
                    extents=extents, length=sp['size'] if extents is not None else None, truncate_to=truncate_to,
                    off=sp['off'], size=sp['size'], file0=file0, texts=texts, encoding=sp.get('encoding'))
    out['beh'] = beh
    out['file0'] = file0
    out['truncate_to'] = truncate_to
    if extents is not None:
        rs = real_ranges(os.path.join(d, 'src'), sp['size'])
        out['ranges'] = rs
        out['trailing_hole'] = max((o + l for o, l in rs), default=0) < sp['size']
    return out


def check_e2e(sp: Dict[str, Any], out: Dict[str, Any]) -> Optional[Tuple[str, str]]:
    op, oc, beh = sp['op'], out['outcome'], out['beh']
    src = out['src']
    if oc.startswith(('timeout', 'exc')):
        return (f'hang-or-crash:{op}', f'{op} ended with {oc}')
    short_source = (beh.lie_size > 0 and op in ('get', 'copy')) or out.get('truncate_to') is not None
    if oc == 'ok':
        dst = out.get('dst')
        if beh.short_write is not None and op in ('put', 'copy', 'write'):
            o_, n_, a_ = beh.short_write
            return (SIG_SHORT_WRITE,
                    f'the destination cannot grow past {beh.fsize_limit} bytes: the server\'s write() of the {n_}-byte block '
                    f'at offset {o_} wrote {a_} bytes, the server answered FX_OK and {op} returned normally with a '
                    f'{len(dst or b"")}-byte destination for {len(src)} source bytes')
        if beh.eof_write is not None and beh.faulted and op in ('put', 'copy', 'write'):
            return (SIG_EOF_ON_WRITE,
                    f'WRITE #{beh.eof_write} was answered with an FX_EOF status but {op} returned normally with a '
                    f'{len(dst or b"")}-byte destination for {len(src)} source bytes')
        if beh.faulted:
            return (f'error-swallowed:{op}', f'a block failed on the server but {op} returned normally')
        if beh.hide_size and op in ('get', 'copy', 'read_all') and src and not dst:
            return (SIG_NO_SIZE_READ if op == 'read_all' else SIG_NO_SIZE_COPY,
                    f'the attributes of the {len(src)}-byte source carry '
                    + ('no size' if beh.hide_size == 'none' else 'size 0')
                    + (f'; read() returned {len(dst or b"")} bytes' if op == 'read_all' else
                       f'; {"sparse" if sp["sparse"] else "non-sparse"} {op} returned normally with an empty destination'))
        if 'extents' in sp:
            sig = classify_sparse(src, dst, out.get('ranges', []))
            if sig:
                return (sig, f'sparse {op} of a {len(src)}-byte file whose data ranges are {out.get("ranges")} returned '
                             f'normally with a {len(dst or b"")}-byte destination (the bytes after the last data range '
                             f'are missing)' if sig == SIG_TRAILING_HOLE else
                        f'sparse {op} returned normally with a destination that differs from the source')
            return None
        if out.get('truncate_to') is not None:
            # the source shrank under the transfer: a normal return is only acceptable for a sparse copy whose
            # destination is a prefix-consistent copy; non-sparse must have raised unless nothing was missing
            if not sp['sparse'] and op in ('get', 'put'):
                cur = read_file_safe(out, sp)
                if dst != cur and dst != src:
                    return (f'short-source-not-reported:{op}',
                            f'source truncated to {out["truncate_to"]} bytes during a non-sparse {op}; it returned '
                            f'normally with {len(dst or b"")} bytes')
            return None
        exp = expected_e2e(op, src, sp['off'], sp['size'], out['file0'])
        if op == 'write_text' and (dst != exp or 'tell_mismatch' in out):
            return (SIG_TEXT_POS,
                    f'{len(sp["texts"])} consecutive write(str) calls on a file opened with encoding='
                    f'{sp.get("encoding") or "default (utf-8)"!r}, block_size={sp["B"]}: every call succeeded but the '
                    f'file holds {len(dst or b"")} bytes instead of the {len(exp)} bytes of the encoded strings'
                    + (f'; tell() gave {out["tell_mismatch"][0]} after {out["tell_mismatch"][1]} bytes were written'
                       if 'tell_mismatch' in out else ''))
        if sp['sparse'] and beh.lie_size and op in ('get', 'copy') and dst == src + b'\0' * beh.lie_size:
            return None       # sparse: no check of the announced size; zero-extended to it is consistent
        if op == 'read' and 0 <= sp['size'] <= (sp['B'] if sp['B'] > 0 else 1 << 22):
            # one READ request (no parallel reader): POSIX semantics, up to `size` bytes, at least one if any
            if dst is not None and exp.startswith(dst) and (dst or not exp):
                return None
        if op in ('get', 'copy') and beh.lie_size and not sp['sparse']:
            if op == 'get' or not sp['remote_copy']:
                return (f'short-source-not-reported:{op}',
                        f'source is {len(src)} bytes but announced {len(src) + beh.lie_size}; non-sparse {op} returned normally')
            return (SIG_REMOTE_COPY_SHORT,
                    f'source is {len(src)} bytes but announced {len(src) + beh.lie_size}; non-sparse copy() on one '
                    f'connection (copy-data on the server) returned normally: the remote-copy branch has no size check')
        if op == 'read_all' and sp['B'] != 0 and dst != exp:
            return (SIG_READ_TO_END,
                    f'read() of the last {len(exp)} bytes of the file (block_size={sp["B"]}) returned normally with '
                    f'{len(dst or b"")} bytes: the server answered the single READ request short and the reply was '
                    f'taken as final')
        if op == 'read_all' and sp['B'] == 0:
            # block_size=0: documented as one request per call; POSIX semantics as for read(n)
            if dst is not None and exp.startswith(dst) and (dst or not exp):
                return None
        if dst != exp:
            n = min(len(dst or b''), len(exp))
            i = next((j for j in range(n) if (dst or b'')[j] != exp[j]), n)
            return (f'silent-corruption:{op}', f'{op} returned normally but the destination differs from the source at '
                                               f'byte {i} (len {len(dst or b"")} vs {len(exp)})')
        return None
    # raised: right when a block failed or the source was shorter than announced
    if beh.faulted or short_source:
        return None
    return (f'spurious-error:{op}', f'{op} raised {oc} although no block failed and the source was complete')


def read_file_safe(out: Dict[str, Any], sp: Dict[str, Any]) -> Optional[bytes]:
    return out['src'][:out['truncate_to']] if out.get('truncate_to') is not None else out['src']


# ---------------------------------------------------------------------------


def replay(ctx: Ctx, rep: Dict[str, Any]) -> List[Failure]:
    r = rep.get('replay', rep)
    if r.get('kind') == 'fake':
        case = r['case']
        out = run_case(case, record=r.get('record'))
        if case.get('mode') == 'zero-once':
            oc = out['impl'].split(' ')[-1]
            if oc.startswith('ok') and unhx(oc[3:]) != out['expect']:
                return [Failure(SIG_ZERO_READ, 'read returned normally with a zero-filled hole', r)]
            return []
        bad = check_fake(case, out)
        return [Failure(bad[0], bad[1], r)] if bad else []
    if r.get('kind') == 'fobj':
        ops = [tuple([o[0]] + [bytes.fromhex(x) if (o[0] == 'w' and i == 0) else x for i, x in enumerate(o[1:])])
               for o in r['ops']]
        path = os.path.join(ctx.tmpdir(), 'pf')
        bad = check_fobj_posix(path, r['appending'], r['block_size'], bytes.fromhex(r['content']), ops,
                               encoding=r.get('encoding'))
        if bad and r.get('encoding') and check_fobj_posix(
                path, r['appending'], r['block_size'], bytes.fromhex(r['content']),
                [o[:3] if o[0] == 'w' else o for o in ops]) is None:
            return [Failure(SIG_TEXT_POS, bad[1], r)]
        return [Failure('fileobj-position:' + bad[0], bad[1], r)] if bad else []
    if r.get('kind') == 'e2e':
        d = os.path.join(ctx.tmpdir(), 'replay')
        out = pair.run(run_e2e_spec(r['spec'], d), timeout=300)
        bad = check_e2e(r['spec'], out)
        return [Failure(bad[0], bad[1], r)] if bad else []
    return []
