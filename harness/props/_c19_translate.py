"""C19 translator: integer / boolean expressions of asyncssh/stream.py -> lean/AsyncsshModel/Gen/C19.lean.

Restricted on purpose: names (from a per-expression table giving their Lean name and type), integer constants,
+ - *, comparisons (also chained), and/or/not, conditional expressions, max/min, bool(int), truthiness of a name.
Anything else raises (the runner records a broken tie)."""

from __future__ import annotations

import ast
import os
from typing import Any, Dict, List, Tuple

import vlib


class Untranslatable(Exception):
    pass


class Tr:
    def __init__(self, names: Dict[str, Tuple[str, str]]):
        self.names = names      # python source of the name/attribute -> (lean name, 'int' | 'bool')

    def key(self, node: ast.AST) -> str:
        return ast.unparse(node)

    def typ(self, node: ast.AST) -> str:
        if isinstance(node, (ast.Name, ast.Attribute)):
            k = self.key(node)
            if k in self.names:
                return self.names[k][1]
            raise Untranslatable('unknown name ' + k)
        if isinstance(node, ast.Constant) and isinstance(node.value, bool):
            return 'bool'
        if isinstance(node, ast.Constant) and isinstance(node.value, int):
            return 'int'
        if isinstance(node, (ast.Compare, ast.BoolOp)) or (isinstance(node, ast.UnaryOp) and isinstance(node.op, ast.Not)):
            return 'bool'
        if isinstance(node, ast.Call) and isinstance(node.func, ast.Name) and node.func.id == 'bool':
            return 'bool'
        return 'int'

    def int(self, node: ast.AST) -> str:
        if isinstance(node, ast.Constant) and isinstance(node.value, int) and not isinstance(node.value, bool):
            return '(%d : Int)' % node.value if node.value >= 0 else '(-%d : Int)' % -node.value
        if isinstance(node, (ast.Name, ast.Attribute)):
            k = self.key(node)
            if k in self.names and self.names[k][1] == 'int':
                return self.names[k][0]
            raise Untranslatable('not an integer name: ' + k)
        if isinstance(node, ast.BinOp) and isinstance(node.op, (ast.Add, ast.Sub, ast.Mult)):
            op = {ast.Add: '+', ast.Sub: '-', ast.Mult: '*'}[type(node.op)]
            return '(%s %s %s)' % (self.int(node.left), op, self.int(node.right))
        if isinstance(node, ast.UnaryOp) and isinstance(node.op, ast.USub):
            return '(- %s)' % self.int(node.operand)
        if isinstance(node, ast.IfExp):
            return '(if %s then %s else %s)' % (self.prop(node.test), self.int(node.body), self.int(node.orelse))
        if isinstance(node, ast.Call) and isinstance(node.func, ast.Name) and node.func.id in ('max', 'min') \
                and len(node.args) == 2 and not node.keywords:
            return '(%s %s %s)' % (node.func.id, self.int(node.args[0]), self.int(node.args[1]))
        raise Untranslatable('integer expression: ' + ast.dump(node)[:120])

    def prop(self, node: ast.AST) -> str:
        if isinstance(node, ast.Constant) and isinstance(node.value, bool):
            return 'True' if node.value else 'False'
        if isinstance(node, (ast.Name, ast.Attribute)):
            k = self.key(node)
            if k not in self.names:
                raise Untranslatable('unknown name ' + k)
            lean, ty = self.names[k]
            return '(%s = true)' % lean if ty == 'bool' else '(%s ≠ 0)' % lean
        if isinstance(node, ast.Call) and isinstance(node.func, ast.Name) and node.func.id == 'bool' and len(node.args) == 1:
            return self.prop(node.args[0])
        if isinstance(node, ast.UnaryOp) and isinstance(node.op, ast.Not):
            return '(¬ %s)' % self.prop(node.operand)
        if isinstance(node, ast.BoolOp):
            op = ' ∧ ' if isinstance(node.op, ast.And) else ' ∨ '
            return '(' + op.join(self.prop(v) for v in node.values) + ')'
        if isinstance(node, ast.Compare):
            parts = []
            left = node.left
            for op, right in zip(node.ops, node.comparators):
                sym = {ast.Eq: '=', ast.NotEq: '≠', ast.Lt: '<', ast.LtE: '≤', ast.Gt: '>', ast.GtE: '≥'}.get(type(op))
                if sym is None:
                    raise Untranslatable('comparison operator')
                parts.append('(%s %s %s)' % (self.int(left), sym, self.int(right)))
                left = right
            return '(' + ' ∧ '.join(parts) + ')'
        if self.typ(node) == 'int':
            return '(%s ≠ 0)' % self.int(node)
        raise Untranslatable('boolean expression: ' + ast.dump(node)[:120])


def _find(body: List[ast.stmt], name: str) -> Any:
    for n in body:
        if isinstance(n, (ast.FunctionDef, ast.AsyncFunctionDef, ast.ClassDef)) and n.name == name:
            return n
    raise Untranslatable('no definition named ' + name)


def translate(ctx: Any) -> Dict[str, Any]:
    path = os.path.join(vlib.REPO, 'asyncssh', 'stream.py')
    tree = ast.parse(open(path).read())
    cls = _find(tree.body, 'SSHStreamSession')
    info: Dict[str, Any] = {}
    defs: List[str] = []

    # readuntil: start = ...
    fn = _find(cls.body, 'readuntil')
    starts = [n for n in ast.walk(fn) if isinstance(n, ast.Assign) and len(n.targets) == 1 and
              isinstance(n.targets[0], ast.Name) and n.targets[0].id == 'start']
    if len(starts) != 1:
        raise Untranslatable('readuntil: expected exactly one assignment to `start`')
    tr = Tr({'buflen': ('buflen', 'int'), 'seplen': ('seplen', 'int')})
    info['readuntil.start'] = ast.unparse(starts[0].value)
    defs.append('/-- `start = %s` (SSHStreamSession.readuntil) -/\n'
                'def searchStartCode (buflen seplen : Int) : Int :=\n  %s' % (info['readuntil.start'], tr.int(starts[0].value)))

    # readuntil: how a LIST of separators is searched.  Repaired code (F10): one compiled pattern per separator and
    # `idx = min(<ends of the matches>)`; before: the separators joined into one alternation `sep1|sep2|...`
    idx_min = [n for n in ast.walk(fn) if isinstance(n, ast.Assign) and len(n.targets) == 1 and
               isinstance(n.targets[0], ast.Name) and n.targets[0].id == 'idx' and isinstance(n.value, ast.Call) and
               isinstance(n.value.func, ast.Name) and n.value.func.id == 'min']
    joins = [n for n in ast.walk(fn) if isinstance(n, ast.Call) and isinstance(n.func, ast.Attribute) and
             n.func.attr == 'join']
    idx_all = [n for n in ast.walk(fn) if isinstance(n, ast.Assign) and len(n.targets) == 1 and
               isinstance(n.targets[0], ast.Name) and n.targets[0].id == 'idx']
    min_end = bool(idx_min) and len(idx_all) == len(idx_min) and not joins
    info['readuntil.list-search'] = 'earliest-end' if min_end else 'one-alternation (or unrecognised)'
    defs.append('/-- a separator list is searched with one pattern per separator and the match that ends first is taken\n'
                '    (`idx = min(...)`, no `|`.join) -/\n'
                'def listSearchMinEnd : Bool := %s' % ('true' if min_end else 'false'))

    # _should_pause_reading
    fn = _find(cls.body, '_should_pause_reading')
    rets = [n for n in ast.walk(fn) if isinstance(n, ast.Return)]
    if len(rets) != 1 or rets[0].value is None:
        raise Untranslatable('_should_pause_reading: expected one return')
    tr = Tr({'self._limit': ('limit', 'int'), 'self._recv_buf_len': ('bufLen', 'int')})
    info['_should_pause_reading'] = ast.unparse(rets[0].value)
    defs.append('/-- `return %s` (SSHStreamSession._should_pause_reading) -/\n'
                'def shouldPauseCode (limit bufLen : Int) : Prop :=\n  %s' % (info['_should_pause_reading'], tr.prop(rets[0].value)))

    # _should_block_drain
    fn = _find(cls.body, '_should_block_drain')
    rets = [n for n in ast.walk(fn) if isinstance(n, ast.Return)]
    if len(rets) != 1 or rets[0].value is None:
        raise Untranslatable('_should_block_drain: expected one return')
    tr = Tr({'self._write_paused': ('writePaused', 'bool'), 'self._connection_lost': ('connLost', 'bool')})
    info['_should_block_drain'] = ast.unparse(rets[0].value)
    defs.append('/-- `return %s` (SSHStreamSession._should_block_drain) -/\n'
                'def shouldBlockDrainCode (writePaused connLost : Bool) : Prop :=\n  %s'
                % (info['_should_block_drain'], tr.prop(rets[0].value)))

    # read: the loop exit test and the "split the head chunk" test
    fn = _find(cls.body, 'read')
    brk = [n for n in ast.walk(fn) if isinstance(n, ast.If) and len(n.body) == 1 and isinstance(n.body[0], ast.Break)
           and isinstance(n.test, ast.BoolOp) and isinstance(n.test.op, ast.Or)]
    if len(brk) != 1:
        raise Untranslatable('read: expected exactly one `if <a or b or ...>: break`')
    tr = Tr({'n': ('n', 'int'), 'data': ('got', 'bool'), 'exact': ('exact', 'bool'), 'recv_buf': ('bufNonEmpty', 'bool'),
             'self._eof_received': ('eof', 'bool'), 'break_read': ('brk', 'bool')})
    info['read.break'] = ast.unparse(brk[0].test)
    defs.append('/-- `if %s: break` (SSHStreamSession.read) -/\n'
                'def readBreakCode (n : Int) (got exact bufNonEmpty eof brk : Bool) : Prop :=\n  %s'
                % (info['read.break'].replace('\n', ' '), tr.prop(brk[0].test)))
    split = [n for n in ast.walk(fn) if isinstance(n, ast.If) and isinstance(n.test, ast.Compare) and
             len(n.test.ops) == 2 and 'l' in {x.id for x in ast.walk(n.test) if isinstance(x, ast.Name)}]
    if len(split) != 1:
        raise Untranslatable('read: expected exactly one chained comparison on `l`')
    tr = Tr({'n': ('n', 'int'), 'l': ('l', 'int')})
    info['read.split'] = ast.unparse(split[0].test)
    defs.append('/-- `if %s:` (SSHStreamSession.read: take only part of the head chunk) -/\n'
                'def readSplitCode (l n : Int) : Prop :=\n  %s' % (info['read.split'], tr.prop(split[0].test)))
    final = [n for n in fn.body if isinstance(n, ast.If) and len(n.body) == 1 and isinstance(n.body[0], ast.Raise)]
    if len(final) != 1:
        raise Untranslatable('read: expected one final `if ...: raise IncompleteReadError`')
    tr = Tr({'n': ('n', 'int'), 'exact': ('exact', 'bool')})
    info['read.incomplete'] = ast.unparse(final[0].test)
    defs.append('/-- `if %s: raise IncompleteReadError` (SSHStreamSession.read) -/\n'
                'def readIncompleteCode (n : Int) (exact : Bool) : Prop :=\n  %s' % (info['read.incomplete'], tr.prop(final[0].test)))

    text = ('/- GENERATED by harness/props/_c19_translate.py from %s — do not edit.\n'
            '   Expressions of asyncssh/stream.py translated from the Python AST; Props/C19.lean proves that the model\'s\n'
            '   hand-written definitions agree with them. -/\n'
            'namespace AsyncsshModel.Gen.C19\n\n%s\n\nend AsyncsshModel.Gen.C19\n'
            % ('asyncssh/stream.py', '\n\n'.join(defs)))
    changed = vlib.write_if_changed(os.path.join(vlib.LEAN_DIR, 'AsyncsshModel', 'Gen', 'C19.lean'), text)
    info['regenerated'] = changed
    return info
