"""C19 translator: integer / boolean expressions of asyncssh/stream.py -> lean/AsyncsshModel/Gen/C19.lean.

Restricted on purpose: names (from a per-expression table giving their Lean name and type), integer constants,
+ - *, comparisons (also chained), and/or/not, conditional expressions, max/min, bool(int), truthiness of a name.
Anything else raises (the runner records a broken tie)."""

from __future__ import annotations

import ast
import os
from typing import Any, Dict, List, Tuple

import vlib


class Untranslatable(Exception):
    pass


class Tr:
    def __init__(self, names: Dict[str, Tuple[str, str]]):
        self.names = names      # python source of the name/attribute -> (lean name, 'int' | 'bool')

    def key(self, node: ast.AST) -> str:
        return ast.unparse(node)

    def typ(self, node: ast.AST) -> str:
        if not isinstance(node, (ast.Name, ast.Attribute)) and self.key(node) in self.names:
            return self.names[self.key(node)][1]     # a whole sub-expression named in the table
        if isinstance(node, (ast.Name, ast.Attribute)):
            k = self.key(node)
            if k in self.names:
                return self.names[k][1]
            raise Untranslatable('unknown name ' + k)
        if isinstance(node, ast.Constant) and isinstance(node.value, bool):
            return 'bool'
        if isinstance(node, ast.Constant) and isinstance(node.value, int):
            return 'int'
        if isinstance(node, (ast.Compare, ast.BoolOp)) or (isinstance(node, ast.UnaryOp) and isinstance(node.op, ast.Not)):
            return 'bool'
        if isinstance(node, ast.Call) and isinstance(node.func, ast.Name) and node.func.id == 'bool':
            return 'bool'
        return 'int'

    def int(self, node: ast.AST) -> str:
        if isinstance(node, ast.Constant) and isinstance(node.value, int) and not isinstance(node.value, bool):
            return '(%d : Int)' % node.value if node.value >= 0 else '(-%d : Int)' % -node.value
        if isinstance(node, (ast.Name, ast.Attribute)):
            k = self.key(node)
            if k in self.names and self.names[k][1] == 'int':
                return self.names[k][0]
            raise Untranslatable('not an integer name: ' + k)
        if isinstance(node, ast.BinOp) and isinstance(node.op, (ast.Add, ast.Sub, ast.Mult)):
            op = {ast.Add: '+', ast.Sub: '-', ast.Mult: '*'}[type(node.op)]
            return '(%s %s %s)' % (self.int(node.left), op, self.int(node.right))
        if isinstance(node, ast.UnaryOp) and isinstance(node.op, ast.USub):
            return '(- %s)' % self.int(node.operand)
        if isinstance(node, ast.IfExp):
            return '(if %s then %s else %s)' % (self.prop(node.test), self.int(node.body), self.int(node.orelse))
        if isinstance(node, ast.Call) and isinstance(node.func, ast.Name) and node.func.id in ('max', 'min') \
                and len(node.args) == 2 and not node.keywords:
            return '(%s %s %s)' % (node.func.id, self.int(node.args[0]), self.int(node.args[1]))
        raise Untranslatable('integer expression: ' + ast.dump(node)[:120])

    def prop(self, node: ast.AST) -> str:
        if isinstance(node, ast.Constant) and isinstance(node.value, bool):
            return 'True' if node.value else 'False'
        if isinstance(node, (ast.Subscript, ast.Call, ast.Compare)) and self.key(node) in self.names:
            # a sub-expression the table names as a whole (`self._recv_eof[datatype]`, `datatype in self._readers`,
            # `any(self._send_eof.values())`, `super()._should_block_drain(datatype)`)
            lean, ty = self.names[self.key(node)]
            if ty == 'prop':
                return lean
            if ty != 'bool':
                raise Untranslatable('not a boolean sub-expression: ' + self.key(node))
            return '(%s = true)' % lean
        if isinstance(node, (ast.Name, ast.Attribute)):
            k = self.key(node)
            if k not in self.names:
                raise Untranslatable('unknown name ' + k)
            lean, ty = self.names[k]
            return '(%s = true)' % lean if ty == 'bool' else '(%s ≠ 0)' % lean
        if isinstance(node, ast.Call) and isinstance(node.func, ast.Name) and node.func.id == 'bool' and len(node.args) == 1:
            return self.prop(node.args[0])
        if isinstance(node, ast.UnaryOp) and isinstance(node.op, ast.Not):
            return '(¬ %s)' % self.prop(node.operand)
        if isinstance(node, ast.BoolOp):
            op = ' ∧ ' if isinstance(node.op, ast.And) else ' ∨ '
            return '(' + op.join(self.prop(v) for v in node.values) + ')'
        if isinstance(node, ast.Compare):
            parts = []
            left = node.left
            for op, right in zip(node.ops, node.comparators):
                sym = {ast.Eq: '=', ast.NotEq: '≠', ast.Lt: '<', ast.LtE: '≤', ast.Gt: '>', ast.GtE: '≥'}.get(type(op))
                if sym is None:
                    raise Untranslatable('comparison operator')
                parts.append('(%s %s %s)' % (self.int(left), sym, self.int(right)))
                left = right
            return '(' + ' ∧ '.join(parts) + ')'
        if self.typ(node) == 'int':
            return '(%s ≠ 0)' % self.int(node)
        raise Untranslatable('boolean expression: ' + ast.dump(node)[:120])


def _find(body: List[ast.stmt], name: str) -> Any:
    for n in body:
        if isinstance(n, (ast.FunctionDef, ast.AsyncFunctionDef, ast.ClassDef)) and n.name == name:
            return n
    raise Untranslatable('no definition named ' + name)


def translate(ctx: Any) -> Dict[str, Any]:
    path = os.path.join(vlib.REPO, 'asyncssh', 'stream.py')
    tree = ast.parse(open(path).read())
    cls = _find(tree.body, 'SSHStreamSession')
    info: Dict[str, Any] = {}
    defs: List[str] = []

    # readuntil: start = ...
    fn = _find(cls.body, 'readuntil')
    starts = [n for n in ast.walk(fn) if isinstance(n, ast.Assign) and len(n.targets) == 1 and
              isinstance(n.targets[0], ast.Name) and n.targets[0].id == 'start']
    if len(starts) != 1:
        raise Untranslatable('readuntil: expected exactly one assignment to `start`')
    tr = Tr({'buflen': ('buflen', 'int'), 'seplen': ('seplen', 'int')})
    info['readuntil.start'] = ast.unparse(starts[0].value)
    defs.append('/-- `start = %s` (SSHStreamSession.readuntil) -/\n'
                'def searchStartCode (buflen seplen : Int) : Int :=\n  %s' % (info['readuntil.start'], tr.int(starts[0].value)))

    # readuntil: how a LIST of separators is searched.  Repaired code (F10): one compiled pattern per separator and
    # `idx = min(<ends of the matches>)`; before: the separators joined into one alternation `sep1|sep2|...`
    idx_min = [n for n in ast.walk(fn) if isinstance(n, ast.Assign) and len(n.targets) == 1 and
               isinstance(n.targets[0], ast.Name) and n.targets[0].id == 'idx' and isinstance(n.value, ast.Call) and
               isinstance(n.value.func, ast.Name) and n.value.func.id == 'min']
    joins = [n for n in ast.walk(fn) if isinstance(n, ast.Call) and isinstance(n.func, ast.Attribute) and
             n.func.attr == 'join']
    idx_all = [n for n in ast.walk(fn) if isinstance(n, ast.Assign) and len(n.targets) == 1 and
               isinstance(n.targets[0], ast.Name) and n.targets[0].id == 'idx']
    min_end = bool(idx_min) and len(idx_all) == len(idx_min) and not joins
    info['readuntil.list-search'] = 'earliest-end' if min_end else 'one-alternation (or unrecognised)'
    defs.append('/-- a separator list is searched with one pattern per separator and the match that ends first is taken\n'
                '    (`idx = min(...)`, no `|`.join) -/\n'
                'def listSearchMinEnd : Bool := %s' % ('true' if min_end else 'false'))

    # _should_pause_reading
    fn = _find(cls.body, '_should_pause_reading')
    rets = [n for n in ast.walk(fn) if isinstance(n, ast.Return)]
    if len(rets) != 1 or rets[0].value is None:
        raise Untranslatable('_should_pause_reading: expected one return')
    tr = Tr({'self._limit': ('limit', 'int'), 'self._recv_buf_len': ('bufLen', 'int')})
    info['_should_pause_reading'] = ast.unparse(rets[0].value)
    defs.append('/-- `return %s` (SSHStreamSession._should_pause_reading) -/\n'
                'def shouldPauseCode (limit bufLen : Int) : Prop :=\n  %s' % (info['_should_pause_reading'], tr.prop(rets[0].value)))

    # _should_block_drain
    fn = _find(cls.body, '_should_block_drain')
    rets = [n for n in ast.walk(fn) if isinstance(n, ast.Return)]
    if len(rets) != 1 or rets[0].value is None:
        raise Untranslatable('_should_block_drain: expected one return')
    tr = Tr({'self._write_paused': ('writePaused', 'bool'), 'self._connection_lost': ('connLost', 'bool')})
    info['_should_block_drain'] = ast.unparse(rets[0].value)
    defs.append('/-- `return %s` (SSHStreamSession._should_block_drain) -/\n'
                'def shouldBlockDrainCode (writePaused connLost : Bool) : Prop :=\n  %s'
                % (info['_should_block_drain'], tr.prop(rets[0].value)))

    # read: the loop exit test and the "split the head chunk" test
    fn = _find(cls.body, 'read')
    brk = [n for n in ast.walk(fn) if isinstance(n, ast.If) and len(n.body) == 1 and isinstance(n.body[0], ast.Break)
           and isinstance(n.test, ast.BoolOp) and isinstance(n.test.op, ast.Or)]
    if len(brk) != 1:
        raise Untranslatable('read: expected exactly one `if <a or b or ...>: break`')
    tr = Tr({'n': ('n', 'int'), 'data': ('got', 'bool'), 'exact': ('exact', 'bool'), 'recv_buf': ('bufNonEmpty', 'bool'),
             'self._eof_received': ('eof', 'bool'), 'break_read': ('brk', 'bool')})
    info['read.break'] = ast.unparse(brk[0].test)
    defs.append('/-- `if %s: break` (SSHStreamSession.read) -/\n'
                'def readBreakCode (n : Int) (got exact bufNonEmpty eof brk : Bool) : Prop :=\n  %s'
                % (info['read.break'].replace('\n', ' '), tr.prop(brk[0].test)))
    split = [n for n in ast.walk(fn) if isinstance(n, ast.If) and isinstance(n.test, ast.Compare) and
             len(n.test.ops) == 2 and 'l' in {x.id for x in ast.walk(n.test) if isinstance(x, ast.Name)}]
    if len(split) != 1:
        raise Untranslatable('read: expected exactly one chained comparison on `l`')
    tr = Tr({'n': ('n', 'int'), 'l': ('l', 'int')})
    info['read.split'] = ast.unparse(split[0].test)
    defs.append('/-- `if %s:` (SSHStreamSession.read: take only part of the head chunk) -/\n'
                'def readSplitCode (l n : Int) : Prop :=\n  %s' % (info['read.split'], tr.prop(split[0].test)))
    final = [n for n in fn.body if isinstance(n, ast.If) and len(n.body) == 1 and isinstance(n.body[0], ast.Raise)]
    if len(final) != 1:
        raise Untranslatable('read: expected one final `if ...: raise IncompleteReadError`')
    tr = Tr({'n': ('n', 'int'), 'exact': ('exact', 'bool')})
    info['read.incomplete'] = ast.unparse(final[0].test)
    defs.append('/-- `if %s: raise IncompleteReadError` (SSHStreamSession.read) -/\n'
                'def readIncompleteCode (n : Int) (exact : Bool) : Prop :=\n  %s' % (info['read.incomplete'], tr.prop(final[0].test)))

    # readuntil: when does the call give up without a match (the `if` whose body raises IncompleteReadError after the
    # scan loop, i.e. the one that is a direct child of the outer `while True`)
    fn = _find(cls.body, 'readuntil')
    outer = [n for n in ast.walk(fn) if isinstance(n, ast.While) and isinstance(n.test, ast.Constant) and n.test.value is True]
    if len(outer) != 1:
        raise Untranslatable('readuntil: expected exactly one `while True`')
    giveup = [n for n in outer[0].body if isinstance(n, ast.If) and any(isinstance(x, ast.Raise) for x in n.body)]
    if len(giveup) != 1:
        raise Untranslatable('readuntil: expected exactly one give-up test in the outer loop')
    tr = Tr({'self._read_paused': ('paused', 'bool'), 'buf': ('bufNonEmpty', 'bool'),
             'self._eof_received': ('eof', 'bool')})
    info['readuntil.give-up'] = ast.unparse(giveup[0].test)
    defs.append('/-- `if %s: ... raise IncompleteReadError(buf)` (SSHStreamSession.readuntil, after the scan loop) -/\n'
                'def untilGiveUpCode (paused bufNonEmpty eof : Bool) : Prop :=\n  %s'
                % (info['readuntil.give-up'], tr.prop(giveup[0].test)))

    # ---- asyncssh/process.py: SSHProcess ------------------------------------------------------------------------
    ppath = os.path.join(vlib.REPO, 'asyncssh', 'process.py')
    ptree = ast.parse(open(ppath).read())
    pcls = _find(ptree.body, 'SSHProcess')

    # the override of _should_block_drain every process session runs
    fn = _find(pcls.body, '_should_block_drain')
    rets = [n for n in ast.walk(fn) if isinstance(n, ast.Return)]
    if len(rets) != 1 or rets[0].value is None:
        raise Untranslatable('SSHProcess._should_block_drain: expected one return')
    tr = Tr({'datatype in self._readers': ('readerActive', 'bool'),
             'super()._should_block_drain(datatype)': ('(shouldBlockDrainCode writePaused connLost)', 'prop')})
    info['SSHProcess._should_block_drain'] = ast.unparse(rets[0].value)
    defs.append('/-- `return %s` (SSHProcess._should_block_drain, asyncssh/process.py) -/\n'
                'def procShouldBlockDrainCode (readerActive writePaused connLost : Bool) : Prop :=\n  %s'
                % (info['SSHProcess._should_block_drain'], tr.prop(rets[0].value)))

    # connection_lost: are the drain waiters signalled (again) after the readers have been forgotten?
    fn = _find(pcls.body, 'connection_lost')
    cleared_at = None
    woken_after = False
    for i, st in enumerate(fn.body):
        if isinstance(st, ast.Assign) and len(st.targets) == 1 and ast.unparse(st.targets[0]) == 'self._readers' and \
                isinstance(st.value, ast.Dict) and not st.value.keys:
            cleared_at = i
        elif cleared_at is not None and any(isinstance(x, ast.Call) and ast.unparse(x.func) == 'self._unblock_drain'
                                            for x in ast.walk(st)):
            woken_after = True
    if cleared_at is None:
        raise Untranslatable('SSHProcess.connection_lost: expected `self._readers = {}`')
    info['SSHProcess.connection_lost.unblocks-drain-after-clearing-readers'] = woken_after
    defs.append('/-- SSHProcess.connection_lost calls `self._unblock_drain` after `self._readers = {}` (the call the base\n'
                '    class makes comes while the readers are still registered, when `_should_block_drain` is still true) -/\n'
                'def connLostUnblocksAfterReadersCleared : Bool := %s' % ('true' if woken_after else 'false'))

    # feed_recv_buf: the test in front of `writer.write_eof()`
    fn = _find(pcls.body, 'feed_recv_buf')
    eofs = [n for n in ast.walk(fn) if isinstance(n, ast.If) and len(n.body) == 1 and
            ast.unparse(n.body[0]) == 'writer.write_eof()']
    if len(eofs) != 1:
        raise Untranslatable('feed_recv_buf: expected exactly one `if ...: writer.write_eof()`')
    tr = Tr({'self._eof_received': ('eofSeen', 'bool'), 'self._recv_eof[datatype]': ('recvEof', 'bool')})
    info['feed_recv_buf.eof'] = ast.unparse(eofs[0].test)
    defs.append('/-- `if %s: writer.write_eof()` (SSHProcess.feed_recv_buf) -/\n'
                'def feedRecvBufEofCode (eofSeen recvEof : Bool) : Prop :=\n  %s'
                % (info['feed_recv_buf.eof'], tr.prop(eofs[0].test)))

    # feed_eof: the test in front of `self._chan.write_eof()`, and whether the ending reader is cleared before it
    fn = _find(pcls.body, 'feed_eof')
    weofs = [(i, n) for i, n in enumerate(fn.body) if isinstance(n, ast.If) and
             any(isinstance(x, ast.Call) and ast.unparse(x.func) == 'self._chan.write_eof' for x in ast.walk(n))]
    if len(weofs) != 1:
        raise Untranslatable('feed_eof: expected exactly one top-level `if ...: self._chan.write_eof()`')
    wi, wif = weofs[0]
    clears = [i for i, n in enumerate(fn.body) if any(isinstance(x, ast.Call) and
              ast.unparse(x.func) == 'self.clear_reader' for x in ast.walk(n))]
    if len(clears) != 1:
        raise Untranslatable('feed_eof: expected exactly one call of clear_reader')
    cleared_first = clears[0] < wi
    # `send_eof` must be the flag of the ending reader, read before it is cleared
    flag = [n for n in fn.body[:wi] if isinstance(n, ast.Assign) and len(n.targets) == 1 and
            ast.unparse(n.targets[0]) == 'send_eof' and ast.unparse(n.value) == 'self._send_eof[datatype]']
    names = {'self._send_eof[datatype]': ('sendEof', 'bool'),
             'any(self._send_eof.values())': ('othersWantEof' if cleared_first else 'anyWantsEof', 'bool')}
    if flag:
        names['send_eof'] = ('sendEof', 'bool')
    tr = Tr(names)
    info['feed_eof.send'] = ast.unparse(wif.test)
    info['feed_eof.reader-cleared-before-test'] = cleared_first
    defs.append('/-- `if %s: self._chan.write_eof()` (SSHProcess.feed_eof); `othersWantEof` = `any(self._send_eof.values())`\n'
                '    evaluated after the ending reader was cleared -/\n'
                'def feedEofSendCode (sendEof othersWantEof : Bool) : Prop :=\n  %s'
                % (info['feed_eof.send'], tr.prop(wif.test)))
    defs.append('/-- in SSHProcess.feed_eof `self.clear_reader(datatype)` comes before the test above (so that\n'
                '    `any(self._send_eof.values())` ranges over the OTHER sources only) -/\n'
                'def feedEofClearsReaderFirst : Bool := %s' % ('true' if cleared_first else 'false'))

    # ---- drain: the test after the loop for a call that had to wait (stream.py), and what feeds it (channel.py) ----
    fn = _find(cls.body, 'drain')
    lost_ifs = [n for n in fn.body if isinstance(n, ast.If) and ast.unparse(n.test) == 'self._connection_lost']
    if len(lost_ifs) != 1:
        raise Untranslatable('drain: expected exactly one top-level `if self._connection_lost:`')
    orelse = lost_ifs[0].orelse
    tr = Tr({'blocked': ('blocked', 'bool'), 'self._chan': ('chanPresent', 'bool'),
             'self._chan.is_closing()': ('closing', 'bool'),
             'self._chan.was_write_discarded()': ('discarded', 'bool')})
    if not orelse:
        info['drain.fail-after-wait'] = '<none>'
        fail_prop = 'False'
    elif len(orelse) == 1 and isinstance(orelse[0], ast.If) and not orelse[0].orelse and \
            len(orelse[0].body) == 1 and isinstance(orelse[0].body[0], ast.Raise) and \
            'BrokenPipeError' in ast.unparse(orelse[0].body[0]):
        info['drain.fail-after-wait'] = ast.unparse(orelse[0].test)
        fail_prop = tr.prop(orelse[0].test)
    else:
        raise Untranslatable('drain: unexpected else branch of `if self._connection_lost:`')
    # `blocked` must be: False before the loop, True inside the `while self._should_block_drain(...)` loop
    loops = [n for n in fn.body if isinstance(n, ast.While) and '_should_block_drain' in ast.unparse(n.test)]
    if len(loops) != 1:
        raise Untranslatable('drain: expected exactly one `while self._should_block_drain(...)`')

    def _assigns(stmts: List[ast.stmt], value: bool) -> bool:
        return any(isinstance(x, ast.Assign) and len(x.targets) == 1 and ast.unparse(x.targets[0]) == 'blocked' and
                   isinstance(x.value, ast.Constant) and x.value.value is value for x in stmts)
    flag_ok = _assigns(fn.body[:fn.body.index(loops[0])], False) and _assigns(loops[0].body, True)
    info['drain.blocked-flag'] = flag_ok
    defs.append('/-- `elif %s: raise BrokenPipeError()` after the loop of SSHStreamSession.drain (`False`: no such branch) -/\n'
                'def drainFailAfterWaitCode (blocked chanPresent closing discarded : Bool) : Prop :=\n  %s'
                % (info['drain.fail-after-wait'], fail_prop))
    defs.append('/-- in drain `blocked` is False before the loop and set to True in the body of\n'
                '    `while self._should_block_drain(datatype):` -/\n'
                'def drainBlockedFlagTracksWaiting : Bool := %s' % ('true' if flag_ok else 'false'))

    cpath = os.path.join(vlib.REPO, 'asyncssh', 'channel.py')
    ctree = ast.parse(open(cpath).read())
    ccls = _find(ctree.body, 'SSHChannel')
    fn = _find(ccls.body, '_process_close')
    calls = [ast.unparse(x.value.func) for x in fn.body if isinstance(x, ast.Expr) and isinstance(x.value, ast.Call)]
    resumes = 'self._close_send' in calls and 'self._pause_resume_writing' in calls and \
        calls.index('self._close_send') < calls.index('self._pause_resume_writing')
    info['_process_close.resumes-paused-session'] = resumes
    defs.append('/-- SSHChannel._process_close calls `self._pause_resume_writing()` after `self._close_send()`: a session\n'
                '    paused for writing is resumed when the peer closes the channel (its unsent data is gone) -/\n'
                'def processCloseResumesWriting : Bool := %s' % ('true' if resumes else 'false'))
    fn = _find(ccls.body, '_close_send')
    cleared_at = next((i for i, x in enumerate(fn.body) if isinstance(x, ast.Assign) and
                       ast.unparse(x.targets[0]) == 'self._send_buf_len'), None)
    rec_at = next((i for i, x in enumerate(fn.body) if isinstance(x, ast.If) and
                   ast.unparse(x.test) in ('self._send_buf_len', 'self._send_buf') and
                   any(ast.unparse(y) == 'self._send_discarded = True' for y in x.body)), None)
    getter = [n for n in ccls.body if isinstance(n, ast.FunctionDef) and n.name == 'was_write_discarded']
    getter_ok = bool(getter) and any(isinstance(x, ast.Return) and x.value is not None and
                                     ast.unparse(x.value) == 'self._send_discarded' for x in getter[0].body)
    records = cleared_at is not None and rec_at is not None and rec_at < cleared_at and getter_ok
    info['_close_send.records-discarded-data'] = records
    defs.append('/-- SSHChannel._close_send sets `_send_discarded` when it throws a non-empty send buffer away (before the\n'
                '    buffer is cleared) and `was_write_discarded()` returns that flag -/\n'
                'def closeSendRecordsDiscard : Bool := %s' % ('true' if records else 'false'))

    text = ('/- GENERATED by harness/props/_c19_translate.py from %s — do not edit.\n'
            '   Expressions of asyncssh/stream.py and process.py translated from the Python AST; Props/C19.lean proves that the model\'s\n'
            '   hand-written definitions agree with them. -/\n'
            'namespace AsyncsshModel.Gen.C19\n\n%s\n\nend AsyncsshModel.Gen.C19\n'
            % ('asyncssh/stream.py, asyncssh/process.py and asyncssh/channel.py', '\n\n'.join(defs)))
    changed = vlib.write_if_changed(os.path.join(vlib.LEAN_DIR, 'AsyncsshModel', 'Gen', 'C19.lean'), text)
    info['regenerated'] = changed
    return info
