"""C08 — Flow control is honoured both ways and never deadlocks.

Lean: the channel model of C07 (Model/Channel.lean, Model/ChannelSys.lean); Props/C08.lean: sender_respects_window,
data_packets_bounded, sender_progress / no_spin (unconditional since fix de5c08f; sender_spins_zero_pktsize_old is the
witness for the old loop), receiver_accounting, receiver_enforces_window (unconditional since fix 53cd2ff;
receiver_window_exceeded_while_paused_old the witness), replenish_rule,
honest_no_protocol_error, no_deadlock_prop, delivery_decreases_measure, every_byte_eventually_delivered, and the
equalities between the model's arithmetic and the expressions regenerated from channel.py (Gen/C08.lean).
Correspondence: as C07 (real client/server pair, packet-by-packet delivery, same driver) with windows and packet sizes
down to 1, maximum packet size 0, and a raw hostile peer (`chan.send_packet(MSG_CHANNEL_DATA, ...)` bypasses the
sender-side accounting): DATA of any size / datatype, WINDOW_ADJUST of any value, EOF, CLOSE in any order while the
victim's application pauses and resumes; compared: DATA sizes and WINDOW_ADJUST values on the wire, callbacks,
ProtocolError or not.  Also the window / packet size advertised in CHANNEL_OPEN / OPEN_CONFIRMATION.
Since fix ae15f0e data dropped after the local close() and the buffer discarded by it are credited with a
WINDOW_ADJUST of their own (model: acceptData / discardRecv; theorems window_in_step_until_close_sent — sender window
+ in flight + buffered + credit in flight = receiver window until the receiver's CLOSE is out —, receiver_accounting
with the ghost count `dropped`, dropped_data_is_credited, discarded_data_is_credited, tie
dropped_data_credited_in_code; witness mutual_close_deadlock_preCredit / mutual_close_completes).
Also (audit findings D2, D3, D4; repairs e7dbee0, afe8b9e, 9f86e20): pause_honoured_prop (while the application has
reading paused nothing but its own resume makes the endpoint call data_received — a second `shell` request did before
the repair: witness second_session_request_ended_pause_preFix, tie second_session_request_refused),
no_protocol_error_after_local_close (text layer, Model/ChannelDecode.lean; witness
honest_eof_after_close_midchar_fatal_preFix), tun_receiver_accounting (layer-3 tunnel channel, Model/ChannelVariants.lean:
the stripped address family is accounted; witnesses tun_window_leak_preFix, tun_stalls_after_one_packet_preFix, tie
tun_header_counted_in_code).  The scripted cases include a second `shell` request (op `req`) in the honest profiles, a
text receiver closing in the middle of a character, and layer-3 tunnel streams of several windows against small
windows (props/_channel_audit.py).
Oracle (independent accounting over the wire trace): no DATA packet beyond the window granted so far or the peer's
maximum packet size; a receiver accepts no more than it advertised (also while paused); everything written reaches
a reader that reads; no operation emits an unbounded number of packets.
"""

from __future__ import annotations

from typing import Any, Dict, List

from vlib import Ctx, CorrResult, OracleResult, Failure, Disagreement, Hist

import translate as T
from props import _channel_audit as A
from props import _channel_gen as G
from props import _channel_lib as L
from props import _channel_oracle as O

PROPERTY = 'C08'
MANIFEST = {
    'text': 'Lean 4 theorems about the executable model of SSHChannel shared with C07. One endpoint against ANY peer: '
            'bytes sent + send window = initial window + adjusts received, every DATA packet <= peer max packet and '
            'within the granted window (sender_respects_window, data_packets_bounded); receive window + delivered = '
            'advertised (receiver_accounting), excess over delivered + buffered is ProtocolError, paused or not '
            '(receiver_enforces_window); the send loop terminates for every packet size (sender_progress, no_spin); '
            'replenish rule equal to the expression regenerated from _deliver_data; data dropped after the local '
            'close() or discarded by it is credited with its own WINDOW_ADJUST (fix ae15f0e: receiver_accounting counts '
            'it, window_in_step_until_close_sent keeps the two windows equal until the CLOSE is out, witness '
            'mutual_close_deadlock_preCredit for the code before). '
            'Two honest endpoints, every event sequence: no ProtocolError and no spinning loop (honest_no_protocol_error), '
            'a delivery is enabled whenever data is undelivered and the reader reads (no_deadlock_prop), every delivery '
            'decreases a potential (delivery_decreases_measure), hence every written byte is delivered '
            '(every_byte_eventually_delivered, for a non-zero maximum packet size). The reader\'s pause is honoured '
            'by every event but its own resume (pause_honoured_prop; a second shell request is refused: repair e7dbee0); '
            'after the application\'s close() the text layer never raises (no_protocol_error_after_local_close: repair '
            'afe8b9e); a layer-3 tunnel endpoint accounts the stripped address family (tun_receiver_accounting: repair '
            '9f86e20) — each with a witness theorem for the code before the repair. The behaviour before the fixes '
            'de5c08f / 53cd2ff (spinning send loop, window not enforced while paused) is kept as witness theorems about '
            'the old functions, and the scenarios stay in the oracle corpus.',
    'note': 'fairness of delivery is the assumption of the liveness corollary; stream.py pausing at one window of '
            'buffered data is represented by the application pausing from inside data_received; window 0 and sizes '
            '>= 2^32 are excluded',
    'technique': 'Lean 4 proof (accounting invariants for one endpoint against an arbitrary peer; potential function '
                 'for the composition) + translator for the integer expressions + differential correspondence incl. a '
                 'raw hostile peer + wire-accounting oracle',
}
LEAN_PROPS = ['AsyncsshModel.Props.C08']
DRIVER = 'Drivers/C07.lean'
TRUSTED = ['asyncssh transport below the channel layer (C01/C02)',
           'harness/props/_channel_lib.py: delivery events on the in-memory hub, the packet budget that detects a '
           'spinning send loop (6000 packets per operation)']
ASSUMPTIONS = ['advertised windows are non-zero and < 2^32',
               'liveness: the receiving application keeps reading (not paused, not closed) and deliveries are fair']


def translate(ctx: Ctx) -> Dict[str, Any]:
    try:
        info = G.generate('C08')
    except T.Untranslatable as e:
        # the code no longer has the shape the translator reads: the generated file keeps its last content and
        # the tie for these expressions falls back to the correspondence run (DESIGN 2.1, T1 fallback)
        ctx.translator_fallbacks.append(f'channel arithmetic: {e}')
        return {'gen_file': 'Gen/C08.lean', 'fallback': str(e)}
    for fb in info.get('fallbacks', []):
        ctx.translator_fallbacks.append('channel arithmetic, baseline text used: ' + fb)
    bad = G.self_test('C08', info, ctx.subrng('selftest'))
    if bad:
        raise RuntimeError('translated expressions disagree with the Python originals: ' + '; '.join(bad[:3]))
    return info


def correspondence(ctx: Ctx) -> CorrResult:
    res = CorrResult()
    hist = Hist()
    plan = [('hostile', ctx.n(380, 4000)), ('tiny', ctx.n(140, 1800)), ('stream', ctx.n(120, 1500)),
            ('zero', ctx.n(6, 40)), ('textclose-dec', ctx.n(40, 600))]
    cases: List[Dict[str, Any]] = [c for c in audit_cases() if not c['chans'][0].get('enc')]
    for prof, n in plan:
        rng = ctx.subrng('corr:' + prof)
        cases += [L.gen_case(rng, prof) for _ in range(n)]
    lines: List[str] = []
    index = []
    for c in cases:
        ml = L.model_lines(c)
        index.append((len(lines), len(ml)))
        lines += ml
    out = ctx.model(DRIVER, lines)
    for c, (o, n) in zip(cases, index):
        mres = L.model_results(c, out[o:o + n])
        real = L.run_case(c)
        res.cases += 1
        hist.hit('profile:' + c['profile'])
        if real['error'] and O._zero_pktsize(c) and 'ChannelOpenError' in str(real['error']):
            hist.hit('result:open-refused:max-packet-size-0')      # (once the zero check is active)
            continue
        if real['error']:
            res.disagreements.append(Disagreement({'case': c}, 'n/a', 'harness error: ' + str(real['error']),
                                                  'correspondence:' + c['profile']))
            continue
        # the parameters on the wire are the configured ones
        for i, (cfg, op) in enumerate(zip(c['chans'], real.get('opened', []))):
            want = {k: cfg[k] for k in ('wa', 'pa', 'wb', 'pb')}
            got = {k: op[k] for k in ('wa', 'pa', 'wb', 'pb')}
            if want != got:
                res.disagreements.append(Disagreement({'case': c, 'channel': i}, want, got,
                                                      'correspondence:open-parameters'))
        for k, (r, m) in enumerate(zip(real['results'], mres)):
            w = r.split()
            hist.hit('result:' + w[0] + (':' + w[1] if w[0] in ('api', 'fatal') else ''))
            hist.hit('op:' + (c['ops'][k][0] + ':' + c['ops'][k][3] if c['ops'][k][0] in ('app', 'raw') else c['ops'][k][0]))
            if r != m:
                small = dict(c, ops=c['ops'][:k + 1])
                res.disagreements.append(Disagreement({'case': small, 'op_index': k, 'op': c['ops'][k]}, m, r,
                                                      'correspondence:' + c['profile']))
                break
        if any(x.startswith('fatal') for x in real['results']) or \
                any('msgs=A' in x or ',A' in x for x in real['results']):
            res.nontrivial += 1
        if len(res.samples) < 3:
            res.samples.append({'chans': c['chans'], 'ops': c['ops'][:6], 'impl': real['results'][:6]})
    res.histogram = dict(hist)
    res.rule = 'non-trivial = the run contains a WINDOW_ADJUST or ends in a ProtocolError / spinning loop'
    return res


BASE = {'wa': 100, 'pa': 32, 'wb': 100, 'pb': 32, 'keepA': True, 'keepB': True, 'pausedA': 'n',
        'decA': False, 'decB': False}


def directed_cases() -> List[Dict[str, Any]]:
    f2 = {'profile': 'zero', 'chans': [dict(BASE, pa=0)], 'ops': [['app', 'b', 0, 'write', None, '41']]}
    f2b = {'profile': 'zero', 'effective_zero': True, 'chans': [dict(BASE, pa=1)],
           'client_opts': {'client_version': 'dropbear_2022.83', 'compression_algs': ['zlib@openssh.com']},
           'server_opts': {'compression_algs': ['zlib@openssh.com']},
           'ops': [['app', 'b', 0, 'write', None, '41']]}
    blob = '41' * 96
    f3 = {'profile': 'hostile', 'victim': 'a', 'chans': [dict(BASE)], 'ops':
          [['app', 'a', 0, 'pause']] + [['raw', 'a', 0, 'data', None, blob]] * 5}
    f3b = {'profile': 'hostile', 'victim': 'b', 'chans': [dict(BASE)], 'ops':
           [['app', 'b', 0, 'pause']] + [['raw', 'b', 0, 'data', None, blob]] * 5}
    ok = {'profile': 'hostile', 'victim': 'a', 'chans': [dict(BASE)], 'ops':
          [['raw', 'a', 0, 'data', None, blob], ['raw', 'a', 0, 'data', None, blob]]}
    return [f2, f2b, f3, f3b, ok]


def audit_cases() -> List[Dict[str, Any]]:
    """directed cases for the audit findings D2 (a second shell request resumes a paused reader) and D3 (close() in
    the middle of a character, then the honest peer's EOF / CLOSE: ProtocolError between honest peers)"""
    big = dict(BASE, wa=1 << 21, pa=32768, wb=1 << 21, pb=32768)
    euro3 = 'e282ace282ace282ac'
    out = []
    for wb in (100, 16):
        out.append({'profile': 'directed', 'chans': [dict(BASE, wb=wb)], 'ops': [
            ['app', 'b', 0, 'pause'], ['app', 'a', 0, 'write', None, '30313233343536373839' * 3], ['deliver', 'b'],
            ['req', 'a', 0], ['deliver', 'b'], ['deliver', 'a'], ['deliver', 'b'], ['deliver', 'b'],
            ['app', 'a', 0, 'write', None, '6162636465'], ['deliver', 'b'], ['deliver', 'a'], ['deliver', 'b']]})
    # both applications close with more to send than the peer's window allows (fix ae15f0e): each drops what it
    # receives, credits the window, and both get their data and their CLOSE out
    out.append({'profile': 'directed', 'chans': [dict(BASE, wa=4, wb=4)], 'ops': [
        ['app', 'a', 0, 'write', None, '3031323334353637'], ['app', 'b', 0, 'write', None, '4142434445464748'],
        ['app', 'a', 0, 'close'], ['app', 'b', 0, 'close'], ['deliver', 'a'], ['deliver', 'b'], ['deliver', 'a'],
        ['deliver', 'b'], ['deliver', 'a'], ['deliver', 'a'], ['deliver', 'b'], ['deliver', 'b']]})
    # ... and with data buffered behind a pause when close() is called (discarded, credited)
    out.append({'profile': 'directed', 'chans': [dict(BASE, wa=8, wb=8)], 'ops': [
        ['app', 'a', 0, 'pause'], ['app', 'b', 0, 'pause'],
        ['app', 'a', 0, 'write', None, '30313233343536373839414243444546'],
        ['app', 'b', 0, 'write', None, '61626364656667686970717273747576'],
        ['deliver', 'a'], ['deliver', 'b'], ['app', 'a', 0, 'close'], ['app', 'b', 0, 'close'],
        ['deliver', 'a'], ['deliver', 'b'], ['deliver', 'a'], ['deliver', 'b'], ['deliver', 'a'], ['deliver', 'b'],
        ['deliver', 'a'], ['deliver', 'b']]})
    # the request arrives while the reader is NOT paused: refused as well, nothing else happens
    out.append({'profile': 'directed', 'chans': [dict(BASE)], 'ops': [
        ['app', 'a', 0, 'write', None, '303132'], ['req', 'a', 0], ['deliver', 'b'], ['deliver', 'b'], ['deliver', 'a'],
        ['app', 'a', 0, 'close'], ['req', 'a', 0], ['deliver', 'b'], ['deliver', 'b']]})
    for ending in (['eof'], ['close']):
        for cfg in (dict(big, pa=4, enc='utf-8', errors='strict'), dict(big, pa=4, decA=True)):
            out.append({'profile': 'directed', 'chans': [dict(cfg)], 'ops': [
                ['app', 'b', 0, 'write', None, euro3], ['deliver', 'a'], ['app', 'a', 0, 'close'], ['deliver', 'a'],
                ['deliver', 'a'], ['deliver', 'b']] + [['app', 'b', 0, e] for e in ending] +
                [['deliver', 'a'], ['deliver', 'a'], ['deliver', 'a'], ['deliver', 'b']]})
    return out


def oracle(ctx: Ctx) -> OracleResult:
    res = OracleResult()
    hist = Hist()
    todo: List[Dict[str, Any]] = []
    for s in ctx.suspects:
        if isinstance(s, dict) and 'case' in s and isinstance(s['case'], dict) and 'chans' in s['case']:
            todo.append(s['case'])
    todo += directed_cases()
    todo += audit_cases()
    for prof, n in [('hostile', ctx.n(220, 3000)), ('tiny', ctx.n(120, 1800)), ('stream', ctx.n(110, 1600)),
                    ('multi', ctx.n(40, 600)), ('zero', ctx.n(3, 20)), ('textclose', ctx.n(50, 700))]:
        rng = ctx.subrng('oracle:' + prof)
        todo += [L.gen_case(rng, prof) for _ in range(n)]
    # layer-3 tunnel channels: streams of several windows against small windows, the reader reads all along
    arng = ctx.subrng('oracle:audit')
    seen = set()
    for case in A.tun_cases() + [A.gen_tun(arng) for _ in range(ctx.n(30, 500))]:
        out = A.run_scenario(case)
        res.evaluations += 1
        hist.hit('profile:' + case['kind'])
        for f in A.check_scenario(PROPERTY, case, out):
            hist.hit('failure:' + f.signature)
            if f.signature not in seen:
                seen.add(f.signature)
                f.replay['case'] = A.shrink_tun(PROPERTY, f.replay['case'], f.signature)
            res.failures.append(f)
        if not out.get('error') and len(out.get('got', [])) * 100 > case['window']:
            res.nontrivial += 1
    for case in todo:
        real = L.run_case(case, drain=case.get('profile') not in ('hostile',))
        res.evaluations += 1
        hist.hit('profile:' + case.get('profile', '?'))
        hist.hit('outcome:' + ('fatal:' + str(real.get('dead')) if real.get('dead') else
                               'drained' if real.get('drained') else 'error' if real.get('error') else 'ran'))
        fails = O.check_c08(case, real)
        for f in fails:
            hist.hit('failure:' + f.signature)
            if f.signature not in seen:
                seen.add(f.signature)
                f.replay['case'] = shrink(f.replay['case'], f.signature)
            res.failures.append(f)
        if real.get('log') and any('msgs=A' in r or ',A' in r for _op, r in real['log']):
            res.nontrivial += 1
        if len(res.samples) < 3 and real.get('log'):
            res.samples.append({'chans': case['chans'], 'ops': case['ops'][:5],
                                'results': [r for _op, r in real['log'][:5]]})
    first, rest, sigs = [], [], set()
    for f in res.failures:          # the first failure of every signature first (the runner prints the first few)
        (rest if f.signature in sigs else first).append(f)
        sigs.add(f.signature)
    res.failures = first + rest
    res.histogram = dict(hist)
    res.rule = ('non-trivial = at least one WINDOW_ADJUST was sent during the run (tunnel scenario: more than one '
                'window of packets reached the reader)')
    return res


def shrink(case: Dict[str, Any], signature: str) -> Dict[str, Any]:
    def still(c: Dict[str, Any]) -> bool:
        try:
            real = L.run_case(c, drain=c.get('profile') not in ('hostile',))
            return any(f.signature == signature for f in O.check_c08(c, real))
        except Exception:
            return False
    try:
        return L.shrink_case(case, still, budget=30)
    except Exception:
        return case


def replay(ctx: Ctx, rep: Dict[str, Any]) -> List[Failure]:
    case = rep.get('replay', {}).get('case') or rep.get('case')
    if not case:
        for d in rep.get('disagreements', []):
            if isinstance(d.get('case'), dict) and 'case' in d['case']:
                case = d['case']['case']
                break
    if not case:
        return []
    if 'kind' in case:
        return A.check_scenario(PROPERTY, case, A.run_scenario(case))
    return O.check_c08(case, L.run_case(case, drain=case.get('profile') not in ('hostile',)))
