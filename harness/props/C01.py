"""C01 — Encrypted transport is tamper-evident in both directions.

Lean: Model/Transport.lean (receiver machine), Lemmas/Transport.lean (invariant), Props/C01.lean
(recv_only_unmodified, recv_outputs_prefix, recv_detects, recv_intact_before under ciphertext integrity).
Correspondence: two real endpoints joined by the in-memory MITM; one edit per case after keys are in effect;
the Lean receiver over the ideal channel built from the recorded honest packets predicts (packets dispatched,
closed-with-MAC-error | stalled) and the real receiver must agree.
Oracle: application bytes received are a prefix of those sent and the receiver ended with an integrity/protocol
error or stalled, for every edit.
"""

from __future__ import annotations

import asyncio
import random
from typing import Any, Dict, List, Optional, Tuple

import asyncssh

import capture
import pair
import refpeer
from vlib import Ctx, CorrResult, OracleResult, Failure, Disagreement, Hist, hx

from props import _transport_gen as tgen
from props import _transport_sessions as ts

PROPERTY = 'C01'
MANIFEST = {
    'text': 'Lean 4 theorems about the receive loop (asyncssh/connection.py _recv_pkthdr/_recv_packet) for ANY byte '
            'string and ANY chunking an on-path attacker presents, under ciphertext integrity of the negotiated '
            'cipher/MAC carried as a hypothesis: what is dispatched is exactly an unmodified prefix of what was '
            'sealed (recv_only_unmodified), an altered/removed/duplicated/reordered/spliced packet and everything '
            'after it is never dispatched (recv_detects), everything before it is (recv_intact_before); every '
            'negotiable pair of the regenerated table carries >= 8 bytes of MAC/tag. Tied to the code by the '
            'translator and by live MITM edits between two real endpoints whose outcome the model must predict.',
    'note': 'integrity of real AES-GCM/ChaCha20-Poly1305/HMAC/UMAC is the ideal-AE hypothesis (IntCtxt), never an '
            'axiom; secrecy (e.g. CBC length oracles) is out of scope; compression errors are subsumed by the MAC check',
    'technique': 'Lean 4 proof by invariant over the receive loop under an ideal-AE hypothesis + live MITM '
                 'differential correspondence',
}
LEAN_PROPS = ['AsyncsshModel.Props.C01']
DRIVER = 'Drivers/C01.lean'
TRUSTED = ['ideal authenticated encryption (ciphertext integrity) for every negotiated cipher/MAC pair']
ASSUMPTIONS = ['fewer than 2^32 packets per key epoch', 'the attacker does not hold the session keys',
               'both ends start the key epoch with the same sequence number (the theorems\' `s0`): sequence numbers '
               'count the cleartext packets of the first exchange too, so this holds against an attacker who injects '
               'or removes cleartext packets only when both ends negotiated strict key exchange (CVE-2023-48795; '
               'asyncssh offers and enforces it, a peer without it is outside the theorems)',
               '"closed" in closed_is_final is the close the receive loop makes itself on an integrity or protocol '
               'error (the exception leaves the loop); a close made from inside a handler (peer DISCONNECT, '
               'application abort()) lets the loop finish the segment it is in: authentic packets only']

EDITS = ['flip-length', 'flip-body', 'flip-padding', 'flip-tag', 'truncate', 'drop', 'duplicate', 'swap',
         'splice-old', 'splice-reverse', 'short-length-cut', 'short-length-full', 'splice-mirror']
INTEGRITY_ERRORS = ('MACError', 'ProtocolError', 'CompressionError', 'ConnectionLost', 'DisconnectError')


def translate(ctx: Ctx) -> Dict[str, Any]:
    return tgen.generate('C01')


def length_mode(enc: str, mac: str) -> int:
    """0 = length in clear, 1 = length under a stream cipher (bit-flip malleable), 2 = unpredictable."""
    if 'gcm' in enc or mac.endswith('-etm@openssh.com'):
        return 0
    if enc.endswith('-ctr') or 'chacha20' in enc or enc.startswith('arcfour'):
        return 1
    return 2


class Editor:
    """hub.filter: applies one edit to the `target`-th packet written in `direction` (counting from 0)."""

    def __init__(self, direction: str, target: int, edit: str, rng: random.Random, taglen: int, mode: int = 2):
        self.direction, self.target, self.edit, self.rng, self.taglen = direction, target, edit, rng, taglen
        self.mode = mode
        self.count = {pair.C2S: 0, pair.S2C: 0}
        self.history: Dict[str, List[bytes]] = {pair.C2S: [], pair.S2C: []}
        self.held: Optional[bytes] = None
        self.applied: Optional[Dict[str, Any]] = None
        self.cut = False
        # splice-mirror: (direction) -> the genuine packet the OTHER end sealed under the same sequence number
        self.mirror: Optional[Any] = None

    def __call__(self, direction: str, data: bytes) -> bytes:
        idx = self.count[direction]
        self.count[direction] += 1
        self.history[direction].append(data)
        if direction != self.direction:
            return data
        if self.cut:
            return b''
        if self.held is not None:               # second half of a swap
            out = data + self.held
            self.held = None
            return out
        if idx != self.target:
            return data
        e, n = self.edit, len(data)
        info: Dict[str, Any] = {'edit': e, 'packet_len': n, 'index': idx}
        if e.startswith('flip'):
            if e == 'flip-length':
                pos = self.rng.randrange(0, 4)
            elif e == 'flip-tag':
                pos = n - 1 - self.rng.randrange(0, max(1, self.taglen))
            elif e == 'flip-padding':
                pos = max(4, n - self.taglen - 1 - self.rng.randrange(0, 4))
            else:
                pos = self.rng.randrange(4, max(5, n - self.taglen))
            bit = 1 << self.rng.randrange(8)
            info.update(pos=pos, bit=bit)
            out = bytearray(data)
            out[pos] ^= bit
            self.applied = info
            return bytes(out)
        if e.startswith('short-length'):
            # a length no honest sender produces (below one cipher block): the receiver's arithmetic for "how much
            # more do I need" goes negative; with `-cut` the MAC is withheld, one filler byte added, the rest stalled
            new_len = self.rng.choice([0, 1, 4, 5, 7, 11, 11, 11])
            out = bytearray(data)
            if self.mode == 0:
                out[0:4] = new_len.to_bytes(4, 'big')
            elif self.mode == 1 and n >= 4 + self.taglen:
                old_len = n - 4 - self.taglen
                mask = (old_len ^ new_len).to_bytes(4, 'big')
                for i in range(4):
                    out[i] ^= mask[i]
            else:
                out[self.rng.randrange(0, 4)] ^= 1 << self.rng.randrange(8)
            info.update(new_len=new_len, mode=self.mode)
            self.applied = info
            if e == 'short-length-cut':
                self.cut = True
                return bytes(out[:max(4, n - self.taglen)]) + bytes([self.rng.randrange(256)])
            return bytes(out)
        if e == 'truncate':
            keep = self.rng.randrange(0, n)
            info['keep'] = keep
            self.applied = info
            self.cut = True
            return data[:keep]
        if e == 'drop':
            self.applied = info
            return b''
        if e == 'duplicate':
            self.applied = info
            return data + data
        if e == 'swap':
            self.applied = info
            self.held = data
            return b''
        if e == 'splice-old':
            old = self.history[direction][max(1, idx - 1 - self.rng.randrange(0, 3))]
            info['spliced_len'] = len(old)
            self.applied = info
            return old + data
        if e == 'splice-mirror':
            # the packet is REPLACED by a genuine packet of the opposite direction that carries the same sequence
            # number: only the direction-specific keys tell the two apart
            other = self.mirror(direction) if self.mirror is not None else None
            if other is None:
                return data             # the other end has not got that far yet: no edit (case is skipped)
            info['spliced_len'] = len(other)
            self.applied = info
            return other
        if e == 'splice-reverse':
            other = self.history[pair.S2C if direction == pair.C2S else pair.C2S]
            old = other[-1] if other else data
            info['spliced_len'] = len(old)
            self.applied = info
            return old + data
        return data


class RecClient(asyncssh.SSHClient):
    lost: List[Any] = []

    def connection_lost(self, exc: Optional[Exception]) -> None:
        RecClient.lost.append(exc)


class RecServer(pair.DefaultServer):
    lost: List[Any] = []

    def connection_lost(self, exc: Optional[Exception]) -> None:
        RecServer.lost.append(exc)


async def tamper_case(combo: Tuple[str, str, str, str], direction: str, edit: str, target_after: int,
                      seed: int) -> Dict[str, Any]:
    enc, mac, cmp, kex = combo
    rng = random.Random(seed)
    algs = dict(encryption_algs=[enc], mac_algs=[mac] if mac else (), compression_algs=[cmp], kex_algs=[kex])
    RecClient.lost, RecServer.lost = [], []
    out: Dict[str, Any] = {'combo': combo, 'direction': direction, 'edit': edit, 'seed': seed}
    loop = asyncio.get_event_loop()
    hub = pair.Hub(loop, pair.seeded_chunker(rng, 64))
    import importlib
    encmod = importlib.import_module('asyncssh.encryption')
    _ks, _iv, bsz, _mk, taglen, _etm = encmod.get_encryption_params(enc.encode(), mac.encode())
    out['bs'], out['taglen'] = max(8, bsz), taglen
    sent_app = bytearray()
    got_app = bytearray()

    async def handler(process: Any) -> None:
        # server side: echo + record what the server application received
        try:
            while True:
                data = await process.stdin.read(4096)
                if not data:
                    break
                if direction == pair.C2S:
                    got_app.extend(data)
                process.stdout.write(data)
        except (asyncssh.Error, OSError):
            pass
        try:
            process.exit(0)
        except Exception:
            pass

    with capture.PacketTap() as pt:
        c = s = None
        try:
            c, s, hub = await asyncio.wait_for(pair.make_pair(
                server_factory=RecServer, hub=hub,
                server_opts=dict(process_factory=handler, encoding=None, **algs),
                client_opts=dict(client_factory=RecClient, **algs)), 30)
        except Exception as e:
            out['error'] = f'setup: {type(e).__name__}: {e}'
            return out
        try:
            proc = await asyncio.wait_for(c.create_process('echo', encoding=None), 10)
            await pair.settle(5)
        except Exception as e:
            out['error'] = f'setup: {type(e).__name__}: {e}'
            return out
        # packets written so far in the tampered direction; the edit hits a packet a few writes later,
        # in the middle of a burst of channel data
        base = len(hub.writes[direction])
        editor = Editor(direction, base + target_after, edit, rng, taglen, length_mode(enc, mac))
        editor.count = {d: len(hub.writes[d]) for d in (pair.C2S, pair.S2C)}
        editor.history = {d: list(hub.writes[d]) for d in (pair.C2S, pair.S2C)}
        def mirror(d: str) -> Optional[bytes]:
            snd, oth = (c, s) if d == pair.C2S else (s, c)
            od = pair.S2C if d == pair.C2S else pair.C2S
            seq = snd._send_seq                       # not yet advanced: the number of the packet being written
            ol = pt.sent.get(id(oth), [])
            nk = max([j for j, (_q, p) in enumerate(ol) if p[:1] == b'\x15'], default=-1)
            js = [j for j, (q, _p) in enumerate(ol) if q == seq and j > nk and j + 1 < len(editor.history[od])]
            return editor.history[od][js[-1] + 1] if js else None
        editor.mirror = mirror
        hub.filter = editor
        window_start_bytes = len(hub.log[direction])
        window_start_pkt = base
        recv_conn = s if direction == pair.C2S else c
        recv_before = len(pt.recv.get(id(recv_conn), []))

        async def traffic() -> None:
            total = 0
            for i in range(8):
                blob = bytes([65 + i]) * rng.choice([1, 7, 8, 15, 16, 17, 100, 1000])
                proc.stdin.write(blob)
                sent_app.extend(blob)
                total += len(blob)
                if rng.random() < 0.3:
                    await asyncio.sleep(0)
            while len(got_app if direction == pair.C2S else echoed) < total:
                data = await asyncio.wait_for(proc.stdout.read(65536), 0.15)
                if not data:
                    break
                echoed.extend(data)
        echoed = bytearray()
        try:
            await asyncio.wait_for(traffic(), 1.0)
        except Exception as e:           # whatever the (possibly broken) code under test raises
            out['client_exc'] = type(e).__name__
        if direction == pair.S2C:
            got_app = echoed
        await pair.settle(30)
        out['applied'] = editor.applied
        out['honest'] = hub.writes[direction][window_start_pkt:]
        out['presented'] = bytes(hub.delivered[direction][window_start_bytes:]) + bytes(hub.queues[direction])
        recv_log = pt.recv.get(id(recv_conn), [])[recv_before:]
        out['dispatched'] = len(recv_log)
        out['s0'] = recv_log[0][0] if recv_log else None
        out['recv_log'] = [(q, p[:12]) for q, p, _n in recv_log]
        sent_log = pt.sent.get(id(c if direction == pair.C2S else s), [])
        out['sender_seq0'] = None
        # the sequence number of the first packet of the window, from the sender's log
        all_sent = sent_log
        nsent_before = window_start_pkt - 1          # writes[0] is the version line
        if 0 <= nsent_before < len(all_sent):
            out['sender_seq0'] = all_sent[nsent_before][0]
            out['sender_payloads'] = [p[:12] for _q, p in all_sent[nsent_before:]]
        lost = RecServer.lost if direction == pair.C2S else RecClient.lost
        out['receiver_closed'] = bool(lost) or recv_conn.is_closed()
        out['receiver_exc'] = type(lost[0]).__name__ if lost and lost[0] is not None else \
            ('clean-close' if lost else None)
        out['app_sent'], out['app_got'] = bytes(sent_app), bytes(got_app)
        for conn in (c, s):
            try:
                conn.abort()
            except Exception:
                pass
        await pair.settle(10)
    return out


def gen_cases(ctx: Ctx, rng: random.Random, n_combos: Optional[int]) -> List[Tuple[Any, str, str, int, int]]:
    combos = ts.combos(rng, n_combos)
    cases = []
    for i, combo in enumerate(combos):
        edits = EDITS if ctx.tier == 'thorough' else rng.sample(EDITS[:10], 3) + [rng.choice(EDITS[10:12]), EDITS[12]]
        for e in edits:
            d = pair.C2S if rng.random() < 0.5 else pair.S2C
            if e == 'splice-mirror' and rng.random() < 0.7:
                d = pair.S2C        # the echoing side is behind the writing side: its numbers have been used already
            cases.append((combo, d, e, rng.randrange(1, 6), rng.randrange(1 << 30)))
    return cases


def correspondence(ctx: Ctx) -> CorrResult:
    res = CorrResult()
    hist = Hist()
    rng = ctx.subrng('corr')
    cases = gen_cases(ctx, rng, None if ctx.tier == 'thorough' else 16)
    if ctx.tier == 'thorough':
        rng.shuffle(cases)
        cases = cases[:1500]

    async def run_all() -> List[Dict[str, Any]]:
        return [await tamper_case(*c) for c in cases]
    outs = pair.run(run_all(), timeout=3000)
    lines, keep = [], []
    for o in outs:
        if 'error' in o or not o.get('applied') or o.get('sender_seq0') is None:
            hist.hit('skipped:' + ('setup' if 'error' in o else 'edit-not-reached'))
            continue
        enc, mac, _cmp, _kex = o['combo']
        mode = length_mode(enc, mac)
        honest = ','.join(hx(w) for w in o['honest']) or '-'
        lines.append(f'tamper {o["bs"]} {o["taglen"]} {mode} {o["sender_seq0"]} {honest} {hx(o["presented"])}')
        keep.append(o)
    model = ctx.model(DRIVER, lines) if lines else []
    for o, m in zip(keep, model):
        res.cases += 1
        state = 'closed:mac' if (o['receiver_closed'] and o['receiver_exc'] in ('MACError',)) else \
            ('open' if not o['receiver_closed'] else 'closed:' + str(o['receiver_exc']))
        impl = f'delivered={o["dispatched"]} state={state}'
        hist.hit(f'{o["edit"]}:{state}')
        ok = (m == impl)
        if not ok and m.endswith('stall-or-mac'):
            ok = m.split()[0] == impl.split()[0] and state in ('open', 'closed:mac')
        if not ok:
            res.disagreements.append(Disagreement(
                {'combo': o['combo'], 'direction': o['direction'], 'edit': o['applied'], 'seed': o['seed']},
                m, impl, f'correspondence:tamper:{o["edit"]}'))
    res.nontrivial = len(set((o['combo'], o['edit'], o['direction']) for o in keep))
    res.histogram = dict(hist)
    res.samples = [{'combo': o['combo'], 'edit': o['applied'], 'impl_dispatched': o['dispatched'],
                    'receiver_exc': o['receiver_exc'], 'model': m} for o, m in list(zip(keep, model))[:3]]
    res.rule = ('one in-flight edit (bit flip in length/body/padding/tag, truncate, drop, duplicate, swap, splice) on '
                'a packet after NEWKEYS of a real session, also its replacement by the opposite direction\'s genuine packet of '
                'the same sequence number, per (cipher,mac,compression,kex,direction); distinct = '
                'distinct (combination, edit kind, direction)')
    return res


def oracle(ctx: Ctx) -> OracleResult:
    res = OracleResult()
    hist = Hist()
    rng = ctx.subrng('oracle')
    cases = gen_cases(ctx, rng, None if (ctx.tier == 'thorough' or ctx.escalated) else 12)
    if len(cases) > 2500:
        rng.shuffle(cases)
        cases = cases[:2500]

    async def run_all() -> List[Dict[str, Any]]:
        return [await tamper_case(*c) for c in cases]
    outs = pair.run(run_all(), timeout=3400)
    for o in outs:
        if 'error' in o:
            res.notes.append(f'{o["combo"]}: {o["error"]}')
            continue
        if not o.get('applied'):
            hist.hit('edit-not-reached')
            continue
        res.evaluations += 1
        key = {'combo': list(o['combo']), 'direction': o['direction'], 'edit': o['edit'], 'seed': o['seed']}
        hist.hit(f'{o["edit"]}:{o["receiver_exc"] or "stalled"}')
        # (1) nothing derived from altered bytes reaches the application: received is a prefix of sent
        if not bytes(o['app_sent']).startswith(bytes(o['app_got'])):
            res.failures.append(Failure('altered-bytes-reached-application',
                                        f'{o["combo"]} {o["edit"]}: receiving application got bytes that were not sent',
                                        key))
        # (2) the receiver ended with an integrity/protocol error, or stalled; never carried on past the edit
        honest_n = len(o['honest'])
        edited_at = o['applied']['index']
        if o['receiver_closed'] and o['receiver_exc'] not in INTEGRITY_ERRORS:
            res.failures.append(Failure(f'tamper-not-reported-as-error:{o["receiver_exc"]}',
                                        f'{o["combo"]} {o["edit"]}: receiver closed with {o["receiver_exc"]}', key))
        # (3) every packet the receiver dispatched is, in order, one the sender sealed: nothing altered, invented,
        # repeated or out of order is acted upon (whatever the upper layers would have made of it)
        sp = o.get('sender_payloads')
        if sp is not None:
            got = [p for _q, p in o['recv_log']]
            bad = next((i for i, p in enumerate(got) if i >= len(sp) or p != sp[i]), None)
            if bad is not None:
                res.failures.append(Failure(
                    'packet-not-sealed-by-the-sender-was-dispatched',
                    f'{o["combo"]} {o["edit"]} {o["applied"]}: dispatched packet #{bad} of the window starts '
                    f'{got[bad].hex()} but the sender\'s packet #{bad} starts '
                    f'{sp[bad].hex() if bad < len(sp) else "<nothing: sender sent fewer>"}', key))
    res.nontrivial = len(set((tuple(o['combo']), o['edit'], o['direction']) for o in outs if o.get('applied')))
    res.histogram = dict(hist)
    res.samples = [{'combo': o['combo'], 'edit': o.get('applied'), 'receiver_exc': o.get('receiver_exc')}
                   for o in outs[:3]]
    res.rule = 'as the correspondence; failure = application saw unsent bytes, or the receiver ended without an error'
    return res


def replay(ctx: Ctx, rep: Dict[str, Any]) -> List[Failure]:
    r = rep.get('replay', rep)
    o = pair.run(tamper_case(tuple(r['combo']), r['direction'], r['edit'], 3, r['seed']))
    fails = []
    if o.get('applied') and not bytes(o['app_sent']).startswith(bytes(o['app_got'])):
        fails.append(Failure('altered-bytes-reached-application', str(o['applied']), r))
    if o.get('applied') and o['receiver_closed'] and o['receiver_exc'] not in INTEGRITY_ERRORS:
        fails.append(Failure('tamper-not-reported-as-error', str(o['receiver_exc']), r))
    sp = o.get('sender_payloads')
    if o.get('applied') and sp is not None:
        got = [p for _q, p in o['recv_log']]
        if any(i >= len(sp) or p != sp[i] for i, p in enumerate(got)):
            fails.append(Failure('packet-not-sealed-by-the-sender-was-dispatched', str(o['applied']), r))
    return fails
