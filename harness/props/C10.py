"""C10 — Hostile input costs bounded work and fails cleanly.

Lean: Model/Hostile{Wire,Banner,Der,Loop}.lean (+ Model/Transport.lean's receive loop), Lemmas/Hostile*.lean,
Props/C10.lean (recv_terminates_linear, handler_loop_linear, banner_bounded, decode_total, der_depth,
der_recursion_witness, send_loop_progress_partial, send_loop_progress, decode_error_closes_cleanly,
numeric_extremes_*).
Translator: limits and guards of _recv_version / _process_userauth_request / _process_channel_open* /
_flush_send_buf / _process_data -> Gen/C10.lean.
Correspondence: Lean field decoders vs real SSHPacket getters; Lean DER decoder (result class, recursion depth,
number of calls) vs instrumented der_decode; Lean version/banner machine vs a real client and a real server fed
line streams; send loop and limits vs real sessions.
Oracle (failing-input search on the real code, in worker processes with hard budgets):
  (i) every message type 1..100 in every phase against a real server and a real client, (ii) whole-connection
  byte streams, (iii) parser robustness (DER, key/certificate import, trust files, SSHSIG, agent, SFTP both ways).
"""

from __future__ import annotations

import asyncio
import base64
import importlib
import os
import random
import struct
import sys
import time
from typing import Any, Dict, List, Optional, Tuple

import asyncssh
from asyncssh import asn1 as asn1mod
from asyncssh import packet as packetmod

import capture
import pair
from vlib import Ctx, CorrResult, OracleResult, Failure, Disagreement, Hist, hx, unhx

from props import _c10_conn as C
from props import _c10_parsers as P
from props import _c10_pool as PL
from props import _c10_sftp as S
from props import _c10_translate as TR

PROPERTY = 'C10'
MANIFEST = {
    'text': 'Lean 4 theorems, for EVERY byte string / chunking / numeric field value: the packet receive loop makes '
            'at most 2|buffer|+3 handler calls per chunk and ends quiescent (recv_terminates_linear, reusing the '
            'measure of the transport model); any handler that consumes >=1 byte per dispatch runs <=|buffer| times '
            '(handler_loop_linear); a client skips at most _MAX_BANNER_LINES lines of < _MAX_BANNER_LINE_LEN bytes and '
            'buffers < one line (banner_bounded, limits and comparisons regenerated from the code); every SSHPacket '
            'getter sequence is total, consumes a prefix and rejects over-long length fields (decode_total); the DER '
            'decoder\'s recursion depth is <= length/2+1 and its calls <= length+1 while a nest of L SEQUENCEs defeats '
            'any recursion limit L (der_depth, der_recursion_witness = F6); the send loop terminates for every '
            'positive maximum packet size, and for the regenerated loop either for every size or provably spins for 0 '
            '(send_loop_progress_partial / send_loop_progress = F2). Tied to the code by a translator, a differential run against the real '
            'getters, der_decode, version exchange and send loop, and a budgeted hostile-input oracle (all message '
            'types x phases x roles, garbage streams, parser fuzz in worker processes).',
    'note': 'CPU time is represented by step counts and loop rounds, output by bytes written; memory exhaustion through '
            'a 4 GiB length field that the peer never fills is a stall, not modelled; per-chunk buffer slicing in '
            '_recv_data is quadratic in the chunk size in bytes copied (bounded by the transport read size) and is '
            'reported as an observation; crypto back ends and the filesystem are outside the model. The theorems bound '
            'the NUMBER of steps (handler calls, der_decode_partial calls, send-loop iterations), not the cost of one '
            'step: the faithfulness audit measured super-linear cost per step in four places that neither the theorems '
            'nor the round budgets of the oracle see. For the DER decoder the oracle therefore times single calls at n '
            'and 4n bytes (CPU time, best of three): `content[offset:]` re-slicing in SEQUENCE/SET was quadratic (F110, '
            'repaired), the big-integer shifts for one long OID component and for a long-form tag still are (known '
            'F111 F112). Not decided by this check: `_inpbuf += data` while an announced packet is incomplete (64 MiB: '
            '5 s, unbounded buffer before authentication), a peer max packet size of 1 (one write() of 64 KiB holds '
            'the loop 25 s) and the decompression ratio of zlib (1028:1) - recorded in DESIGN 9.7',
    'technique': 'Lean 4 totality-with-measure proofs (structural / well-founded recursion on the input, explicit step '
                 'bounds) + translator for limits and guards + differential correspondence + budgeted fuzz oracle',
}
LEAN_PROPS = ['AsyncsshModel.Props.C10']
DRIVER = 'Drivers/C10.lean'
TRUSTED = [
    'CPU time is represented by step counts (handler calls, getter calls, der_decode_partial calls, loop iterations)',
    'CPython recursion limit and sys.get_int_max_str_digits() are parameters of the DER model, read from the interpreter',
    'the in-memory transport pair and its output/round budgets (harness/pair.py, props/_c10_conn.py)',
]
ASSUMPTIONS = [
    'a peer must actually send the bytes a length field announces: waiting for them is a stall, not work',
    'application callbacks (session/process factories, SFTP server methods) return in bounded time',
]

WORKERS_QUICK = 10
WORKERS_THOROUGH = 12


# ---------------------------------------------------------------------------
# translator


def translate(ctx: Ctx) -> Dict[str, Any]:
    return TR.generate()


# ---------------------------------------------------------------------------
# implementation side of the correspondence

GETTER_OF = {'b': 'get_byte', 'o': 'get_boolean', 'h': 'get_uint16', 'u': 'get_uint32', 'q': 'get_uint64',
             's': 'get_string', 'm': 'get_mpint', 'n': 'get_namelist', 'e': 'check_end'}


def show_val(k: str, v: Any) -> str:
    if k in 'bhuqm':
        return str(v)
    if k == 'o':
        return 'T' if v else 'F'
    if k == 's':
        return hx(bytes(v))
    if k == 'n':
        return '[' + ','.join(hx(bytes(x)) for x in v) + ']'
    return '.'


def impl_fields(schema: str, payload: bytes) -> str:
    pkt = packetmod.SSHPacket(payload)
    vals = []
    steps = 0
    for k in schema:
        steps += 1
        try:
            v = getattr(pkt, GETTER_OF[k])()
        except packetmod.PacketDecodeError as e:
            kind = 'incomplete' if 'Incomplete' in str(e) else ('trailing' if 'Unexpected data' in str(e) else str(e))
            return f'err {kind} steps={steps}'
        except Exception as e:           # a broken getter
            return f'exc {type(e).__name__} steps={steps}'
        vals.append(show_val(k, v))
    return 'ok ' + ' '.join(vals) + ' unread=' + hx(pkt.get_remaining_payload())


def gen_fields_case(rng: random.Random, malformed: bool) -> Tuple[str, bytes]:
    n = rng.randrange(0, 8)
    schema = ''.join(rng.choice('bohuqsmn') for _ in range(n))
    if rng.random() < 0.4:
        schema += 'e'
    body = b''
    for k in schema:
        if k in 'bo':
            body += bytes([rng.choice([0, 1, 255, rng.randrange(256)])])
        elif k == 'h':
            body += struct.pack('>H', rng.choice([0, 1, 65535, rng.randrange(65536)]))
        elif k == 'u':
            body += struct.pack('>I', rng.choice(P.EXTREMES32))
        elif k == 'q':
            body += struct.pack('>Q', rng.choice([0, 1, 2 ** 64 - 1, rng.getrandbits(64)]))
        elif k == 's':
            sv = bytes(rng.randrange(256) for _ in range(rng.choice([0, 1, 3, 20])))
            body += struct.pack('>I', len(sv)) + sv
        elif k == 'm':
            mv = rng.choice([b'', b'\x00', b'\x7f', b'\x80', b'\xff', b'\x00\x80', b'\xff\x7f', bytes(rng.randrange(256) for _ in range(9))])
            body += struct.pack('>I', len(mv)) + mv
        elif k == 'n':
            nv = rng.choice([b'', b'a', b'a,b', b',', b'a,,b', b',a', b'a,', b'\xff,\x00'])
            body += struct.pack('>I', len(nv)) + nv
    if rng.random() < 0.25:
        body += bytes(rng.randrange(256) for _ in range(rng.choice([1, 2, 5])))
    if malformed:
        r = rng.random()
        if r < 0.4 and body:
            body = body[:rng.randrange(len(body))]
        elif r < 0.8 and len(body) >= 4:
            i = rng.randrange(len(body) - 3)
            body = body[:i] + struct.pack('>I', rng.choice(P.EXTREMES32 + [len(body), len(body) - i - 4, len(body) - i - 3])) + body[i + 4:]
        else:
            body = P.mutate(rng, body)
    return schema or '-', body


class DerProbe:
    """wraps asn1.der_decode_partial to observe recursion depth and number of calls (module-level name, so the
    recursive calls made by the decode classmethods go through the wrapper as well)"""

    def __init__(self) -> None:
        self.depth = 0
        self.cur = 0
        self.calls = 0

    def __enter__(self) -> 'DerProbe':
        self.orig = asn1mod.der_decode_partial
        probe = self
        orig = self.orig

        def wrapped(data: bytes) -> Any:
            probe.calls += 1
            probe.cur += 1
            if probe.cur > probe.depth:
                probe.depth = probe.cur
            try:
                return orig(data)
            finally:
                probe.cur -= 1
        asn1mod.der_decode_partial = wrapped          # type: ignore
        return self

    def reset(self) -> None:
        self.depth = self.cur = self.calls = 0

    def __exit__(self, *a: Any) -> None:
        asn1mod.der_decode_partial = self.orig        # type: ignore


def impl_der(probe: DerProbe, data: bytes) -> Tuple[str, int, int]:
    probe.reset()
    try:
        asn1mod.der_decode(data)
        res = f'ok {len(data)}'
    except RecursionError:
        res = 'err RecursionError'
    except Exception as e:
        res = 'err ' + type(e).__name__
    return res, probe.depth, probe.calls


def calibrate_levels(probe: DerProbe) -> int:
    """largest number of nested levels der_decode reaches under the probe before RecursionError"""
    lo, hi = 1, 2000
    while lo < hi:
        mid = (lo + hi + 1) // 2
        r, _d, _c = impl_der(probe, P.nested_der(mid - 1, 'seq'))     # mid-1 SEQUENCEs + the NULL leaf = mid levels
        if r.startswith('ok'):
            lo = mid
        else:
            hi = mid - 1
    return lo


REASON_ENUM = [('Banner line too long', 'banner-line-too-long'), ('Version too long', 'version-too-long'),
               ('Too many banner lines', 'too-many-banner-lines'), ('Unsupported SSH version', 'unsupported-version')]


async def impl_version(role: str, chunks: List[bytes]) -> str:
    """feed chunks to a fresh real endpoint that awaits the peer's version; observable outcome"""
    case = await C.setup_clear(role, 'start')
    try:
        assert case.hub is not None
        for ch in chunks:
            if case.closed():
                break
            case.hub.inject(case.to_target, ch)
            await pair.settle(6)
        await pair.settle(6)
        reports = case.lost_reports()
        if case.closed() or reports:
            exc = reports[0] if reports else None
            reason = str(getattr(exc, 'reason', exc))
            for text, enum in REASON_ENUM:
                if text in reason:
                    return 'closed ' + enum
            return 'closed other:' + type(exc).__name__ + ':' + reason[:40]
        key = 'client_version' if role == 'server' else 'server_version'
        v = case.target.get_extra_info(key)
        if v:
            return 'accepted ' + hx(v.encode('ascii'))
        return 'waiting'
    finally:
        C.teardown(case)
        await pair.settle(4)


def gen_version_stream(rng: random.Random, limits: Dict[str, int], heavy: bool) -> List[bytes]:
    mlines, mlen, mver = limits['_MAX_BANNER_LINES'], limits['_MAX_BANNER_LINE_LEN'], limits['_MAX_VERSION_LINE_LEN']
    nl = lambda: rng.choice([b'\n', b'\r\n', b'\n'])          # noqa: E731
    out = b''
    r = rng.random()
    if heavy and r < 0.25:
        n = rng.choice([mlines - 1, mlines, mlines + 1, mlines + 2])
        line = rng.choice([b'', b'x', b'banner'])
        out += (line + nl()) * n
    elif r < 0.45:
        n = rng.choice([mlen - 2, mlen - 1, mlen, mlen + 1])
        out += b'y' * n + (nl() if rng.random() < 0.7 else b'')
    else:
        for _ in range(rng.choice([0, 0, 1, 2, 5])):
            out += rng.choice([b'', b'hello', b'ssh-2.0-lower', b' SSH-2.0-x', b'\xff\xfe', b'S', b'SS', b'SSH', b'a\rb',
                               b'\r', b'SSH-1.5-old', b'SSH-', b'SSH-2.1-x', b'SSH-1.99', b'SSH-2.0']) + nl()
    r = rng.random()
    if r < 0.55:
        ident = rng.choice([b'SSH-2.0-', b'SSH-1.99-', b'SSH-2.0-'])
        n = rng.choice([0, 1, 10, mver - len(ident) - 1, mver - len(ident), mver - len(ident) + 1, mver + 40])
        out += ident + b'v' * max(0, n) + rng.choice([b'\r\n', b'\n', b'\r\r\n'])
        out += bytes(rng.randrange(256) for _ in range(rng.choice([0, 0, 3, 7])))       # < one cipher block
    elif r < 0.7:
        out += rng.choice([b'SSH-2.0-partial', b'bann', b''])
    ncuts = rng.choice([0, 0, 1, 2, 6])
    cuts = sorted(rng.randrange(len(out) + 1) for _ in range(ncuts)) if out else []
    chunks = [out[a:b] for a, b in zip([0] + cuts, cuts + [len(out)])]
    return [c for c in chunks if c] or [b'\n']


# ---------------------------------------------------------------------------
# correspondence


def correspondence(ctx: Ctx) -> CorrResult:
    res = CorrResult()
    hist = Hist()
    lines: List[str] = []
    expect: List[Tuple[str, Any, Any]] = []       # (name, case, impl or acceptor)
    limits = {k: getattr(importlib.import_module('asyncssh.connection'), k) for k in TR.LIMITS}
    budget = 240 if ctx.tier == 'quick' and not ctx.escalated else 900

    def unresponsive(group: str, why: Any) -> None:
        res.disagreements.append(Disagreement({'op': 'impl-unresponsive', 'group': group}, 'model not consulted',
                                              str(why)[-300:], f'impl-unresponsive:{group}'))

    # (1) field decoders vs SSHPacket getters, (2) DER decoder vs instrumented der_decode ---------------
    rng = ctx.subrng('corr-fields')
    fcases: List[Tuple[str, bytes]] = []
    for i in range(ctx.n(1500, 20000)):
        fcases.append(gen_fields_case(rng, malformed=(i % 2 == 1)))
    # the schemas the channel handlers use, at the numeric extremes
    for schema in ('suuu', 'uuuu', 'ue', 'se', 'sss'):
        for _ in range(ctx.n(20, 200)):
            body = b''
            for k in schema:
                if k == 'u':
                    body += struct.pack('>I', rng.choice([0, 1, 0xffffffff]))
                elif k == 's':
                    sv = rng.choice([b'', b'session', b'x' * 40])
                    body += struct.pack('>I', rng.choice([len(sv), 0, 1, 0xffffffff])) + sv
            fcases.append((schema, body))
    rng = ctx.subrng('corr-der')
    str_limit = sys.get_int_max_str_digits() if hasattr(sys, 'get_int_max_str_digits') else 0
    der_cases: List[bytes] = []
    for i in range(ctx.n(1200, 15000)):
        der_cases.append(P.gen_der(rng) if rng.random() < 0.45 else P.gen_der_hostile(rng))
    der_cases += [P.nested_der(d, k) for d in (1, 2, 50, 200, 400, 700, 1500) for k in ('seq', 'set', 'tagged', 'mix')]
    der_cases += [P.der_tlv(b'\x06', b'\x2b' + b'\xff' * n + b'\x7f') for n in (10, 2000, 2045, 2100)]

    # one canonical input per exception class that the pinned tree lets escape from der_decode; what the current
    # tree raises for them tells how the model's classes are to be read (a fix converts them to ASN1DecodeError)
    der_canon = {'UnicodeDecodeError': b'\x0c\x01\xff', 'ASN1EncodeError': b'\x03\x02\x07\xff',
                 'ValueError': P.der_tlv(b'\x06', b'\x2b' + b'\xff' * 2100 + b'\x7f'),
                 'RecursionError': P.nested_der(3000, 'seq')}

    def impl_codecs() -> Any:
        f = [impl_fields('' if sc == '-' else sc, pl) for sc, pl in fcases]
        with DerProbe() as probe:
            lv = calibrate_levels(probe)
            canon = {k: impl_der(probe, v)[0].split(' ')[-1] for k, v in der_canon.items()}
            d = [impl_der(probe, x) for x in der_cases]
        return f, lv, d, canon
    ok, got = PL.in_child('codecs', impl_codecs, budget)
    if not ok:
        unresponsive('codecs', got)
    else:
        fimpl, levels, der_impl, der_map = got
        res.notes.append(f'der: classes raised for the canonical escaping inputs: {der_map}')
        for (schema, payload), impl in zip(fcases, fimpl):
            lines.append(f'fields {schema} {hx(payload)}')
            expect.append(('fields', {'schema': schema, 'payload': payload.hex()}, impl))
            hist.hit('fields:' + impl.split(' ')[0] + (':' + impl.split(' ')[1] if impl.startswith('err') else ''))
        for d, (r, depth, calls) in zip(der_cases, der_impl):
            lines.append(f'der {str_limit} 1000000 {hx(d)}')
            expect.append(('der', {'data': d[:2000].hex(), 'len': len(d), 'levels': levels, 'map': der_map}, (r, depth, calls)))
            hist.hit('der:' + r.split(' ')[0] + (':' + r.split(' ')[1] if r.startswith('err') else ''))
        res.notes.append(f'der: interpreter allows {levels} nested der_decode_partial levels under the probe; '
                         f'int->str limit {str_limit}')

    # (3) version / banner machine vs a real client and a real server -----------------------------
    rng = ctx.subrng('corr-version')
    vcases: List[Tuple[str, List[bytes]]] = []
    for i in range(ctx.n(160, 1500)):
        role = 'client' if i % 2 == 0 else 'server'
        vcases.append((role, gen_version_stream(rng, limits, heavy=(role == 'client'))))

    def impl_versions() -> Any:
        async def run_versions() -> List[str]:
            out = []
            with C.Watch(20.0) as w:
                for role, chunks in vcases:
                    w.rearm()
                    out.append(await impl_version(role, chunks))
            return out
        return pair.run(run_versions(), timeout=budget)
    ok, got = PL.in_child('versions', impl_versions, budget)
    if not ok:
        unresponsive('version-exchange', got)
    else:
        for (role, chunks), impl in zip(vcases, got):
            lines.append('ver ' + ('c' if role == 'client' else 's') + ' ' + ' '.join(hx(c) for c in chunks))
            expect.append(('version', {'role': role, 'chunks': [c[:200].hex() for c in chunks],
                                       'total': sum(len(c) for c in chunks)}, impl))
            hist.hit('version:' + role + ':' + ' '.join(impl.split(' ')[:2] if impl.startswith('closed') else impl.split(' ')[:1]))

    # (4) limits and the send loop vs real sessions ---------------------------------------------------
    maxuser = limits['_MAX_USERNAME_LEN']
    ucases = [maxuser - 2, maxuser - 1, maxuser, maxuser + 1, 1, 0]
    nbytes = 40
    wcases = [(role, w, p) for role in C.ROLES for w in C.EXTREMES for p in C.EXTREMES]

    def impl_sessions() -> Any:
        async def run_users() -> List[str]:
            out = []
            for n in ucases:
                payload = packetmod.String(b'u' * n) + packetmod.String('ssh-connection') + packetmod.String('none')
                o = await C.packet_case('pre-auth', 'server', f'user{n}', explicit=[(50, payload)])
                out.append('too-long' if (o.get('reports') or [''])[0] == 'IllegalUserName' else 'ok')
            return out

        async def run_windows() -> List[Dict[str, Any]]:
            out = []
            for role, w, p in wcases:
                with capture.PacketTap() as tap:
                    o = await C.window_case(role, w, p, nbytes=nbytes)
                    # MSG_CHANNEL_DATA payloads the *target* sent: type byte + recipient channel + string header + data
                    o['data_sizes'] = [len(pl) - 9 for _q, pl in tap.sent.get(o.get('target_id'), []) if pl[:1] == b'\x5e']
                out.append({k: o.get(k) for k in ('spin', 'rounds', 'round_budget', 'out_bytes', 'data_sizes', 'closed',
                                                  'loop_errors', 'reports', 'role', 'window', 'pktsize', 'kind')})
            return out
        return pair.run(run_users(), timeout=budget), pair.run(run_windows(), timeout=budget)
    ok, got = PL.in_child('sessions', impl_sessions, budget)
    if not ok:
        unresponsive('sessions', got)
    else:
        uimpl, wimpl = got
        for n, impl in zip(ucases, uimpl):
            lines.append(f'user {n}')
            expect.append(('username', {'len': n}, impl))
            hist.hit('username:' + impl)
        for (role, w, p), o in zip(wcases, wimpl):
            lines.append(('open' if role == 'server' else 'confirm') + f' {p} 0')
            expect.append(('open-params', {'role': role, 'window': w, 'max_pktsize': p}, o))
            lines.append(f'flush {w} {p} 64 {hx(b"y" * nbytes)}')
            expect.append(('send-loop', {'role': role, 'window': w, 'max_pktsize': p, 'nbytes': nbytes}, o))
            hist.hit('send-loop:' + C.outcome_of(o))
    # (5) dispatch of synchronous handlers: decoded -> carries on, decode error -> ProtocolError close ----------
    rng = ctx.subrng('corr-handlers')
    St, U = packetmod.String, packetmod.UInt32
    valid = [(2, 'se', b'', St(b'ignored')), (3, 'ue', b'', U(7)), (4, 'osse', b'', b'\x01' + St(b'dbg') + St(b'')),
             (93, 'ue', U(0), U(0)), (93, 'ue', U(0), U(1)), (93, 'ue', U(0), U(0xffffffff)), (96, 'e', U(0), b'')]
    hcases: List[Tuple[str, int, str, bytes, bytes]] = []
    for role in C.ROLES:
        for t, schema, prefix, body in valid:
            variants = [body] + [body[:k] for k in range(len(body))] + [body + b'\x00']
            if len(body) >= 4:
                variants.append(body[:-4] + U(0xffffffff))
                variants.append(U(0xffffffff) + body[4:])
            if ctx.tier != 'thorough' and not ctx.escalated:
                variants = variants[:1] + rng.sample(variants[1:], min(4, len(variants) - 1))
            for v in variants:
                hcases.append((role, t, schema, prefix, v))

    def impl_handlers() -> Any:
        async def run_h() -> List[str]:
            out = []
            with C.Watch(20.0) as w:
                for role, t, _schema, prefix, v in hcases:
                    w.rearm()
                    o = await C.packet_case('post-auth', role, 'handler', explicit=[(t, prefix + v)])
                    out.append(C.outcome_of(o))
            return out
        return pair.run(run_h(), timeout=budget)
    ok, got = PL.in_child('handlers', impl_handlers, budget)
    if not ok:
        unresponsive('handlers', got)
    else:
        for (role, t, schema, prefix, v), impl in zip(hcases, got):
            lines.append(f'handler {schema} {hx(v)}')
            expect.append(('handler', {'role': role, 'type': t, 'payload': (prefix + v).hex(), 'phase': 'post-auth',
                                       'packets': [(t, (prefix + v).hex())], 'kind': 'packet'}, impl))
            hist.hit('handler:' + impl)
    lines.append('safe')
    expect.append(('open-guard', {}, None))

    # run the model ----------------------------------------------------------------------------------------
    out = ctx.model(DRIVER, lines)
    seen_kinds = set()
    rejected_open = False
    for line, (name, case, impl), mod in zip(lines, expect, out):
        res.cases += 1
        ok = True
        if name == 'open-params':
            # the model (with the generated guard) either stores a packet size or closes with a protocol error
            rejected_open = (mod == 'protocol-error')
            if rejected_open:
                ok = C.outcome_of(impl) == 'closes:ProtocolError'
            seen_kinds.add('open:' + mod.split(' ')[0])
            if not ok:
                res.disagreements.append(Disagreement({'op': name, **case}, mod, C.outcome_of(impl), 'open-params'))
            continue
        if name == 'send-loop' and rejected_open:
            continue
        if name in ('fields', 'username', 'handler'):
            ok = (mod == impl)
        elif name == 'der':
            r, depth, calls = impl
            m_res = ' '.join(mod.split(' ')[:2])
            if m_res.startswith('err '):
                m_res = 'err ' + case['map'].get(m_res[4:], m_res[4:])
            rec = 'err ' + case['map'].get('RecursionError', 'RecursionError')
            m_depth = int(mod.split('depth=')[1].split(' ')[0])
            m_calls = int(mod.split('calls=')[1])
            lv = case['levels']
            if m_depth <= lv - 2:
                ok = (m_res == r and m_depth == depth and m_calls == calls)
            elif m_depth >= lv + 2:
                ok = (r == rec)
            else:
                ok = (r == rec) or (m_res == r)
            seen_kinds.add('der:' + m_res.split(' ')[-1] if m_res.startswith('err') else 'der:ok')
        elif name == 'version':
            m = mod.split(' ')
            mkey = ' '.join(m[:2]) if m[0] in ('accepted', 'closed') else m[0]
            ok = (mkey == impl)
            seen_kinds.add('version:' + (m[1] if m[0] == 'closed' else m[0]))
        elif name == 'send-loop':
            o = impl
            spins = C.outcome_of(o) == 'spins'
            m_running = mod.startswith('running')
            target_sizes: List[int] = list(o.get('data_sizes') or [])
            w, p = case['window'], case['max_pktsize']
            # the model (with the generated loop exit, if any) says whether the loop ends; the real sender must agree
            ok = (spins == m_running)
            if ok and not spins and (w >= nbytes or w == 0 or p == 0):
                m_sizes = [int(x) for x in mod.split('sizes=')[1].split(' ')[0].split(',') if x]
                big = [n for n in target_sizes if n > 0]
                ok = (big[:len(m_sizes)] == m_sizes) if m_sizes else (sum(big) == 0)
            seen_kinds.add(f'send-loop:{"spin" if spins else "ok"}')
        elif name == 'open-guard':
            res.notes.append(f'channel-open guard in the current tree: {mod}')
            continue
        if not ok:
            res.disagreements.append(Disagreement({'op': name, **case}, mod,
                                                  impl if not isinstance(impl, dict) else
                                                  {k: impl.get(k) for k in ('spin', 'rounds', 'out_bytes', 'data_sizes', 'closed')},
                                                  f'{name}'))
    res.nontrivial = len(set(l.split(' ')[0] + ':' + l.split(' ')[1] for l in lines if ' ' in l)) + len(seen_kinds)
    res.histogram = dict(hist)
    res.samples = [{'line': lines[i][:160], 'model': out[i][:160], 'impl': str(expect[i][2])[:160]}
                   for i in sorted(set(x for x in (0, 1, len(lines) // 2, len(lines) - 3) if 0 <= x < len(lines)))]
    res.rule = ('field decoders: random getter schemas over structured and malformed payloads (every result or error '
                'kind, step count, unread bytes); DER: generated and hostile encodings (result/exception class, '
                'recursion depth, der_decode_partial calls); version exchange: generated line streams against a real '
                'client and a real server (waiting / accepted version / close reason); username limit; send loop at '
                'window x max-packet-size extremes. distinct = distinct (operation, schema or first argument) plus '
                'distinct outcome kinds')
    return res


# ---------------------------------------------------------------------------
# oracle


from props._c10_corpus import (limit_cases, run_limit_case, corpus_sftp_client)  # noqa: E402,F401


def _scaling_input(fam: str, n: int) -> bytes:
    def hdr(tag: bytes, length: int) -> bytes:
        lb = length.to_bytes((length.bit_length() + 7) // 8 or 1, 'big')
        return tag + (bytes([length]) if length < 0x80 else bytes([0x80 | len(lb)]) + lb)
    if fam == 'sequence-of-nulls':
        body = b'\x05\x00' * (n // 2)
        return hdr(b'\x30', len(body)) + body
    if fam == 'oid-one-long-component':
        body = b'\x2a' + b'\xff' * (n - 2) + b'\x7f'
        return hdr(b'\x06', len(body)) + body
    if fam == 'long-form-tag':
        return b'\x1f' + b'\xff' * (n - 4) + b'\x7f' + b'\x01\x00'
    raise ValueError(fam)


def scaling_probe() -> List[Tuple[str, float, float, int]]:
    out = []
    for fam, n in (('sequence-of-nulls', 100000), ('oid-one-long-component', 25000), ('long-form-tag', 25000)):
        ts = []
        for size in (n, 4 * n):
            data = _scaling_input(fam, size)
            best = None
            for _ in range(3):
                t0 = time.process_time()
                try:
                    asn1mod.der_decode(data)
                except Exception:       # noqa: BLE001  (the error class is the correspondence's business)
                    pass
                dt = time.process_time() - t0
                best = dt if best is None else min(best, dt)
            ts.append(best or 0.0)
        out.append((fam, ts[0], ts[1], n))
    return out


def plan_jobs(ctx: Ctx) -> List[Tuple[str, str, int, int]]:
    jobs: List[Tuple[str, str, int, int]] = []
    thorough = ctx.tier == 'thorough' or ctx.escalated
    per_target = 6000 if not thorough else 150000
    split = 4 if not thorough else 12
    for t in P.TARGETS:
        n = per_target if t not in ('agent_client',) else per_target // 2
        for s in range(split):
            jobs.append(('_run_parser_job', t, s * (n // split), n // split))
    per_combo = 1500 if not thorough else 30000
    csplit = 2 if not thorough else 6
    for ph in C.PHASES:
        for r in C.ROLES:
            for s in range(csplit):
                jobs.append(('_run_conn_job', f'packet:{ph}:{r}', s * (per_combo // csplit), per_combo // csplit))
    per_stream = 200 if not thorough else 6000
    for ph in ['start'] + C.PHASES:
        for r in C.ROLES:
            jobs.append(('_run_conn_job', f'stream:{ph}:{r}', 0, per_stream))
    nsrv = 1500 if not thorough else 40000
    ncli = 160 if not thorough else 4000
    for s in range(2 if not thorough else 8):
        jobs.append(('_run_conn_job', 'sftp-server', s * (nsrv // (2 if not thorough else 8)), nsrv // (2 if not thorough else 8)))
        jobs.append(('_run_conn_job', 'sftp-client', s * (ncli // (2 if not thorough else 8)), ncli // (2 if not thorough else 8)))
    # interleave long and short jobs
    rng = ctx.subrng('plan')
    rng.shuffle(jobs)
    return jobs


def oracle(ctx: Ctx) -> OracleResult:
    res = OracleResult()
    hist = Hist()
    t0 = time.time()
    # inputs from correspondence disagreements first
    for s in ctx.suspects[:50]:
        try:
            for f in replay_one(s):
                res.failures.append(f)
        except Exception:
            pass
    t1 = time.time()
    thorough = ctx.tier == 'thorough' or ctx.escalated
    workers = WORKERS_THOROUGH if thorough else WORKERS_QUICK
    workers = max(2, min(workers, (os.cpu_count() or 4)))
    deadline = time.time() + (720 if ctx.tier == 'thorough' else (240 if ctx.escalated else 50))
    from props import _c10_corpus as K
    ncorpus = len(K.corpus_items())
    jobs = [('_run_corpus_job', 'corpus', s0, 12) for s0 in range(0, ncorpus, 12)] + plan_jobs(ctx)
    phist, pfails, ncases, stats, notes = PL.run_jobs(ctx.seed, jobs, workers, deadline)
    res.evaluations += ncases
    for k, v in phist.items():
        hist.hit(k, v)
    for sig, (kind, idx, data, detail) in sorted(pfails.items()):
        if isinstance(data, dict):
            rep = dict(data)
            rep.setdefault('kind', kind.split(':')[0])
        else:
            rep = {'kind': 'parser', 'target': kind, 'input': (data or '')[:12000], 'index': idx}
        rep['seed'] = ctx.seed
        res.failures.append(Failure(sig, f'{kind} case {idx}: {detail}', rep))
    # cost of ONE decoder call as a function of the input length: "time proportional to the input".  The step counts
    # of the theorems cannot see what one step costs, so three input families that make a single step expensive are
    # timed at n and 4n bytes (CPU time of this process, best of three, so that load on the machine does not matter):
    # a linear decoder needs about 4x, a quadratic one about 16x.
    for fam, t1, t4, n in scaling_probe():
        res.evaluations += 1
        hist.hit('scaling:%s:%s' % (fam, 'linear' if t4 <= 9 * max(t1, 1e-4) or t4 < 0.25 else 'superlinear'))
        if t4 > 9 * max(t1, 1e-4) and t4 >= 0.25:
            res.failures.append(Failure(
                'c10:superlinear:der:' + fam,
                f'der_decode of {n} bytes ({fam}) takes {t1:.3f}s CPU, of {4 * n} bytes {t4:.3f}s: {t4 / max(t1, 1e-4):.1f}x '
                f'the time for 4x the input', {'kind': 'scaling', 'family': fam, 'n': n}))
    # one failure per signature
    uniq: Dict[str, Failure] = {}
    for f in res.failures:
        uniq.setdefault(f.signature, f)
    res.failures = list(uniq.values())
    if res.failures:
        res.notes.append('failure signatures: ' + ' | '.join(sorted(f.signature for f in res.failures)))
    harness_errors = sum(v for k, v in hist.items() if k.startswith('harness-error'))
    if harness_errors:
        res.notes.append(f'{harness_errors} cases could not be set up (counted, not findings)')
    res.notes += notes
    res.notes.append(f'oracle: {ncorpus} corpus inputs + fuzz in {time.time() - t1:.1f}s on {workers} workers; '
                     f'max loop rounds per input {stats.get("max_rounds")}, max response bytes per input byte beyond '
                     f'the {C.OUT_A}-byte allowance {stats.get("max_out_ratio"):.2f} (budget {C.OUT_B}); slowest connection case '
                     f'{stats.get("max_case_s", 0):.2f}s ({stats.get("slowest")})')
    res.histogram = dict(hist)
    res.nontrivial = len([k for k in hist if not k.startswith('harness-error')])
    res.samples = [{'signature': f.signature, 'what': f.what[:200]} for f in res.failures[:3]] or \
        [{'histogram_keys': sorted(hist)[:6]}]
    res.rule = ('(i) one structured/mutated packet of every type 1..100 (or a burst) per phase (pre-kex, in-kex, '
                'pre-auth, post-auth) and role, classified as carries-on / closes:<class> / spins / '
                'exception-escaped, with budgets on loop rounds and response bytes; channel-open parameters at '
                '{0,1,2^32-1}^2; (ii) garbage streams in five phases x two roles with random chunking; (iii) '
                'mutation + grammar-aware fuzz of der_decode, import_*key/certificate, trust files, SSHSIG, agent '
                'replies, SSHPacket getters (checked against a reference), SFTP server requests and SFTP client '
                'replies; failure = undocumented exception, spin, escaped exception, unreported close, close '
                'through the uncaught-exception path, or an unenforced limit. distinct = distinct '
                '(leg, phase, role, outcome) histogram keys')
    return res


# ---------------------------------------------------------------------------
# replay


def replay_one(r: Dict[str, Any]) -> List[Failure]:
    kind = r.get('kind') or r.get('op')
    fails: List[Failure] = []
    if kind == 'parser' or ('target' in r and 'input' in r):
        data = bytes.fromhex(r['input'])
        key, sig, detail = P.run_case(r['target'], data)
        if sig:
            fails.append(Failure(sig, detail, r))
        return fails
    if kind == 'scaling':
        for fam, t1, t4, n in scaling_probe():
            if fam == r['family'] and t4 > 9 * max(t1, 1e-4) and t4 >= 0.25:
                fails.append(Failure('c10:superlinear:der:' + fam, f'{t1:.3f}s -> {t4:.3f}s', r))
        return fails
    if kind == 'channel-open-params':
        o = pair.run(C.window_case(r['role'], r['window'], r['max_pktsize'], dropbear=r.get('dropbear', False)))
    elif kind == 'limit':
        lc = [c for c in limit_cases() if c[0] == r['name'] and c[1] == r['role']][0]
        o2 = pair.run(run_limit_case(lc[1], lc[2]))
        if not o2['closed'] or lc[3] not in o2['reason']:
            fails.append(Failure(lc[4], str(o2), r))
        return fails
    elif kind == 'packet' and r.get('packets'):
        pk = [(t, bytes.fromhex(p)) for t, p in r['packets']] * max(1, (r.get('npackets') or 1) // max(1, len(r['packets'])))
        o = pair.run(C.packet_case(r['phase'], r['role'], 'replay', explicit=pk))
    elif kind == 'stream' and r.get('data') is not None and r.get('data_len', 0) <= 4096:
        o = pair.run(C.stream_case(r['phase'], r['role'], 'replay', explicit=(bytes.fromhex(r['data']), r.get('cuts') or [])))
    elif kind == 'sftp-server' and r.get('data'):
        o = pair.run(S.sftp_server_case('replay', explicit=bytes.fromhex(r['data'])))
    elif kind == 'sftp-client-script':
        script2, ops, _note = corpus_sftp_client()[r['index']]
        o = pair.run(S.sftp_client_case('replay', script=script2, ops_fixed=ops))
    elif kind == 'corpus-item':
        from props import _c10_corpus as K
        for sig, what, rep in K.corpus_items()[r['index']][1]():
            fails.append(Failure(sig, what, rep))
        return fails
    elif r.get('case_seed'):
        cs = r['case_seed']
        parts = cs.split(':')
        leg = parts[1]
        if leg == 'packet':
            o = pair.run(C.packet_case(parts[2], parts[3], cs))
        elif leg == 'stream':
            o = pair.run(C.stream_case(parts[2], parts[3], cs))
        elif leg == 'sftp-server':
            o = pair.run(S.sftp_server_case(cs))
        elif leg == 'sftp-client':
            o = pair.run(S.sftp_client_case(cs))
        else:
            return fails
    elif kind == 'fields':
        schema = '' if r['schema'] == '-' else r['schema']
        out = impl_fields(schema, bytes.fromhex(r['payload']))
        if out.startswith('exc'):
            fails.append(Failure('c10:getter-exception', out, r))
        return fails
    else:
        return fails
    for sig, what in C.failures_of(o):
        if sig.startswith('c10:spins') and r.get('max_pktsize') == 0:
            sig = f'c10:spins:zero-max-packet-size:{r["role"]}-send-loop'
        fails.append(Failure(sig, what, r))
    return fails


def replay(ctx: Ctx, rep: Dict[str, Any]) -> List[Failure]:
    r = rep.get('replay', rep)
    return replay_one(r)
