"""C10 — Hostile input costs bounded work and fails cleanly.

Lean: Model/Hostile{Wire,Banner,Der,Loop}.lean (+ Model/Transport.lean's receive loop), Lemmas/Hostile*.lean,
Props/C10.lean (recv_terminates_linear, handler_loop_linear, banner_bounded, decode_total, der_depth,
der_recursion_witness, send_loop_progress_partial, send_loop_zero_pktsize_spins, numeric_extremes_*).
Translator: limits and guards of _recv_version / _process_userauth_request / _process_channel_open* /
_flush_send_buf / _process_data -> Gen/C10.lean.
Correspondence: Lean field decoders vs real SSHPacket getters; Lean DER decoder (result class, recursion depth,
number of calls) vs instrumented der_decode; Lean version/banner machine vs a real client and a real server fed
line streams; send loop and limits vs real sessions.
Oracle (failing-input search on the real code, in worker processes with hard budgets):
  (i) every message type 1..100 in every phase against a real server and a real client, (ii) whole-connection
  byte streams, (iii) parser robustness (DER, key/certificate import, trust files, SSHSIG, agent, SFTP both ways).
"""

from __future__ import annotations

import asyncio
import base64
import importlib
import os
import random
import struct
import sys
import time
from typing import Any, Dict, List, Optional, Tuple

import asyncssh
from asyncssh import asn1 as asn1mod
from asyncssh import packet as packetmod

import capture
import pair
from vlib import Ctx, CorrResult, OracleResult, Failure, Disagreement, Hist, hx, unhx

from props import _c10_conn as C
from props import _c10_parsers as P
from props import _c10_pool as PL
from props import _c10_sftp as S
from props import _c10_translate as TR

PROPERTY = 'C10'
MANIFEST = {
    'text': 'Lean 4 theorems, for EVERY byte string / chunking / numeric field value: the packet receive loop makes '
            'at most 2|buffer|+3 handler calls per chunk and ends quiescent (recv_terminates_linear, reusing the '
            'measure of the transport model); any handler that consumes >=1 byte per dispatch runs <=|buffer| times '
            '(handler_loop_linear); a client skips at most _MAX_BANNER_LINES lines of < _MAX_BANNER_LINE_LEN bytes and '
            'buffers < one line (banner_bounded, limits and comparisons regenerated from the code); every SSHPacket '
            'getter sequence is total, consumes a prefix and rejects over-long length fields (decode_total); the DER '
            'decoder\'s recursion depth is <= length/2+1 and its calls <= length+1 while a nest of L SEQUENCEs defeats '
            'any recursion limit L (der_depth, der_recursion_witness = F6); the send loop terminates for every '
            'positive maximum packet size and provably spins for 0 (send_loop_progress_partial / '
            'send_loop_zero_pktsize_spins = F2). Tied to the code by a translator, a differential run against the real '
            'getters, der_decode, version exchange and send loop, and a budgeted hostile-input oracle (all message '
            'types x phases x roles, garbage streams, parser fuzz in worker processes).',
    'note': 'CPU time is represented by step counts and loop rounds, output by bytes written; memory exhaustion through '
            'a 4 GiB length field that the peer never fills is a stall, not modelled; per-chunk buffer slicing in '
            '_recv_data is quadratic in the chunk size in bytes copied (bounded by the transport read size) and is '
            'reported as an observation; crypto back ends and the filesystem are outside the model',
    'technique': 'Lean 4 totality-with-measure proofs (structural / well-founded recursion on the input, explicit step '
                 'bounds) + translator for limits and guards + differential correspondence + budgeted fuzz oracle',
}
LEAN_PROPS = ['AsyncsshModel.Props.C10']
DRIVER = 'Drivers/C10.lean'
TRUSTED = [
    'CPU time is represented by step counts (handler calls, getter calls, der_decode_partial calls, loop iterations)',
    'CPython recursion limit and sys.get_int_max_str_digits() are parameters of the DER model, read from the interpreter',
    'the in-memory transport pair and its output/round budgets (harness/pair.py, props/_c10_conn.py)',
]
ASSUMPTIONS = [
    'a peer must actually send the bytes a length field announces: waiting for them is a stall, not work',
    'application callbacks (session/process factories, SFTP server methods) return in bounded time',
]

WORKERS_QUICK = 10
WORKERS_THOROUGH = 12


# ---------------------------------------------------------------------------
# translator


def translate(ctx: Ctx) -> Dict[str, Any]:
    return TR.generate()


# ---------------------------------------------------------------------------
# implementation side of the correspondence

GETTER_OF = {'b': 'get_byte', 'o': 'get_boolean', 'h': 'get_uint16', 'u': 'get_uint32', 'q': 'get_uint64',
             's': 'get_string', 'm': 'get_mpint', 'n': 'get_namelist', 'e': 'check_end'}


def show_val(k: str, v: Any) -> str:
    if k in 'bhuqm':
        return str(v)
    if k == 'o':
        return 'T' if v else 'F'
    if k == 's':
        return hx(bytes(v))
    if k == 'n':
        return '[' + ','.join(hx(bytes(x)) for x in v) + ']'
    return '.'


def impl_fields(schema: str, payload: bytes) -> str:
    pkt = packetmod.SSHPacket(payload)
    vals = []
    steps = 0
    for k in schema:
        steps += 1
        try:
            v = getattr(pkt, GETTER_OF[k])()
        except packetmod.PacketDecodeError as e:
            kind = 'incomplete' if 'Incomplete' in str(e) else ('trailing' if 'Unexpected data' in str(e) else str(e))
            return f'err {kind} steps={steps}'
        except Exception as e:           # a broken getter
            return f'exc {type(e).__name__} steps={steps}'
        vals.append(show_val(k, v))
    return 'ok ' + ' '.join(vals) + ' unread=' + hx(pkt.get_remaining_payload())


def gen_fields_case(rng: random.Random, malformed: bool) -> Tuple[str, bytes]:
    n = rng.randrange(0, 8)
    schema = ''.join(rng.choice('bohuqsmn') for _ in range(n))
    if rng.random() < 0.4:
        schema += 'e'
    body = b''
    for k in schema:
        if k in 'bo':
            body += bytes([rng.choice([0, 1, 255, rng.randrange(256)])])
        elif k == 'h':
            body += struct.pack('>H', rng.choice([0, 1, 65535, rng.randrange(65536)]))
        elif k == 'u':
            body += struct.pack('>I', rng.choice(P.EXTREMES32))
        elif k == 'q':
            body += struct.pack('>Q', rng.choice([0, 1, 2 ** 64 - 1, rng.getrandbits(64)]))
        elif k == 's':
            sv = bytes(rng.randrange(256) for _ in range(rng.choice([0, 1, 3, 20])))
            body += struct.pack('>I', len(sv)) + sv
        elif k == 'm':
            mv = rng.choice([b'', b'\x00', b'\x7f', b'\x80', b'\xff', b'\x00\x80', b'\xff\x7f', bytes(rng.randrange(256) for _ in range(9))])
            body += struct.pack('>I', len(mv)) + mv
        elif k == 'n':
            nv = rng.choice([b'', b'a', b'a,b', b',', b'a,,b', b',a', b'a,', b'\xff,\x00'])
            body += struct.pack('>I', len(nv)) + nv
    if rng.random() < 0.25:
        body += bytes(rng.randrange(256) for _ in range(rng.choice([1, 2, 5])))
    if malformed:
        r = rng.random()
        if r < 0.4 and body:
            body = body[:rng.randrange(len(body))]
        elif r < 0.8 and len(body) >= 4:
            i = rng.randrange(len(body) - 3)
            body = body[:i] + struct.pack('>I', rng.choice(P.EXTREMES32 + [len(body), len(body) - i - 4, len(body) - i - 3])) + body[i + 4:]
        else:
            body = P.mutate(rng, body)
    return schema or '-', body


class DerProbe:
    """wraps asn1.der_decode_partial to observe recursion depth and number of calls (module-level name, so the
    recursive calls made by the decode classmethods go through the wrapper as well)"""

    def __init__(self) -> None:
        self.depth = 0
        self.cur = 0
        self.calls = 0

    def __enter__(self) -> 'DerProbe':
        self.orig = asn1mod.der_decode_partial
        probe = self
        orig = self.orig

        def wrapped(data: bytes) -> Any:
            probe.calls += 1
            probe.cur += 1
            if probe.cur > probe.depth:
                probe.depth = probe.cur
            try:
                return orig(data)
            finally:
                probe.cur -= 1
        asn1mod.der_decode_partial = wrapped          # type: ignore
        return self

    def reset(self) -> None:
        self.depth = self.cur = self.calls = 0

    def __exit__(self, *a: Any) -> None:
        asn1mod.der_decode_partial = self.orig        # type: ignore


def impl_der(probe: DerProbe, data: bytes) -> Tuple[str, int, int]:
    probe.reset()
    try:
        asn1mod.der_decode(data)
        res = f'ok {len(data)}'
    except RecursionError:
        res = 'err RecursionError'
    except Exception as e:
        res = 'err ' + type(e).__name__
    return res, probe.depth, probe.calls


def calibrate_levels(probe: DerProbe) -> int:
    """largest number of nested levels der_decode reaches under the probe before RecursionError"""
    lo, hi = 1, 2000
    while lo < hi:
        mid = (lo + hi + 1) // 2
        r, _d, _c = impl_der(probe, P.nested_der(mid - 1, 'seq'))     # mid-1 SEQUENCEs + the NULL leaf = mid levels
        if r.startswith('ok'):
            lo = mid
        else:
            hi = mid - 1
    return lo


REASON_ENUM = [('Banner line too long', 'banner-line-too-long'), ('Version too long', 'version-too-long'),
               ('Too many banner lines', 'too-many-banner-lines'), ('Unsupported SSH version', 'unsupported-version')]


async def impl_version(role: str, chunks: List[bytes]) -> str:
    """feed chunks to a fresh real endpoint that awaits the peer's version; observable outcome"""
    case = await C.setup_clear(role, 'start')
    try:
        assert case.hub is not None
        for ch in chunks:
            if case.closed():
                break
            case.hub.inject(case.to_target, ch)
            await pair.settle(6)
        await pair.settle(6)
        reports = case.lost_reports()
        if case.closed() or reports:
            exc = reports[0] if reports else None
            reason = str(getattr(exc, 'reason', exc))
            for text, enum in REASON_ENUM:
                if text in reason:
                    return 'closed ' + enum
            return 'closed other:' + type(exc).__name__ + ':' + reason[:40]
        key = 'client_version' if role == 'server' else 'server_version'
        v = case.target.get_extra_info(key)
        if v:
            return 'accepted ' + hx(v.encode('ascii'))
        return 'waiting'
    finally:
        C.teardown(case)
        await pair.settle(4)


def gen_version_stream(rng: random.Random, limits: Dict[str, int], heavy: bool) -> List[bytes]:
    mlines, mlen, mver = limits['_MAX_BANNER_LINES'], limits['_MAX_BANNER_LINE_LEN'], limits['_MAX_VERSION_LINE_LEN']
    nl = lambda: rng.choice([b'\n', b'\r\n', b'\n'])          # noqa: E731
    out = b''
    r = rng.random()
    if heavy and r < 0.25:
        n = rng.choice([mlines - 1, mlines, mlines + 1, mlines + 2])
        line = rng.choice([b'', b'x', b'banner'])
        out += (line + nl()) * n
    elif r < 0.45:
        n = rng.choice([mlen - 2, mlen - 1, mlen, mlen + 1])
        out += b'y' * n + (nl() if rng.random() < 0.7 else b'')
    else:
        for _ in range(rng.choice([0, 0, 1, 2, 5])):
            out += rng.choice([b'', b'hello', b'ssh-2.0-lower', b' SSH-2.0-x', b'\xff\xfe', b'S', b'SS', b'SSH', b'a\rb',
                               b'\r', b'SSH-1.5-old', b'SSH-', b'SSH-2.1-x', b'SSH-1.99', b'SSH-2.0']) + nl()
    r = rng.random()
    if r < 0.55:
        ident = rng.choice([b'SSH-2.0-', b'SSH-1.99-', b'SSH-2.0-'])
        n = rng.choice([0, 1, 10, mver - len(ident) - 1, mver - len(ident), mver - len(ident) + 1, mver + 40])
        out += ident + b'v' * max(0, n) + rng.choice([b'\r\n', b'\n', b'\r\r\n'])
        out += bytes(rng.randrange(256) for _ in range(rng.choice([0, 0, 3, 7])))       # < one cipher block
    elif r < 0.7:
        out += rng.choice([b'SSH-2.0-partial', b'bann', b''])
    ncuts = rng.choice([0, 0, 1, 2, 6])
    cuts = sorted(rng.randrange(len(out) + 1) for _ in range(ncuts)) if out else []
    chunks = [out[a:b] for a, b in zip([0] + cuts, cuts + [len(out)])]
    return [c for c in chunks if c] or [b'\n']


# ---------------------------------------------------------------------------
# correspondence


def correspondence(ctx: Ctx) -> CorrResult:
    res = CorrResult()
    hist = Hist()
    lines: List[str] = []
    expect: List[Tuple[str, Any, Any]] = []       # (name, case, impl or acceptor)
    limits = {k: getattr(importlib.import_module('asyncssh.connection'), k) for k in TR.LIMITS}

    # (1) field decoders vs SSHPacket getters -------------------------------------------------------
    rng = ctx.subrng('corr-fields')
    for i in range(ctx.n(1500, 20000)):
        schema, payload = gen_fields_case(rng, malformed=(i % 2 == 1))
        lines.append(f'fields {schema} {hx(payload)}')
        impl = impl_fields('' if schema == '-' else schema, payload)
        expect.append(('fields', {'schema': schema, 'payload': payload.hex()}, impl))
        hist.hit('fields:' + impl.split(' ')[0] + (':' + impl.split(' ')[1] if impl.startswith('err') else ''))
    # the schemas the channel handlers use, at the numeric extremes
    for schema in ('suuu', 'uuuu', 'ue', 'se', 'sss'):
        for _ in range(ctx.n(20, 200)):
            body = b''
            for k in schema:
                if k == 'u':
                    body += struct.pack('>I', rng.choice([0, 1, 0xffffffff]))
                elif k == 's':
                    sv = rng.choice([b'', b'session', b'x' * 40])
                    body += struct.pack('>I', rng.choice([len(sv), 0, 1, 0xffffffff])) + sv
            lines.append(f'fields {schema} {hx(body)}')
            expect.append(('fields', {'schema': schema, 'payload': body.hex()}, impl_fields(schema, body)))
            hist.hit('fields:handler-schema')

    # (2) DER decoder vs instrumented der_decode -------------------------------------------------
    rng = ctx.subrng('corr-der')
    str_limit = sys.get_int_max_str_digits() if hasattr(sys, 'get_int_max_str_digits') else 0
    der_cases: List[bytes] = []
    for i in range(ctx.n(1200, 15000)):
        r = rng.random()
        if r < 0.45:
            der_cases.append(P.gen_der(rng))
        else:
            der_cases.append(P.gen_der_hostile(rng))
    der_cases += [P.nested_der(d, k) for d in (1, 2, 50, 200, 400, 700, 1500) for k in ('seq', 'set', 'tagged', 'mix')]
    der_cases += [P.der_tlv(b'\x06', b'\x2b' + b'\xff' * n + b'\x7f') for n in (10, 2000, 2045, 2100)]
    with DerProbe() as probe:
        levels = calibrate_levels(probe)
        der_impl = [impl_der(probe, d) for d in der_cases]
    for d, (r, depth, calls) in zip(der_cases, der_impl):
        lines.append(f'der {str_limit} 1000000 {hx(d)}')
        expect.append(('der', {'data': d[:2000].hex(), 'len': len(d), 'levels': levels}, (r, depth, calls)))
        hist.hit('der:' + r.split(' ')[0] + (':' + r.split(' ')[1] if r.startswith('err') else ''))
    res.notes.append(f'der: interpreter allows {levels} nested der_decode_partial levels under the probe; '
                     f'int->str limit {str_limit}')

    # (3) version / banner machine vs a real client and a real server -----------------------------
    rng = ctx.subrng('corr-version')
    vcases: List[Tuple[str, List[bytes]]] = []
    for i in range(ctx.n(160, 1500)):
        role = 'client' if i % 2 == 0 else 'server'
        vcases.append((role, gen_version_stream(rng, limits, heavy=(role == 'client'))))

    async def run_versions() -> List[str]:
        return [await impl_version(role, chunks) for role, chunks in vcases]
    vimpl = pair.run(run_versions(), timeout=1500)
    for (role, chunks), impl in zip(vcases, vimpl):
        lines.append('ver ' + ('c' if role == 'client' else 's') + ' ' + ' '.join(hx(c) for c in chunks))
        expect.append(('version', {'role': role, 'chunks': [c[:200].hex() for c in chunks],
                                   'total': sum(len(c) for c in chunks)}, impl))
        hist.hit('version:' + role + ':' + ' '.join(impl.split(' ')[:2] if impl.startswith('closed') else impl.split(' ')[:1]))

    # (4) limits and the send loop vs real sessions ---------------------------------------------------
    maxuser = limits['_MAX_USERNAME_LEN']
    ucases = [maxuser - 2, maxuser - 1, maxuser, maxuser + 1, 1, 0]

    async def run_users() -> List[str]:
        out = []
        for n in ucases:
            payload = packetmod.String(b'u' * n) + packetmod.String('ssh-connection') + packetmod.String('none')
            o = await C.packet_case('pre-auth', 'server', f'user{n}', explicit=[(50, payload)])
            out.append('too-long' if (o.get('reports') or [''])[0] == 'IllegalUserName' else 'ok')
        return out
    uimpl = pair.run(run_users(), timeout=300)
    for n, impl in zip(ucases, uimpl):
        lines.append(f'user {n}')
        expect.append(('username', {'len': n}, impl))
        hist.hit('username:' + impl)

    nbytes = 40
    wcases = [(role, w, p) for role in C.ROLES for w in C.EXTREMES for p in C.EXTREMES]

    async def run_windows() -> List[Dict[str, Any]]:
        out = []
        for role, w, p in wcases:
            with capture.PacketTap() as tap:
                o = await C.window_case(role, w, p, nbytes=nbytes)
                sent = []
                for cid, pkts in tap.sent.items():
                    sent.append([len(pl) for _q, pl in pkts if pl[:1] == b'\x5e'])      # MSG_CHANNEL_DATA
                o['data_sizes'] = sent
            out.append(o)
        return out
    wimpl = pair.run(run_windows(), timeout=600)
    for (role, w, p), o in zip(wcases, wimpl):
        lines.append(f'flush {w} {p} 64 {hx(b"y" * nbytes)}')
        expect.append(('send-loop', {'role': role, 'window': w, 'max_pktsize': p, 'nbytes': nbytes}, o))
        hist.hit('send-loop:' + C.outcome_of(o))
    lines.append('safe')
    expect.append(('open-guard', {}, None))

    # run the model ----------------------------------------------------------------------------------------
    out = ctx.model(DRIVER, lines)
    seen_kinds = set()
    for line, (name, case, impl), mod in zip(lines, expect, out):
        res.cases += 1
        ok = True
        if name in ('fields', 'username'):
            ok = (mod == impl)
        elif name == 'der':
            r, depth, calls = impl
            m_res = ' '.join(mod.split(' ')[:2])
            m_depth = int(mod.split('depth=')[1].split(' ')[0])
            m_calls = int(mod.split('calls=')[1])
            lv = case['levels']
            if m_depth <= lv - 2:
                ok = (m_res == r and m_depth == depth and m_calls == calls)
            elif m_depth >= lv + 2:
                ok = (r == 'err RecursionError')
            else:
                ok = (r == 'err RecursionError') or (m_res == r)
            seen_kinds.add('der:' + m_res.split(' ')[-1] if m_res.startswith('err') else 'der:ok')
        elif name == 'version':
            m = mod.split(' ')
            mkey = ' '.join(m[:2]) if m[0] in ('accepted', 'closed') else m[0]
            ok = (mkey == impl)
            seen_kinds.add('version:' + (m[1] if m[0] == 'closed' else m[0]))
        elif name == 'send-loop':
            o = impl
            spins = C.outcome_of(o) == 'spins'
            m_running = mod.startswith('running')
            sizes = [int(x) - 9 for x in []]
            target_sizes: List[int] = []
            for lst in o.get('data_sizes', []):
                # payload = type byte + recipient channel + string header
                cand = [n - 9 for n in lst]
                if sum(cand) > sum(target_sizes) or (len(cand) > len(target_sizes)):
                    target_sizes = cand
            w, p = case['window'], case['max_pktsize']
            if p == 0 and w > 0:
                ok = spins and m_running
            else:
                ok = (not spins) and (not m_running)
                if ok and (w >= nbytes or w == 0):
                    m_sizes = [int(x) for x in mod.split('sizes=')[1].split(' ')[0].split(',') if x]
                    # the target also sends its own small writes (none here); compare the DATA sizes of the big write
                    big = [n for n in target_sizes if n > 0]
                    ok = (big[:len(m_sizes)] == m_sizes) if m_sizes else (sum(big) == 0 or w == 0)
            seen_kinds.add(f'send-loop:{"spin" if spins else "ok"}')
        elif name == 'open-guard':
            res.notes.append(f'channel-open guard in the current tree: {mod}')
            continue
        if not ok:
            res.disagreements.append(Disagreement({'op': name, **case}, mod,
                                                  impl if not isinstance(impl, dict) else
                                                  {k: impl.get(k) for k in ('spin', 'rounds', 'out_bytes', 'data_sizes', 'closed')},
                                                  f'{name}'))
    res.nontrivial = len(set(l.split(' ')[0] + ':' + l.split(' ')[1] for l in lines if ' ' in l)) + len(seen_kinds)
    res.histogram = dict(hist)
    res.samples = [{'line': lines[i][:160], 'model': out[i][:160], 'impl': str(expect[i][2])[:160]}
                   for i in (0, 1, len(lines) // 2, len(lines) - 3)]
    res.rule = ('field decoders: random getter schemas over structured and malformed payloads (every result or error '
                'kind, step count, unread bytes); DER: generated and hostile encodings (result/exception class, '
                'recursion depth, der_decode_partial calls); version exchange: generated line streams against a real '
                'client and a real server (waiting / accepted version / close reason); username limit; send loop at '
                'window x max-packet-size extremes. distinct = distinct (operation, schema or first argument) plus '
                'distinct outcome kinds')
    return res


# ---------------------------------------------------------------------------
# oracle


def limit_cases() -> List[Tuple[str, str, bytes, str, str]]:
    """(name, role, stream, expected close reason fragment, signature if the limit is not enforced)"""
    conn = importlib.import_module('asyncssh.connection')
    ml, mll, mv = conn._MAX_BANNER_LINES, conn._MAX_BANNER_LINE_LEN, conn._MAX_VERSION_LINE_LEN
    return [
        ('banner-lines', 'client', b'hello\r\n' * (ml + 6) + b'SSH-2.0-late\r\n', 'Too many banner lines', 'c10:banner-lines-unbounded'),
        ('banner-line-length', 'client', b'z' * (3 * mll), 'Banner line too long', 'c10:banner-line-unbounded'),
        ('banner-line-length', 'server', b'z' * (3 * mll), 'Banner line too long', 'c10:banner-line-unbounded'),
        ('version-length', 'client', b'SSH-2.0-' + b'v' * (mv + 50) + b'\r\n', 'Version too long', 'c10:version-line-unbounded'),
        ('version-length', 'server', b'SSH-2.0-' + b'v' * (mv + 50) + b'\r\n', 'Version too long', 'c10:version-line-unbounded'),
        ('server-banner', 'server', b'hello\r\nSSH-2.0-x\r\n', 'Unsupported SSH version', 'c10:server-accepts-banner'),
    ]


async def run_limit_case(role: str, stream: bytes) -> Dict[str, Any]:
    case = await C.setup_clear(role, 'start')
    try:
        assert case.hub is not None
        case.arm_output_budget(len(stream))
        with C.Watch():
            for i in range(0, len(stream), 4096):
                if case.closed():
                    break
                case.hub.inject(case.to_target, stream[i:i + 4096])
                await C.quiesce(case, 60)
        reports = case.lost_reports()
        return {'closed': case.closed(), 'reason': str(getattr(reports[0], 'reason', reports[0])) if reports else '',
                'spin': case.spin}
    finally:
        C.teardown(case)
        await pair.settle(4)


def corpus_packets() -> List[Tuple[str, str, List[Tuple[int, bytes]], str]]:
    """deterministic inputs for every connection-level root cause seen so far (phase, role, packets, note)"""
    St, U = packetmod.String, packetmod.UInt32
    kex_ok = packetmod.NameList([b'curve25519-sha256'])
    names = packetmod.NameList
    cookie = bytes(16)
    rest9 = names([b'ssh-ed25519']) + names([b'aes128-ctr']) * 2 + names([b'hmac-sha2-256']) * 2 + names([b'none']) * 2 + \
        names([]) * 2 + b'\0' + U(0)
    return [
        ('pre-kex', 'server', [(20, cookie + kex_ok[:7])], 'KEXINIT truncated inside a name-list (async handler)'),
        ('pre-kex', 'client', [(20, cookie + kex_ok[:7])], 'KEXINIT truncated inside a name-list (async handler)'),
        ('pre-kex', 'server', [(20, cookie + names([b'\xff']) + rest9)], 'KEXINIT with a non-ASCII algorithm name and no match'),
        ('pre-kex', 'client', [(20, cookie + names([b'\xff']) + rest9)], 'KEXINIT with a non-ASCII algorithm name and no match'),
        ('pre-auth', 'server', [(50, St(b'user') + St(b'ssh-connection') + St(b'password'))],
         'USERAUTH_REQUEST password without its fields (decoded in a task)'),
        ('pre-auth', 'server', [(50, St(b'user') + St(b'ssh-connection') + St(b'publickey'))],
         'USERAUTH_REQUEST publickey without its fields (decoded in a task)'),
        ('post-auth', 'server', [(93, U(0) + U(0xffffffff))], 'WINDOW_ADJUST 2^32-1 on top of an open window'),
        ('post-auth', 'client', [(93, U(0) + U(0xffffffff))], 'WINDOW_ADJUST 2^32-1 on top of an open window'),
        ('post-auth', 'server', [(93, U(0) + U(0xffffffff))] * 3, 'three WINDOW_ADJUST 2^32-1'),
        ('post-auth', 'server', [(90, St(b'session') + U(0) + U(0xffffffff) + U(0xffffffff))], 'CHANNEL_OPEN at the maxima'),
        ('post-auth', 'server', [(90, St(b'session') + U(0xffffffff) + U(0) + U(1))], 'CHANNEL_OPEN window 0'),
        ('post-auth', 'server', [(94, U(0) + U(0xffffffff) + b'xx')], 'DATA whose length field exceeds the packet'),
        ('post-auth', 'client', [(94, U(0) + U(0xffffffff) + b'xx')], 'DATA whose length field exceeds the packet'),
        ('post-auth', 'server', [(80, St(b'tcpip-forward') + b'\x01' + St(b'\xff') + U(0xffffffff))], 'tcpip-forward extremes'),
        ('post-auth', 'server', [(98, U(0) + St(b'pty-req') + b'\x01' + St(b'xterm') + U(0xffffffff) * 4 + St(b'\x80\xff\xff\xff\xff'))],
         'pty-req with extreme sizes and modes'),
    ]


def corpus_streams() -> List[Tuple[str, str, bytes, str]]:
    return [
        ('pre-kex', 'server', struct.pack('>I', 12) + b'\x0b' + bytes(11), 'frame whose payload is empty'),
        ('pre-kex', 'client', struct.pack('>I', 12) + b'\x0b' + bytes(11), 'frame whose payload is empty'),
        ('in-kex', 'server', struct.pack('>I', 0) + bytes(12), 'packet length 0 (negative remainder, F12)'),
        ('pre-kex', 'server', struct.pack('>I', 0xffffffff) + bytes(64), 'packet length 2^32-1 (stall)'),
        ('pre-kex', 'server', C.frame(b'\x02' + packetmod.String(b'')) * 3000, '3000 minimal IGNORE packets in one chunk'),
    ]


def corpus_sftp() -> List[Tuple[bytes, str]]:
    S_, u = S.S, S.u32
    init = lambda ext, data: S.sftp_frame(random.Random(1), b'')[:0] + u(len(b'\x01' + u(3) + S_(ext) + S_(data))) + \
        b'\x01' + u(3) + S_(ext) + S_(data)      # noqa: E731
    return [(init(b'supported', b'\x00'), 'INIT v3 with a truncated "supported" extension'),
            (init(b'vendor-id', b''), 'INIT v3 with an empty "vendor-id" extension'),
            (init(b'acl-supported', b'\x00' * 9), 'INIT v3 with an over-long "acl-supported" extension')]


def corpus_sftp_client() -> List[Tuple[List[Tuple[int, bytes]], List[str], str]]:
    """(scripted replies, client operations, note)"""
    S_, u = S.S, S.u32
    ok_version = (2, u(3))
    return [
        ([(2, u(3) + S_(b'supported') + S_(b'\x00'))], [], 'VERSION reply with a truncated "supported" extension'),
        ([ok_version, (104, u(0))], ['realpath'], 'NAME reply with zero names to REALPATH'),
        ([ok_version, (104, u(0))], ['readlink'], 'NAME reply with zero names to READLINK'),
        ([ok_version, (105, u(1))], ['stat'], 'ATTRS reply cut off after the flags'),
        ([ok_version, (101, u(0))], ['mkdir'], 'STATUS reply without message and language'),
        ([ok_version, (102, b'')], ['read'], 'HANDLE reply without a handle'),
    ]


def corpus_parsers() -> List[Tuple[str, bytes, str]]:
    """(target, input, note): crafted inputs for every parser root cause seen so far"""
    art = P.artefacts()
    deep = P.nested_der(700, 'seq')
    pem = lambda name, body: b'-----BEGIN ' + name + b'-----\n' + base64.encodebytes(body) + b'-----END ' + name + b'-----\n'   # noqa: E731
    bad_utf8 = b'\x30\x03\x0c\x01\xff'
    bad_bits = b'\x30\x04\x03\x02\x07\xff'
    big_oid = P.der_tlv(b'\x30', P.der_tlv(b'\x06', b'\x2b' + b'\xff' * 2100 + b'\x7f'))
    out: List[Tuple[str, bytes, str]] = [
        ('der_decode', deep, '700 nested SEQUENCEs'),
        ('der_decode', bad_utf8, 'UTF8String with an invalid byte'),
        ('der_decode', bad_bits, 'BIT STRING whose unused bits are set'),
        ('der_decode', big_oid, 'OBJECT IDENTIFIER component above the int->str limit'),
    ]
    for tgt, name in (('import_private_key', b'PRIVATE KEY'), ('import_public_key', b'PUBLIC KEY'),
                      ('import_certificate', b'CERTIFICATE')):
        out += [(tgt, deep, 'DER: 700 nested SEQUENCEs'), (tgt, pem(name, deep), 'PEM: 700 nested SEQUENCEs'),
                (tgt, bad_utf8, 'DER: invalid UTF8String'), (tgt, pem(name, bad_utf8), 'PEM: invalid UTF8String'),
                (tgt, bad_bits, 'DER: BIT STRING with unused bits set'), (tgt, pem(name, bad_bits), 'PEM: bad BIT STRING'),
                (tgt, big_oid, 'DER: OID component above the int->str limit'),
                (tgt, b'-----BEGIN ( ' + name + b'-----\nAAAA\n-----END ( ' + name + b'-----\n', 'regex metacharacter in the PEM header'),
                (tgt, b'-----BEGIN \\E ' + name + b'-----\nAAAA\n-----END \\E ' + name + b'-----\n', 'backslash in the PEM header')]
    out.append(('import_certificate', b'\x30\x02\x05\x00', 'well-formed DER that is not a certificate (no X.509 backend)'))
    out.append(('import_certificate', pem(b'CERTIFICATE', b'\x30\x02\x05\x00'), 'PEM certificate (no X.509 backend)'))
    rsa = [k for k in art['keys'] if k.get_algorithm() == 'ssh-rsa']
    if rsa:
        pub = asn1mod.der_decode(rsa[0].export_public_key('pkcs1-der'))
        n, e = pub
        out.append(('import_public_key', asn1mod.der_encode((n, 4)), 'PKCS#1 RSA public key with an even exponent'))
        out.append(('import_public_key', asn1mod.der_encode((-n, e)), 'PKCS#1 RSA public key with a negative modulus'))
        out.append(('import_public_key', pem(b'RSA PUBLIC KEY', asn1mod.der_encode((n, 4))), 'PEM RSA public key, even exponent'))
        priv = list(asn1mod.der_decode(rsa[0].export_private_key('pkcs1-der')))
        priv[5] = priv[5] + 2
        out.append(('import_private_key', asn1mod.der_encode(tuple(priv)), 'PKCS#1 RSA private key with p*q != n'))
        out.append(('import_private_key', pem(b'RSA PRIVATE KEY', asn1mod.der_encode(tuple(priv))), 'PEM RSA private key, p*q != n'))
        neg = list(asn1mod.der_decode(rsa[0].export_private_key('pkcs1-der')))
        neg[3] = -neg[3]
        out.append(('import_private_key', asn1mod.der_encode(tuple(neg)), 'PKCS#1 RSA private key with a negative exponent'))

        def negate_iterations(v: Any) -> Any:
            if isinstance(v, tuple):
                return tuple(negate_iterations(x) for x in v)
            if isinstance(v, int) and not isinstance(v, bool) and v >= 1000:
                return -v
            return v
        enc = rsa[0].export_private_key('pkcs8-der', passphrase='pw')
        out.append(('import_private_key:passphrase', asn1mod.der_encode(negate_iterations(asn1mod.der_decode(enc))),
                    'encrypted PKCS#8 whose PBKDF2 iteration count is negative'))
    ec = [k for k in art['keys'] if k.get_algorithm() == 'ecdsa-sha2-nistp256']
    if ec:
        spki = ec[0].export_public_key('pkcs8-der')
        out.append(('import_public_key', spki[:-3] + b'\xff\xff\xff', 'SPKI EC key whose point is not on the curve'))
    return out


def plan_jobs(ctx: Ctx) -> List[Tuple[str, str, int, int]]:
    jobs: List[Tuple[str, str, int, int]] = []
    thorough = ctx.tier == 'thorough' or ctx.escalated
    per_target = 4000 if not thorough else 60000
    split = 4 if not thorough else 12
    for t in P.TARGETS:
        n = per_target if t not in ('agent_client',) else per_target // 2
        for s in range(split):
            jobs.append(('_run_parser_job', t, s * (n // split), n // split))
    per_combo = 1000 if not thorough else 12000
    csplit = 2 if not thorough else 6
    for ph in C.PHASES:
        for r in C.ROLES:
            for s in range(csplit):
                jobs.append(('_run_conn_job', f'packet:{ph}:{r}', s * (per_combo // csplit), per_combo // csplit))
    per_stream = 150 if not thorough else 2500
    for ph in ['start'] + C.PHASES:
        for r in C.ROLES:
            jobs.append(('_run_conn_job', f'stream:{ph}:{r}', 0, per_stream))
    nsrv = 1000 if not thorough else 16000
    ncli = 120 if not thorough else 2400
    for s in range(2 if not thorough else 8):
        jobs.append(('_run_conn_job', 'sftp-server', s * (nsrv // (2 if not thorough else 8)), nsrv // (2 if not thorough else 8)))
        jobs.append(('_run_conn_job', 'sftp-client', s * (ncli // (2 if not thorough else 8)), ncli // (2 if not thorough else 8)))
    # interleave long and short jobs
    rng = ctx.subrng('plan')
    rng.shuffle(jobs)
    return jobs


def run_corpus(ctx: Ctx, res: OracleResult, hist: Hist) -> None:
    """deterministic part: limits, channel-open extremes, one input per root cause seen so far"""
    # limits ----------------------------------------------------------------------------
    async def limits() -> List[Tuple[Any, Dict[str, Any]]]:
        out = []
        for lc in limit_cases():
            out.append((lc, await run_limit_case(lc[1], lc[2])))
        return out
    for (name, role, stream, frag, sig), o in pair.run(limits(), timeout=300):
        res.evaluations += 1
        hist.hit(f'limit:{name}:{role}:' + ('closed' if o['closed'] else 'open'))
        if not o['closed'] or frag not in o['reason']:
            res.failures.append(Failure(sig, f'{role} fed {len(stream)} bytes ({name}): expected a close with "{frag}", '
                                             f'got closed={o["closed"]} reason={o["reason"][:60]!r}',
                                        {'kind': 'limit', 'role': role, 'data': stream[:64].hex(), 'data_len': len(stream),
                                         'name': name}))

    # channel-open parameters at the extremes (F2 lives here) -----------------------------
    async def windows() -> List[Dict[str, Any]]:
        out = []
        for role in C.ROLES:
            for w in C.EXTREMES:
                for p in C.EXTREMES:
                    out.append(await C.window_case(role, w, p))
        return out
    for o in pair.run(windows(), timeout=600):
        res.evaluations += 1
        hist.hit(f'channel-open:{o["role"]}:pktsize={o["pktsize"]}:window={"0" if o["window"] == 0 else "+"}:' + C.outcome_of(o))
        for sig, what in C.failures_of(o):
            if sig.startswith('c10:spins') and o['pktsize'] == 0:
                sig = f'c10:spins:zero-max-packet-size:{o["role"]}-send-loop'
            res.failures.append(Failure(sig, what, {'kind': 'channel-open-params', 'role': o['role'],
                                                    'window': o['window'], 'max_pktsize': o['pktsize']}))

    # packets / streams / sftp ------------------------------------------------------------
    async def conn_corpus() -> List[Tuple[str, Dict[str, Any], Dict[str, Any]]]:
        out = []
        for ph, role, pkts, note in corpus_packets():
            o = await C.packet_case(ph, role, 'corpus', explicit=pkts)
            out.append((note, o, {'kind': 'packet', 'phase': ph, 'role': role, 'packets': [(t, p.hex()) for t, p in pkts]}))
        for ph, role, data, note in corpus_streams():
            o = await C.stream_case(ph, role, 'corpus', explicit=(data, []))
            out.append((note, o, {'kind': 'stream', 'phase': ph, 'role': role, 'data': data[:4096].hex(),
                                  'data_len': len(data), 'cuts': []}))
        for script, note in corpus_sftp():
            o = await S.sftp_server_case('corpus', explicit=script)
            out.append((note, o, {'kind': 'sftp-server', 'data': script.hex()}))
        for i, (script2, ops, note) in enumerate(corpus_sftp_client()):
            o = await S.sftp_client_case('corpus', script=script2, ops_fixed=ops)
            out.append((note, o, {'kind': 'sftp-client-script', 'index': i}))
        return out
    for note, o, rep in pair.run(conn_corpus(), timeout=600):
        res.evaluations += 1
        hist.hit('corpus:' + C.outcome_of(o))
        for sig, what in C.failures_of(o):
            res.failures.append(Failure(sig, f'{note}: {what}', rep))

    # parsers (safe in-process: every one of these returns or raises quickly) -------------
    for tgt, data, note in corpus_parsers():
        key, sig, detail = P.run_case(tgt, data)
        res.evaluations += 1
        hist.hit(f'corpus:{tgt}:{key}')
        if sig:
            res.failures.append(Failure(sig, f'{note}: {detail}', {'kind': 'parser', 'target': tgt, 'input': data[:6000].hex(),
                                                                   'input_len': len(data), 'note': note}))


def oracle(ctx: Ctx) -> OracleResult:
    res = OracleResult()
    hist = Hist()
    t0 = time.time()
    # inputs from correspondence disagreements first
    for s in ctx.suspects[:50]:
        try:
            for f in replay_one(s):
                res.failures.append(f)
        except Exception:
            pass
    run_corpus(ctx, res, hist)
    t1 = time.time()
    thorough = ctx.tier == 'thorough' or ctx.escalated
    workers = WORKERS_THOROUGH if thorough else WORKERS_QUICK
    workers = max(2, min(workers, (os.cpu_count() or 4)))
    deadline = time.time() + (50 if not thorough else 720)
    jobs = plan_jobs(ctx)
    phist, pfails, ncases, stats, notes = PL.run_jobs(ctx.seed, jobs, workers, deadline)
    res.evaluations += ncases
    for k, v in phist.items():
        hist.hit(k, v)
    for sig, (kind, idx, data, detail) in sorted(pfails.items()):
        if isinstance(data, dict):
            rep = dict(data)
            rep.setdefault('kind', kind.split(':')[0])
        else:
            rep = {'kind': 'parser', 'target': kind, 'input': (data or '')[:12000], 'index': idx}
        rep['seed'] = ctx.seed
        res.failures.append(Failure(sig, f'{kind} case {idx}: {detail}', rep))
    # one failure per signature
    uniq: Dict[str, Failure] = {}
    for f in res.failures:
        uniq.setdefault(f.signature, f)
    res.failures = list(uniq.values())
    if res.failures:
        res.notes.append('failure signatures: ' + ' | '.join(sorted(f.signature for f in res.failures)))
    harness_errors = sum(v for k, v in hist.items() if k.startswith('harness-error'))
    if harness_errors:
        res.notes.append(f'{harness_errors} cases could not be set up (counted, not findings)')
    res.notes += notes
    res.notes.append(f'oracle: corpus {t1 - t0:.1f}s, fuzz {time.time() - t1:.1f}s on {workers} workers; '
                     f'max loop rounds per input {stats.get("max_rounds")}, max response bytes per input byte beyond '
                     f'the {C.OUT_A}-byte allowance {stats.get("max_out_ratio"):.2f} (budget {C.OUT_B})')
    res.histogram = dict(hist)
    res.nontrivial = len([k for k in hist if not k.startswith('harness-error')])
    res.samples = [{'signature': f.signature, 'what': f.what[:200]} for f in res.failures[:3]] or \
        [{'histogram_keys': sorted(hist)[:6]}]
    res.rule = ('(i) one structured/mutated packet of every type 1..100 (or a burst) per phase (pre-kex, in-kex, '
                'pre-auth, post-auth) and role, classified as carries-on / closes:<class> / spins / '
                'exception-escaped, with budgets on loop rounds and response bytes; channel-open parameters at '
                '{0,1,2^32-1}^2; (ii) garbage streams in five phases x two roles with random chunking; (iii) '
                'mutation + grammar-aware fuzz of der_decode, import_*key/certificate, trust files, SSHSIG, agent '
                'replies, SSHPacket getters (checked against a reference), SFTP server requests and SFTP client '
                'replies; failure = undocumented exception, spin, escaped exception, unreported close, close '
                'through the uncaught-exception path, or an unenforced limit. distinct = distinct '
                '(leg, phase, role, outcome) histogram keys')
    return res


# ---------------------------------------------------------------------------
# replay


def replay_one(r: Dict[str, Any]) -> List[Failure]:
    kind = r.get('kind') or r.get('op')
    fails: List[Failure] = []
    if kind == 'parser' or ('target' in r and 'input' in r):
        data = bytes.fromhex(r['input'])
        key, sig, detail = P.run_case(r['target'], data)
        if sig:
            fails.append(Failure(sig, detail, r))
        return fails
    if kind == 'channel-open-params':
        o = pair.run(C.window_case(r['role'], r['window'], r['max_pktsize']))
    elif kind == 'limit':
        lc = [c for c in limit_cases() if c[0] == r['name'] and c[1] == r['role']][0]
        o2 = pair.run(run_limit_case(lc[1], lc[2]))
        if not o2['closed'] or lc[3] not in o2['reason']:
            fails.append(Failure(lc[4], str(o2), r))
        return fails
    elif kind == 'packet' and r.get('packets'):
        pk = [(t, bytes.fromhex(p)) for t, p in r['packets']] * max(1, (r.get('npackets') or 1) // max(1, len(r['packets'])))
        o = pair.run(C.packet_case(r['phase'], r['role'], 'replay', explicit=pk))
    elif kind == 'stream' and r.get('data') is not None and r.get('data_len', 0) <= 4096:
        o = pair.run(C.stream_case(r['phase'], r['role'], 'replay', explicit=(bytes.fromhex(r['data']), r.get('cuts') or [])))
    elif kind == 'sftp-server' and r.get('data'):
        o = pair.run(S.sftp_server_case('replay', explicit=bytes.fromhex(r['data'])))
    elif kind == 'sftp-client-script':
        script2, ops, _note = corpus_sftp_client()[r['index']]
        o = pair.run(S.sftp_client_case('replay', script=script2, ops_fixed=ops))
    elif r.get('case_seed'):
        cs = r['case_seed']
        parts = cs.split(':')
        leg = parts[1]
        if leg == 'packet':
            o = pair.run(C.packet_case(parts[2], parts[3], cs))
        elif leg == 'stream':
            o = pair.run(C.stream_case(parts[2], parts[3], cs))
        elif leg == 'sftp-server':
            o = pair.run(S.sftp_server_case(cs))
        elif leg == 'sftp-client':
            o = pair.run(S.sftp_client_case(cs))
        else:
            return fails
    elif kind == 'fields':
        schema = '' if r['schema'] == '-' else r['schema']
        out = impl_fields(schema, bytes.fromhex(r['payload']))
        if out.startswith('exc'):
            fails.append(Failure('c10:getter-exception', out, r))
        return fails
    else:
        return fails
    for sig, what in C.failures_of(o):
        if sig.startswith('c10:spins') and r.get('max_pktsize') == 0:
            sig = f'c10:spins:zero-max-packet-size:{r["role"]}-send-loop'
        fails.append(Failure(sig, what, r))
    return fails


def replay(ctx: Ctx, rep: Dict[str, Any]) -> List[Failure]:
    r = rep.get('replay', rep)
    return replay_one(r)
