"""C09 — seeded script generator for the life-cycle correspondence and oracle.

A script is a list of driver lines.  `gen_base` makes an operation script over up to three channels issued from
both sides with a seeded delivery schedule; `cut_variants` derives from it one script per packet boundary
(each `dl` line, i.e. each moment one more packet has reached its receiver) at which the transport is cut, a
DISCONNECT arrives, or a side aborts / closes the connection.
"""

from __future__ import annotations

from typing import Any, List, Tuple

SYNC = ['dl c2s', 'dl s2c', 'settle']

CUT_KINDS = ['cut', 'reset', 'disc-c', 'disc-s', 'abort-c', 'abort-s', 'lose-c', 'lose-s']


def header(rng: Any) -> Tuple[List[str], List[str]]:
    w = rng.choice([1, 2, 3, 4, 8])
    lines = [f'reset {w}']
    modes = []
    for _j in range(3):
        mode = rng.choices(['accept', 'refuse', 'later'], [78, 7, 15])[0]
        modes.append(mode)
        lines.append(f'scfg {mode} {int(rng.random() < 0.85)} {int(rng.random() < 0.85)} '
                     f'{int(rng.random() < 0.7)} {int(rng.random() < 0.04)}')
    for _j in range(2):
        lines.append('pfmode ' + rng.choice(['refuse', 'later']))
    return lines, modes


def gen_base(rng: Any, max_ops: int = 28) -> List[str]:
    """Header + body (no epilogue)."""
    lines, modes = header(rng)
    body: List[str] = []
    nopen = 0
    ngreq = 0
    style = rng.random()          # how often things are left in flight
    p_sync = 0.75 if style < 0.4 else (0.4 if style < 0.8 else 0.1)

    def progress() -> None:
        r = rng.random()
        if r < p_sync:
            for _ in range(rng.choice([1, 2, 2, 3])):
                body.extend(SYNC)
        elif r < p_sync + 0.25:
            for _ in range(rng.randint(1, 4)):
                body.append('dl ' + rng.choice(['c2s', 's2c']))
                if rng.random() < 0.4:
                    body.append(rng.choice(['tick', 'tick', 'settle']))
        elif r < p_sync + 0.35:
            body.append('tick')

    # phase 1: open channels
    for _ in range(rng.choice([1, 1, 2, 2, 3])):
        kind = rng.choice(['exec', 'exec', 'shell', 'subsystem'])
        body.append(f'open {rng.choice([0, 0, 1, 2])} {int(rng.random() < 0.35)} {kind} '
                    f'{int(rng.random() < 0.7)} {int(rng.random() < 0.06)}')
        j = nopen
        nopen += 1
        if modes[j] == 'later' and rng.random() < 0.8:
            body.extend(rng.choice([[], SYNC, ['dl c2s'], ['dl c2s', 'tick']]))
            body.append(f'grant {j} {int(rng.random() < 0.75)}')
        r0 = rng.random()
        if r0 < 0.6:
            # let the open handshake run to completion (open, conf, [env, pty], request, reply)
            for _ in range(rng.choice([2, 3, 4, 4])):
                body.extend(SYNC)
        elif r0 < 0.8:
            # interfere while the channel is still starting up: the other side acts before the requests are answered
            body.extend(['settle', 'dl c2s', 'settle'])
            if rng.random() < 0.7:
                body.extend(['dl s2c', 'settle'])
            for _ in range(rng.randint(0, 2)):
                body.append('dl c2s')
            for _ in range(rng.choice([1, 1, 2])):
                body.append(f'op s {j} ' + rng.choice(['close', 'close', 'abort', 'eof', 'write', 'exit']))
            progress()
        else:
            progress()
    # phase 2: activity from both sides
    ops = ['write', 'write', 'write', 'eof', 'eof', 'close', 'close', 'abort', 'pause', 'resume', 'resume', 'exit']
    if rng.random() < 0.35:
        # small write-buffer limits: one-byte writes reach the high-water mark, writers wait in drain()
        for side in rng.choice(['c', 's', 'cs']):
            for i in range(nopen):
                hi = rng.choice([0, 1, 1, 2, 3])
                body.append(f'op {side} {i} limits {hi} {rng.randint(0, hi)}')
        ops = ops + ['write', 'write', 'drain', 'drain']
    for _ in range(rng.randint(2, max_ops)):
        r = rng.random()
        if r < 0.55:
            side = rng.choice('cs')
            i = rng.randrange(max(1, nopen))
            o = rng.choice(ops)
            if o == 'exit' and side == 'c':
                o = 'close'
            body.append(f'op {side} {i} {o}')
            if o == 'pause' and rng.random() < 0.7:
                # make the peer fill the window behind the paused reader
                other = 's' if side == 'c' else 'c'
                for _ in range(rng.randint(1, 10)):
                    body.append(f'op {other} {i} write')
                body.extend(rng.choice([[], SYNC, SYNC + SYNC]))
        elif r < 0.62:
            body.append(f'wc {rng.choice("cs")} {rng.randrange(max(1, nopen))}')
        elif r < 0.65:
            body.append(f'cwc {rng.choice("cs")}')
        elif r < 0.70 and ngreq < 2:
            body.append('greq')
            ngreq += 1
        elif r < 0.74:
            body.append(f'grant {rng.randrange(3)} {int(rng.random() < 0.7)}')
        elif r < 0.77:
            body.append(f'pfdeny {rng.randrange(2)}')
        elif r < 0.80 and nopen < 3:
            kind = rng.choice(['exec', 'shell', 'subsystem'])
            body.append(f'open {rng.choice([0, 1])} {int(rng.random() < 0.3)} {kind} '
                        f'{int(rng.random() < 0.7)} {int(rng.random() < 0.06)}')
            nopen += 1
        elif r < 0.815:
            body.append(rng.choice(['cclose c', 'cclose s', 'cabort c', 'cabort s']))
        elif r < 0.83:
            body.append(f'lose {rng.choice("cs")} {rng.randrange(2)}')
        elif r < 0.89:
            # the peer finishes behind a paused reader that still holds undelivered data; the reader then gives up
            # (abort / close) or resumes: one threat, played to the end
            side = rng.choice('cs')
            other = 's' if side == 'c' else 'c'
            i = rng.randrange(max(1, nopen))
            body.append(f'op {side} {i} pause')
            k = rng.choice([1, 1, 1, 2, 3])     # few enough to fit the window: the peer's CLOSE must get out
            for _ in range(k):
                body.append(f'op {other} {i} write')
            for _ in range(k + 1):
                body.extend(SYNC)
            fin = rng.choice(['close', 'close', 'eof', 'exit'])
            if fin == 'exit' and other == 'c':
                fin = 'close'
            body.append(f'op {other} {i} {fin}')
            if fin != 'close' and rng.random() < 0.6:
                body.append(f'op {other} {i} close')
            body.extend(SYNC + SYNC + SYNC)
            body.append(f'op {side} {i} ' + rng.choice(['abort', 'abort', 'close', 'resume']))
            body.extend(rng.choice([SYNC, SYNC + SYNC]))
            if rng.random() < 0.5:
                body.append(f'wc {side} {i}')
        progress()
    return lines + body


SERVER_EARLY_OPS = [['close'], ['abort'], ['eof', 'close'], ['exit', 'close'], ['write', 'close'],
                    ['write', 'eof', 'close'], ['write', 'abort'], ['eof'], ['write']]

STARTUP_TEMPLATES = ['close-before-request-seen', 'request-rejected', 'pty-rejected', 'reply-then-close',
                     'close-then-requests-arrive', 'granted-then-closed', 'close-before-request-seen',
                     'data-then-close-before-reply', 'client-writes-then-rejected']


def startup_scenarios(rng: Any, n: int) -> List[Tuple[str, List[str]]]:
    """Scripts (header + body, no epilogue) in which the peer's CLOSE reaches a channel that is still in its
    start-up phase, on either role: the server closes / aborts before or instead of answering the client's
    pty / exec / shell / subsystem request (what a session closing the channel inside `exec_requested` looks like
    on the wire), the server rejects the request so that the client's `create()` closes a channel on which no
    session was started, reply and CLOSE arrive together, a delayed open is granted and closed at once."""
    out: List[Tuple[str, List[str]]] = []
    for k in range(n):
        name = STARTUP_TEMPLATES[k % len(STARTUP_TEMPLATES)]
        w = rng.choice([1, 2, 4, 8])
        nenv = rng.choice([0, 0, 1, 2])
        pty = int(rng.random() < 0.4)
        kind = rng.choice(['exec', 'shell', 'subsystem'])
        eofr = int(rng.random() < 0.7)
        mode, pty_ok, req_ok = 'accept', 1, 1
        if name in ('request-rejected', 'client-writes-then-rejected'):
            req_ok = 0
        elif name == 'pty-rejected':
            pty, pty_ok = 1, 0
        elif name == 'granted-then-closed':
            mode = 'later'
        lines = [f'reset {w}', f'scfg {mode} {pty_ok} {req_ok} {int(rng.random() < 0.7)} 0',
                 'scfg accept 1 1 1 0', 'scfg accept 1 1 1 0', 'pfmode refuse', 'pfmode refuse']
        body = [f'open {nenv} {pty} {kind} {eofr} 0', 'settle', 'dl c2s', 'settle']
        nreq = nenv + pty + 1                   # packets the client sends after the confirmation (one per await)
        if rng.random() < 0.5:
            body.append('wc s 0')
        if name == 'granted-then-closed':
            body += ['grant 0 1', 'settle']
            body += [f'op s 0 {o}' for o in rng.choice(SERVER_EARLY_OPS[:4])]
            body += ['dl s2c'] * rng.choice([2, 3]) + ['settle']
        else:
            body += ['dl s2c', 'settle']          # confirmation: create() goes on and sends its requests
            if name == 'client-writes-then-rejected':
                # the client application writes from `connection_made` on, before its request has been answered
                body += ['op c 0 write'] * rng.choice([1, 2]) + rng.choice([[], ['op c 0 eof']])
            if name in ('close-before-request-seen', 'data-then-close-before-reply'):
                ops = rng.choice(SERVER_EARLY_OPS[4:7] if name.startswith('data') else SERVER_EARLY_OPS)
                body += [f'op s 0 {o}' for o in ops]
                body += rng.choice([[], ['settle']])
                for _ in range(len(ops) + 1):
                    body.append('dl s2c')
                    if rng.random() < 0.3:
                        body.append('tick')
                body += ['settle']
            elif name == 'close-then-requests-arrive':
                body += [f'op s 0 {o}' for o in rng.choice(SERVER_EARLY_OPS[:4])]
                body += ['dl c2s'] * nreq + ['settle'] + ['dl s2c'] * 3 + ['settle']
            elif name == 'reply-then-close':
                for _ in range(nenv + pty):
                    body += ['dl c2s']
                body += ['settle', 'dl s2c', 'settle'] if pty else ['settle']
                body += ['dl c2s', 'settle']                 # the exec / shell / subsystem request reaches the server
                body += [f'op s 0 {o}' for o in rng.choice(SERVER_EARLY_OPS[:7])]
                body += ['dl s2c'] * rng.choice([2, 3, 4]) if rng.random() < 0.6 else ['dl s2c', 'tick', 'dl s2c', 'dl s2c']
                body += ['settle']
            # request-rejected / pty-rejected: nothing but fair delivery -- the client closes by itself
        if rng.random() < 0.5:
            body.append('wc c 0')
        for _ in range(rng.choice([2, 4, 6])):
            body += SYNC
        # the connection stays in use afterwards
        if rng.random() < 0.5:
            body += [f'open 0 0 exec 1 0'] + SYNC * 4 + [f'op {rng.choice("cs")} 1 close'] + SYNC * 2
        out.append((name, lines + body))
    return out


FLOW_TEMPLATES = ['mutual-close', 'mutual-close-paused', 'drain-peer-close', 'mutual-close', 'drain-peer-close',
                  'mutual-close-paused', 'drain-peer-eof-close', 'mutual-close-one-aborts']


def flow_scenarios(rng: Any, n: int) -> List[Tuple[str, List[str]]]:
    """Scripts (header + body, no epilogue) around flow control at the end of a channel's life: both applications
    close while each still has more to send than the other's window allows (nothing delivered in between), the same
    with both readers paused on a full window, and a writer waiting in drain() behind a full window when the peer's
    CLOSE arrives while its own reader still holds undelivered data."""
    out: List[Tuple[str, List[str]]] = []
    for k in range(n):
        name = FLOW_TEMPLATES[k % len(FLOW_TEMPLATES)]
        w = rng.choice([1, 2, 3, 4])
        lines = [f'reset {w}', f'scfg accept 1 1 {int(rng.random() < 0.7)} 0', 'scfg accept 1 1 1 0',
                 'scfg accept 1 1 1 0', 'pfmode refuse', 'pfmode refuse']
        body = [f'open 0 0 {rng.choice(["exec", "shell", "subsystem"])} {int(rng.random() < 0.7)} 0']
        for _ in range(5):
            body += SYNC
        if rng.random() < 0.5:
            body += ['wc c 0', 'wc s 0']
        if name.startswith('mutual-close'):
            first = rng.choice('cs')
            second = 's' if first == 'c' else 'c'
            if name == 'mutual-close-paused':
                body += ['op c 0 pause', 'op s 0 pause']
                body += ['op c 0 write'] * w + ['op s 0 write'] * w
                for _ in range(w + 1):
                    body += SYNC                     # each reader now sits on a full window of undelivered data
                k1, k2 = rng.randint(1, 3), rng.randint(1, 3)
            else:
                k1, k2 = w + rng.randint(1, 3), w + rng.randint(1, 3)
            if rng.random() < 0.4:
                body += [f'op {first} 0 limits {rng.choice([0, 1])} 0']
            body += [f'op {first} 0 write'] * k1
            if rng.random() < 0.4:
                body += [f'op {first} 0 drain']
            if rng.random() < 0.3:
                body += [f'op {first} 0 eof']
            body += [f'op {second} 0 write'] * k2
            fin2 = 'abort' if name == 'mutual-close-one-aborts' else rng.choice(['close', 'close', 'exit'])
            if fin2 == 'exit' and second == 'c':
                fin2 = 'close'
            order = [(first, 'close'), (second, fin2)]
            if rng.random() < 0.5:
                order.reverse()
            body += [f'op {sd} 0 {o}' for sd, o in order]
            for _ in range(3 * w + 10):
                body += SYNC
        else:
            x = rng.choice('cs')
            y = 's' if x == 'c' else 'c'
            hi = rng.choice([0, 1, 2])
            body += [f'op {x} 0 limits {hi} {rng.randint(0, hi)}', f'op {x} 0 pause', f'op {y} 0 pause']
            m = rng.randint(1, w)
            body += [f'op {y} 0 write'] * m
            for _ in range(m + 1):
                body += SYNC                         # x's reader holds m undelivered packets
            body += [f'op {x} 0 write'] * (w + hi + rng.randint(1, 3))      # window used up, buffer past the mark
            body += [f'op {x} 0 drain'] * rng.choice([1, 1, 2])
            for _ in range(w + 1):
                body += SYNC
            fin = ['close'] if name == 'drain-peer-close' else ['eof', 'close']
            if y == 's' and rng.random() < 0.3:
                fin = ['exit']
            body += [f'op {y} 0 {o}' for o in fin]
            for _ in range(3):
                body += SYNC
            body += [f'op {x} 0 drain'] if rng.random() < 0.3 else []
            body += [f'op {x} 0 ' + rng.choice(['resume', 'resume', 'close', 'abort'])]
            for _ in range(4):
                body += SYNC
        out.append((name, lines + body))
    return out


def epilogue() -> List[str]:
    """Drain fairly, observe; then lose the transport on both sides, resolve what the application owns, observe."""
    e: List[str] = []
    for _ in range(12):
        e += SYNC
    e += ['show']
    e += ['lose c 0', 'lose s 0', 'settle']
    e += ['grant 0 0', 'grant 1 0', 'grant 2 0', 'pfdeny 0', 'pfdeny 1', 'settle', 'show']
    return e


def cut_lines(kind: str) -> List[str]:
    if kind == 'cut':
        return ['lose c 0', 'lose s 0']
    if kind == 'reset':
        return ['lose s 1', 'lose c 1']
    if kind == 'disc-c':        # a DISCONNECT arrives at the client
        return ['cclose s', 'dl s2c', 'dl s2c', 'dl s2c', 'dl s2c', 'dl s2c', 'dl s2c', 'dl s2c', 'dl s2c']
    if kind == 'disc-s':
        return ['cclose c', 'dl c2s', 'dl c2s', 'dl c2s', 'dl c2s', 'dl c2s', 'dl c2s', 'dl c2s', 'dl c2s']
    if kind == 'abort-c':
        return ['cabort c']
    if kind == 'abort-s':
        return ['cabort s']
    if kind == 'lose-c':
        return ['lose c 0']
    if kind == 'lose-s':
        return ['lose s 1']
    raise ValueError(kind)


def boundaries(base: List[str]) -> List[int]:
    """Indices just after each `dl` line (every packet boundary of the script), plus just after the header."""
    hdr = 0
    for i, l in enumerate(base):
        if l.split()[0] in ('reset', 'scfg', 'pfmode'):
            hdr = i + 1
    return [hdr] + [i + 1 for i, l in enumerate(base) if l.startswith('dl ') and i + 1 > hdr]


def cut_variants(base: List[str], rng: Any, kinds_per_point: int = 1) -> List[Tuple[List[str], str, int]]:
    """(script, cut kind, boundary index) for every packet boundary of `base`."""
    out = []
    for b in boundaries(base):
        for kind in rng.sample(CUT_KINDS, kinds_per_point):
            ticks = rng.choice([[], [], ['tick'], ['tick', 'tick'], ['settle']])
            out.append((base[:b] + ticks + cut_lines(kind) + epilogue(), kind, b))
    return out
