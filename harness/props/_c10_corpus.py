"""Deterministic part of the C10 oracle: the limits, the channel-open parameters at their extremes and one crafted
input per root cause seen so far.  Runs inside a worker process (see _c10_pool._run_corpus_job), item by item, so
that an input which makes the code under test spin is reported instead of hanging the check."""

from __future__ import annotations

import base64
import importlib
import random
import struct
from typing import Any, Callable, Dict, List, Optional, Tuple

from asyncssh import asn1 as asn1mod
from asyncssh import packet as packetmod

import pair
from props import _c10_conn as C
from props import _c10_parsers as P
from props import _c10_sftp as S


def limit_cases() -> List[Tuple[str, str, bytes, str, str]]:
    """(name, role, stream, expected close reason fragment, signature if the limit is not enforced)"""
    conn = importlib.import_module('asyncssh.connection')
    ml, mll, mv = conn._MAX_BANNER_LINES, conn._MAX_BANNER_LINE_LEN, conn._MAX_VERSION_LINE_LEN
    return [
        ('banner-lines', 'client', b'hello\r\n' * (ml + 6) + b'SSH-2.0-late\r\n', 'Too many banner lines', 'c10:banner-lines-unbounded'),
        # lines of every shape count: empty ones (LF or CR LF only), blank ones, and a mixture
        ('banner-lines-empty', 'client', b'\n' * (ml + 6) + b'SSH-2.0-late\r\n', 'Too many banner lines', 'c10:banner-lines-unbounded'),
        ('banner-lines-crlf', 'client', b'\r\n' * (ml + 6) + b'SSH-2.0-late\r\n', 'Too many banner lines', 'c10:banner-lines-unbounded'),
        ('banner-lines-mixed', 'client', (b'\n \r\nx\n\r\r\n') * (ml // 4 + 6) + b'SSH-2.0-late\r\n', 'Too many banner lines',
         'c10:banner-lines-unbounded'),
        ('banner-line-length', 'client', b'z' * (3 * mll), 'Banner line too long', 'c10:banner-line-unbounded'),
        ('banner-line-length', 'server', b'z' * (3 * mll), 'Banner line too long', 'c10:banner-line-unbounded'),
        ('version-length', 'client', b'SSH-2.0-' + b'v' * (mv + 50) + b'\r\n', 'Version too long', 'c10:version-line-unbounded'),
        ('version-length', 'server', b'SSH-2.0-' + b'v' * (mv + 50) + b'\r\n', 'Version too long', 'c10:version-line-unbounded'),
        ('server-banner', 'server', b'hello\r\nSSH-2.0-x\r\n', 'Unsupported SSH version', 'c10:server-accepts-banner'),
    ]


async def run_limit_case(role: str, stream: bytes) -> Dict[str, Any]:
    case = await C.setup_clear(role, 'start')
    try:
        assert case.hub is not None
        case.arm_output_budget(len(stream))
        with C.Watch():
            for i in range(0, len(stream), 4096):
                if case.closed():
                    break
                case.hub.inject(case.to_target, stream[i:i + 4096])
                await C.quiesce(case, 60)
        reports = case.lost_reports()
        return {'closed': case.closed(), 'reason': str(getattr(reports[0], 'reason', reports[0])) if reports else '',
                'spin': case.spin}
    finally:
        C.teardown(case)
        await pair.settle(4)


def corpus_packets() -> List[Tuple[str, str, List[Tuple[int, bytes]], str]]:
    """deterministic inputs for every connection-level root cause seen so far (phase, role, packets, note)"""
    St, U = packetmod.String, packetmod.UInt32
    kex_ok = packetmod.NameList([b'curve25519-sha256'])
    names = packetmod.NameList
    cookie = bytes(16)
    rest9 = names([b'ssh-ed25519']) + names([b'aes128-ctr']) * 2 + names([b'hmac-sha2-256']) * 2 + names([b'none']) * 2 + \
        names([]) * 2 + b'\0' + U(0)
    return [
        ('pre-kex', 'server', [(20, cookie + kex_ok[:7])], 'KEXINIT truncated inside a name-list (async handler)'),
        ('pre-kex', 'client', [(20, cookie + kex_ok[:7])], 'KEXINIT truncated inside a name-list (async handler)'),
        ('pre-kex', 'server', [(20, cookie + names([b'\xff']) + rest9)], 'KEXINIT with a non-ASCII algorithm name and no match'),
        ('pre-kex', 'client', [(20, cookie + names([b'\xff']) + rest9)], 'KEXINIT with a non-ASCII algorithm name and no match'),
        ('pre-auth', 'server', [(50, St(b'user') + St(b'ssh-connection') + St(b'password'))],
         'USERAUTH_REQUEST password without its fields (decoded in a task)'),
        ('pre-auth', 'server', [(50, St(b'user') + St(b'ssh-connection') + St(b'publickey'))],
         'USERAUTH_REQUEST publickey without its fields (decoded in a task)'),
        ('post-auth', 'server', [(93, U(0) + U(0xffffffff))], 'WINDOW_ADJUST 2^32-1 on top of an open window'),
        ('post-auth', 'client', [(93, U(0) + U(0xffffffff))], 'WINDOW_ADJUST 2^32-1 on top of an open window'),
        ('post-auth', 'server', [(93, U(0) + U(0xffffffff))] * 3, 'three WINDOW_ADJUST 2^32-1'),
        ('post-auth', 'server', [(90, St(b'session') + U(0) + U(0xffffffff) + U(0xffffffff))], 'CHANNEL_OPEN at the maxima'),
        ('post-auth', 'server', [(90, St(b'session') + U(0xffffffff) + U(0) + U(1))], 'CHANNEL_OPEN window 0'),
        ('post-auth', 'server', [(94, U(0) + U(0xffffffff) + b'xx')], 'DATA whose length field exceeds the packet'),
        ('post-auth', 'client', [(94, U(0) + U(0xffffffff) + b'xx')], 'DATA whose length field exceeds the packet'),
        ('post-auth', 'server', [(80, St(b'tcpip-forward') + b'\x01' + St(b'\xff') + U(0xffffffff))], 'tcpip-forward extremes'),
        ('post-auth', 'server', [(98, U(0) + St(b'pty-req') + b'\x01' + St(b'xterm') + U(0xffffffff) * 4 + St(b'\x80\xff\xff\xff\xff'))],
         'pty-req with extreme sizes and modes'),
        ('post-auth', 'client', [(80, St(b'hostkeys-00@openssh.com') + b'\x00' + St(pair.host_key().public_data) * 2)],
         'host key rotation listing the trusted key twice (F56)'),
        ('post-auth', 'client', [(80, St(b'hostkeys-00@openssh.com') + b'\x00' + St(pair.host_key().public_data) + b'\x00\x00')],
         'host key rotation ending inside a string length'),
        ('post-auth', 'server', [(98, U(0) + St(b'auth-agent-req@openssh.com') + b'\x01')] +
         [(98, U(0) + St(b'env') + b'\x01' + St(b'A') + St(b'b'))] * 700,
         '700 channel requests queued behind one that is answered asynchronously (F60)'),
        ('post-auth', 'client', [(80, St(b'hostkeys-00@openssh.com') + b'\x00' + St(pair.host_key().public_data))] +
         [(80, St(b'no-such-request@x') + b'\x00')] * 700,
         '700 global requests queued behind the host key rotation request (F60)'),
        ('post-auth', 'client', [(80, St(b'hostkeys-00@openssh.com') + b'\x01' +
                                  St(St(b'ssh-ed25519') + St(bytes(32))) * 2)],
         'host key rotation with two unknown keys (prove request follows)'),
    ]


def corpus_streams() -> List[Tuple[str, str, bytes, str]]:
    return [
        ('pre-kex', 'server', struct.pack('>I', 12) + b'\x0b' + bytes(11), 'frame whose payload is empty'),
        ('pre-kex', 'client', struct.pack('>I', 12) + b'\x0b' + bytes(11), 'frame whose payload is empty'),
        ('in-kex', 'server', struct.pack('>I', 0) + bytes(12), 'packet length 0 (negative remainder, F12)'),
        ('pre-kex', 'server', struct.pack('>I', 0xffffffff) + bytes(64), 'packet length 2^32-1 (stall)'),
        ('pre-kex', 'server', C.frame(b'\x02' + packetmod.String(b'')) * 3000, '3000 minimal IGNORE packets in one chunk'),
        ('start', 'server', b'SSH-2.0-caf\xc3\xa9\r\n', 'identification line with non-ASCII software version (F59)'),
        ('start', 'client', b'SSH-2.0-caf\xc3\xa9\r\n', 'identification line with non-ASCII software version (F59)'),
        ('start', 'client', b'hello\xff\r\nSSH-2.0-\x80\r\n', 'non-ASCII banner line, then non-ASCII version'),
    ]


def corpus_sftp() -> List[Tuple[bytes, str]]:
    S_, u = S.S, S.u32
    init = lambda ext, data: S.sftp_frame(random.Random(1), b'')[:0] + u(len(b'\x01' + u(3) + S_(ext) + S_(data))) + \
        b'\x01' + u(3) + S_(ext) + S_(data)      # noqa: E731
    fr = lambda body: u(len(body)) + body        # noqa: E731

    def self_copy(roff: int, length: int, woff: int) -> bytes:
        h0 = u(0)
        return fr(b'\x01' + u(3)) + fr(b'\x03' + u(1) + S_(b'/f') + u(3) + u(0)) + \
            fr(b'\xc8' + u(2) + S_(b'copy-data') + S_(h0) + S.u64(roff) + S.u64(length) + S_(h0) + S.u64(woff))
    return [(init(b'supported', b'\x00'), 'INIT v3 with a truncated "supported" extension'),
            (init(b'vendor-id', b''), 'INIT v3 with an empty "vendor-id" extension'),
            (init(b'acl-supported', b'\x00' * 9), 'INIT v3 with an over-long "acl-supported" extension'),
            (self_copy(0, 0, 262144), 'copy-data of a file onto itself, to the end, written one block ahead (F57)'),
            (self_copy(0, 2 ** 63, 1 << 20), 'copy-data of a file onto itself, 2^63 bytes, written ahead (F57)'),
            (self_copy(0, 0, 100), 'copy-data of a file onto itself with overlapping blocks')]


def corpus_sftp_client() -> List[Tuple[List[Tuple[int, bytes]], List[str], str]]:
    """(scripted replies, client operations, note)"""
    S_, u = S.S, S.u32
    ok_version = (2, u(3))
    return [
        ([(2, u(3) + S_(b'supported') + S_(b'\x00'))], [], 'VERSION reply with a truncated "supported" extension'),
        ([ok_version, (104, u(0))], ['realpath'], 'NAME reply with zero names to REALPATH'),
        ([ok_version, (104, u(0))], ['readlink'], 'NAME reply with zero names to READLINK'),
        ([ok_version, (105, u(1))], ['stat'], 'ATTRS reply cut off after the flags'),
        ([ok_version, (101, u(0))], ['mkdir'], 'STATUS reply without message and language'),
        ([ok_version, (102, b'')], ['read'], 'HANDLE reply without a handle'),
        ([(2, u(3) + S_(b'limits@openssh.com') + S_(b'1')), (201, S.u64(1))], [],
         'truncated reply to the limits@openssh.com request made by start_sftp_client'),
        ([(2, u(3) + S_(b'statvfs@openssh.com') + S_(b'2')), (201, S.u64(1))], ['statvfs'],
         'truncated reply to statvfs@openssh.com'),
    ]


def corpus_parsers() -> List[Tuple[str, bytes, str]]:
    """(target, input, note): crafted inputs for every parser root cause seen so far"""
    art = P.artefacts()
    deep = P.nested_der(700, 'seq')
    pem = lambda name, body: b'-----BEGIN ' + name + b'-----\n' + base64.encodebytes(body) + b'-----END ' + name + b'-----\n'   # noqa: E731
    bad_utf8 = b'\x30\x03\x0c\x01\xff'
    bad_bits = b'\x30\x04\x03\x02\x07\xff'
    big_oid = P.der_tlv(b'\x30', P.der_tlv(b'\x06', b'\x2b' + b'\xff' * 2100 + b'\x7f'))
    out: List[Tuple[str, bytes, str]] = [
        ('der_decode', deep, '700 nested SEQUENCEs'),
        ('der_decode', bad_utf8, 'UTF8String with an invalid byte'),
        ('der_decode', bad_bits, 'BIT STRING whose unused bits are set'),
        ('der_decode', big_oid, 'OBJECT IDENTIFIER component above the int->str limit'),
    ]
    for tgt, name in (('import_private_key', b'PRIVATE KEY'), ('import_public_key', b'PUBLIC KEY'),
                      ('import_certificate', b'CERTIFICATE')):
        out += [(tgt, deep, 'DER: 700 nested SEQUENCEs'), (tgt, pem(name, deep), 'PEM: 700 nested SEQUENCEs'),
                (tgt, bad_utf8, 'DER: invalid UTF8String'), (tgt, pem(name, bad_utf8), 'PEM: invalid UTF8String'),
                (tgt, bad_bits, 'DER: BIT STRING with unused bits set'), (tgt, pem(name, bad_bits), 'PEM: bad BIT STRING'),
                (tgt, big_oid, 'DER: OID component above the int->str limit'),
                (tgt, b'-----BEGIN ( ' + name + b'-----\nAAAA\n-----END ( ' + name + b'-----\n', 'regex metacharacter in the PEM header'),
                (tgt, b'-----BEGIN \\E ' + name + b'-----\nAAAA\n-----END \\E ' + name + b'-----\n', 'backslash in the PEM header')]
    out.append(('import_certificate', b'\x30\x02\x05\x00', 'well-formed DER that is not a certificate (no X.509 backend)'))
    out.append(('import_certificate', pem(b'CERTIFICATE', b'\x30\x02\x05\x00'), 'PEM certificate (no X.509 backend)'))
    out.append(('import_authorized_keys', b'U0\x00\n', 'authorized_keys line that is a DER SEQUENCE (no X.509 backend)'))
    out.append(('import_known_hosts', b'Uhost1.example.com 0\x00\n', 'known_hosts key field that is a DER SEQUENCE (no X.509 backend)'))
    rsa = [k for k in art['keys'] if k.get_algorithm() == 'ssh-rsa']
    if rsa:
        pub = asn1mod.der_decode(rsa[0].export_public_key('pkcs1-der'))
        n, e = pub
        out.append(('import_public_key', asn1mod.der_encode((n, 4)), 'PKCS#1 RSA public key with an even exponent'))
        out.append(('import_public_key', asn1mod.der_encode((-n, e)), 'PKCS#1 RSA public key with a negative modulus'))
        out.append(('import_public_key', pem(b'RSA PUBLIC KEY', asn1mod.der_encode((n, 4))), 'PEM RSA public key, even exponent'))
        priv = list(asn1mod.der_decode(rsa[0].export_private_key('pkcs1-der')))
        priv[5] = priv[5] + 2
        out.append(('import_private_key', asn1mod.der_encode(tuple(priv)), 'PKCS#1 RSA private key with p*q != n'))
        out.append(('import_private_key', pem(b'RSA PRIVATE KEY', asn1mod.der_encode(tuple(priv))), 'PEM RSA private key, p*q != n'))
        neg = list(asn1mod.der_decode(rsa[0].export_private_key('pkcs1-der')))
        neg[3] = -neg[3]
        out.append(('import_private_key', asn1mod.der_encode(tuple(neg)), 'PKCS#1 RSA private key with a negative exponent'))

        def negate_iterations(v: Any) -> Any:
            if isinstance(v, tuple):
                return tuple(negate_iterations(x) for x in v)
            if isinstance(v, int) and not isinstance(v, bool) and v >= 1000:
                return -v
            return v
        enc = rsa[0].export_private_key('pkcs8-der', passphrase='pw')
        out.append(('import_private_key:passphrase', asn1mod.der_encode(negate_iterations(asn1mod.der_decode(enc))),
                    'encrypted PKCS#8 whose PBKDF2 iteration count is negative'))
    ec = [k for k in art['keys'] if k.get_algorithm() == 'ecdsa-sha2-nistp256']
    if ec:
        spki = ec[0].export_public_key('pkcs8-der')
        out.append(('import_public_key', spki[:-3] + b'\xff\xff\xff', 'SPKI EC key whose point is not on the curve'))
    return out


def corpus_items() -> List[Tuple[str, Callable[[], List[Tuple[str, str, Dict[str, Any]]]]]]:
    """[(histogram key prefix, thunk -> [(signature, what, replay)])], one entry per corpus input"""
    items: List[Tuple[str, Callable[[], List[Tuple[str, str, Dict[str, Any]]]]]] = []

    def limit_thunk(lc: Tuple[str, str, bytes, str, str]) -> Callable[[], List[Tuple[str, str, Dict[str, Any]]]]:
        def run() -> List[Tuple[str, str, Dict[str, Any]]]:
            name, role, stream, frag, sig = lc
            o = pair.run(run_limit_case(role, stream), timeout=120)
            if not o['closed'] or frag not in o['reason']:
                return [(sig, f'{role} fed {len(stream)} bytes ({name}): expected a close with "{frag}", got '
                              f'closed={o["closed"]} reason={o["reason"][:60]!r}',
                         {'kind': 'limit', 'role': role, 'data': stream[:64].hex(), 'data_len': len(stream), 'name': name})]
            return []
        return run
    for lc in limit_cases():
        items.append((f'limit:{lc[0]}:{lc[1]}', limit_thunk(lc)))

    def window_thunk(role: str, w: int, p: int, dropbear: bool = False) -> Callable[[], List[Tuple[str, str, Dict[str, Any]]]]:
        def run() -> List[Tuple[str, str, Dict[str, Any]]]:
            o = pair.run(C.window_case(role, w, p, dropbear=dropbear), timeout=120)
            out = []
            for sig, what in C.failures_of(o):
                if sig.startswith('c10:spins') and p == 0:
                    sig = f'c10:spins:zero-max-packet-size:{role}-send-loop'
                out.append((sig, what, {'kind': 'channel-open-params', 'role': role, 'window': w, 'max_pktsize': p,
                                        'dropbear': dropbear}))
            return out
        return run
    for role in C.ROLES:
        for w in C.EXTREMES:
            for p in C.EXTREMES:
                items.append((f'channel-open:{role}:pktsize={p}:window={"0" if w == 0 else "+"}', window_thunk(role, w, p)))
        # the dropbear work-around subtracts one from the advertised maximum packet size: 0 -> -1, 1 -> 0
        for p in (0, 1, 2):
            items.append((f'channel-open:{role}:dropbear:pktsize={p}', window_thunk(role, 2097152, p, dropbear=True)))

    def conn_thunk(coro_fn: Callable[[], Any], note: str, rep: Dict[str, Any]) -> Callable[[], List[Tuple[str, str, Dict[str, Any]]]]:
        def run() -> List[Tuple[str, str, Dict[str, Any]]]:
            o = pair.run(coro_fn(), timeout=120)
            return [(sig, f'{note}: {what}', rep) for sig, what in C.failures_of(o)]
        return run
    for ph, role, pkts, note in corpus_packets():
        items.append((f'corpus:packet:{ph}:{role}', conn_thunk(
            lambda ph=ph, role=role, pkts=pkts: C.packet_case(ph, role, 'corpus', explicit=pkts), note,
            {'kind': 'packet', 'phase': ph, 'role': role, 'packets': [(t, p.hex()) for t, p in pkts]})))
    for ph, role, data, note in corpus_streams():
        items.append((f'corpus:stream:{ph}:{role}', conn_thunk(
            lambda ph=ph, role=role, data=data: C.stream_case(ph, role, 'corpus', explicit=(data, [])), note,
            {'kind': 'stream', 'phase': ph, 'role': role, 'data': data[:4096].hex(), 'data_len': len(data), 'cuts': []})))
    for script, note in corpus_sftp():
        items.append(('corpus:sftp-server', conn_thunk(
            lambda script=script: S.sftp_server_case('corpus', explicit=script), note,
            {'kind': 'sftp-server', 'data': script.hex()})))
    for i, (script2, ops, note) in enumerate(corpus_sftp_client()):
        items.append(('corpus:sftp-client', conn_thunk(
            lambda script2=script2, ops=ops: S.sftp_client_case('corpus', script=script2, ops_fixed=ops), note,
            {'kind': 'sftp-client-script', 'index': i})))

    def parser_thunk(tgt: str, data: bytes, note: str) -> Callable[[], List[Tuple[str, str, Dict[str, Any]]]]:
        def run() -> List[Tuple[str, str, Dict[str, Any]]]:
            _key, sig, detail = P.run_case(tgt, data)
            if sig:
                return [(sig, f'{note}: {detail}', {'kind': 'parser', 'target': tgt, 'input': data[:6000].hex(),
                                                    'input_len': len(data), 'note': note})]
            return []
        return run
    for tgt, data, note in corpus_parsers():
        items.append((f'corpus:{tgt}', parser_thunk(tgt, data, note)))
    return items
