"""C09 — real-code side of the life-cycle correspondence.

A script is a list of text lines (the same lines the Lean driver Drivers/C09.lean reads).  `RealSys` executes
them against a real asyncssh client/server pair joined by `pair.make_pair` with manual scheduling:
packets move only on `dl <dir>` lines, the event loop advances only on `tick` / `settle` lines, the transport
is lost only on `lose` lines.  Every line yields one result string in the driver's output format.
"""

from __future__ import annotations

import asyncio
import struct
from typing import Any, Dict, List, Optional, Tuple

import asyncssh
from asyncssh import connection as connmod
from asyncssh.stream import SSHStreamSession

import pair

OPEN_CODE = {2: '2', 0xfffffffe: '3', 0xffffffff: '4'}


def exc_name(e: Optional[BaseException]) -> str:
    if e is None:
        return 'None'
    if isinstance(e, asyncssh.ChannelOpenError):
        return 'ChannelOpenError:' + OPEN_CODE.get(e.code, str(e.code))
    if isinstance(e, asyncssh.ChannelListenError):
        return 'ChannelListenError'
    if isinstance(e, asyncssh.ConnectionLost):
        return 'ConnectionLost'
    if isinstance(e, asyncssh.ProtocolError):
        return 'ProtocolError'
    if isinstance(e, asyncssh.DisconnectError):
        return type(e).__name__
    if isinstance(e, OSError):
        return 'OSError'
    return type(e).__name__


class SendTags:
    """Class-level wrapper of SSHConnection.send_packet that exposes the packet being written to the hub."""

    def __init__(self) -> None:
        self.stack: List[Tuple[int, bytes]] = []

    def __enter__(self) -> 'SendTags':
        self._orig = connmod.SSHConnection.send_packet
        tags = self

        def send_packet(conn: Any, pkttype: int, *args: bytes, **kw: Any) -> None:
            tags.stack.append((pkttype, b''.join(args)))
            try:
                return tags._orig(conn, pkttype, *args, **kw)
            finally:
                tags.stack.pop()
        connmod.SSHConnection.send_packet = send_packet      # type: ignore
        return self

    def __exit__(self, *a: Any) -> None:
        connmod.SSHConnection.send_packet = self._orig       # type: ignore


def _u32(b: bytes, off: int) -> int:
    return struct.unpack('>I', b[off:off + 4])[0]


def _str(b: bytes, off: int) -> Tuple[bytes, int]:
    n = _u32(b, off)
    return b[off + 4:off + 4 + n], off + 4 + n


def describe(pkttype: int, p: bytes) -> Optional[str]:
    """Descriptor of a packet in the Lean driver's notation; None for IGNORE."""
    try:
        if pkttype == 2:
            return None
        if pkttype == 90:
            _t, o = _str(p, 0)
            return f'open {_u32(p, o)} {_u32(p, o + 4)}'
        if pkttype == 91:
            return f'conf {_u32(p, 0)} {_u32(p, 4)} {_u32(p, 8)}'
        if pkttype == 92:
            return f'fail {_u32(p, 0)}'
        if pkttype == 93:
            return f'adj {_u32(p, 0)} {_u32(p, 4)}'
        if pkttype == 94:
            return f'data {_u32(p, 0)}'
        if pkttype == 96:
            return f'eof {_u32(p, 0)}'
        if pkttype == 97:
            return f'close {_u32(p, 0)}'
        if pkttype == 98:
            name, o = _str(p, 4)
            return f'req {_u32(p, 0)} {name.decode()} {p[o]}'
        if pkttype == 99:
            return f'succ {_u32(p, 0)}'
        if pkttype == 100:
            return f'failr {_u32(p, 0)}'
        if pkttype == 80:
            return 'greq'
        if pkttype == 81:
            return 'gsucc'
        if pkttype == 82:
            return 'gfail'
        if pkttype == 1:
            code = _u32(p, 0)
            return 'disc ' + {11: 'None', 2: 'ProtocolError'}.get(code, f'code{code}')
    except Exception:
        pass
    return f'pkt{pkttype}'


class Sess:
    """Logging session object (client or server side)."""

    def __init__(self, name: str, eof_ret: bool = True, armed: bool = False, pty_ok: bool = True,
                 req_ok: bool = True) -> None:
        self.name = name
        self.log: List[str] = []
        self.chan: Any = None
        self.eof_ret, self.armed, self.pty_ok, self.req_ok = eof_ret, armed, pty_ok, req_ok
        self.wc: List[Any] = []
        self.dr: List[Any] = []
        # the writer side of asyncssh's own stream session, fed with the flow-control callbacks only: its real
        # `drain()` is what the `drain` op of the scripts waits in
        self.stream: Any = SSHStreamSession()

    # common
    def connection_made(self, chan: Any) -> None:
        self.chan = chan
        self.stream.connection_made(chan)
        self.log.append('made')

    def connection_lost(self, exc: Optional[Exception]) -> None:
        self.log.append('lost:' + exc_name(exc))
        self.stream.connection_lost(exc)

    def session_started(self) -> None:
        self.log.append('started')

    def data_received(self, data: Any, datatype: Any) -> None:
        self.log.append('data')

    def eof_received(self) -> bool:
        self.log.append('eof')
        return self.eof_ret

    def pause_writing(self) -> None:
        self.log.append('pause_writing')
        self.stream.pause_writing()

    def resume_writing(self) -> None:
        self.log.append('resume_writing')
        self.stream.resume_writing()


class CSess(Sess, asyncssh.SSHClientSession):
    def exit_status_received(self, status: int) -> None:
        self.log.append('exit')
        if self.armed:
            raise ValueError('application bug in exit_status_received')

    def exit_signal_received(self, *a: Any) -> None:
        self.log.append('exit_signal')

    def xon_xoff_requested(self, c: bool) -> None:
        self.log.append('xon_xoff')


class SSess(Sess, asyncssh.SSHServerSession):
    def pty_requested(self, *a: Any) -> bool:
        self.log.append('pty')
        return self.pty_ok

    def _req(self, kind: str) -> bool:
        self.log.append('req:' + kind)
        if self.armed:
            raise ValueError('application bug in a request callback')
        return self.req_ok

    def shell_requested(self) -> bool:
        return self._req('shell')

    def exec_requested(self, command: str) -> bool:
        return self._req('exec')

    def subsystem_requested(self, subsystem: str) -> bool:
        return self._req('subsystem')

    def break_received(self, msec: int) -> bool:
        self.log.append('break')
        return True

    def signal_received(self, signal: str) -> None:
        self.log.append('signal')

    def terminal_size_changed(self, *a: Any) -> None:
        self.log.append('winch')


class RealSys:
    """One real client/server pair under manual scheduling."""

    def __init__(self, tags: SendTags) -> None:
        self.tags = tags
        self.loop = asyncio.get_event_loop()
        self.owner_log: Dict[str, List[str]] = {'c': [], 's': []}
        self.scfg: List[Dict[str, Any]] = []
        self.pfmodes: List[str] = []
        self.csess: List[CSess] = []
        self.ctasks: List[Any] = []
        self.ssess: List[Optional[SSess]] = []
        self.sfut: List[Optional[asyncio.Future]] = []
        self.pffut: List[Optional[asyncio.Future]] = []
        self.greqs: List[Any] = []
        self.cwc: Dict[str, List[Any]] = {'c': [], 's': []}
        self.pending: Dict[str, List[Tuple[Optional[str], int]]] = {pair.C2S: [], pair.S2C: []}
        self.lost: Dict[str, bool] = {'c': False, 's': False}
        self.conn: Dict[str, Any] = {}
        self.hub: Any = None
        self.connect_task: Any = None
        self.tasks_before: set = set()
        self.settle_rounds: List[int] = []
        self.extra_log: List[str] = []
        # what has been seen on the wire, per channel (for the judgment of closed channels while the connection is up)
        self.copen: Dict[int, int] = {}                  # id(create_session task) -> client channel number of its OPEN
        self.sopen: List[Optional[int]] = []             # per server session: client channel number of the OPEN asking for it
        self.cur_open: Optional[int] = None              # the OPEN being delivered to the server right now
        self.down: Dict[str, bool] = {'c': False, 's': False}       # the side is closing / has been told to close
        self.pairmap: Dict[int, int] = {}                # client channel number -> server channel number (from CONF)
        self.closein: Dict[str, set] = {'c': set(), 's': set()}     # local numbers whose CLOSE has been delivered
        self.closeout: Dict[str, set] = {'c': set(), 's': set()}    # peer numbers for which a CLOSE has been written
        self.datain: Dict[str, Dict[int, int]] = {'c': {}, 's': {}}  # DATA packets delivered per local number
        self.apppaused: Dict[Tuple[str, int], bool] = {}
        self.appclosed: Dict[Tuple[str, int], bool] = {}           # the application called close() / abort() / exit()
        self.cur_line = 0
        self.mid: List[Tuple[int, str, str]] = []        # (script line, signature, detail) of closed-channel violations
        self.mid_seen: set = set()
        self.judged: Dict[str, int] = {}

    # ---- construction ---------------------------------------------------------------------------------
    def _factories(self) -> Tuple[Any, Any]:
        me = self

        class Srv(asyncssh.SSHServer):
            def connection_made(self, conn: Any) -> None:
                me.owner_log['s'].append('made')

            def connection_lost(self, exc: Optional[Exception]) -> None:
                me.owner_log['s'].append('lost:' + exc_name(exc))

            def begin_auth(self, username: str) -> bool:
                return False

            def session_requested(self) -> Any:
                me.owner_log['s'].append('session_requested')
                j = len(me.ssess)
                me.sopen.append(me.cur_open)
                cfg = me.scfg[j] if j < len(me.scfg) else dict(mode='accept', pty=True, req=True, eof=True, armed=False)
                if cfg['mode'] == 'refuse':
                    me.ssess.append(None)
                    me.sfut.append(None)
                    return False
                sess = SSess(f's{j}', cfg['eof'], cfg['armed'], cfg['pty'], cfg['req'])
                me.ssess.append(sess)
                if cfg['mode'] == 'later':
                    fut = me.loop.create_future()
                    me.sfut.append(fut)
                    return fut
                me.sfut.append(None)
                return sess

            def server_requested(self, listen_host: str, listen_port: int) -> Any:
                me.owner_log['s'].append('server_requested')
                j = len(me.pffut)
                mode = me.pfmodes[j] if j < len(me.pfmodes) else 'refuse'
                if mode == 'later':
                    fut = me.loop.create_future()
                    me.pffut.append(fut)
                    return fut
                me.pffut.append(None)
                return False

        class Cli(asyncssh.SSHClient):
            def connection_made(self, conn: Any) -> None:
                me.owner_log['c'].append('made')

            def connection_lost(self, exc: Optional[Exception]) -> None:
                me.owner_log['c'].append('lost:' + exc_name(exc))

        return Srv, Cli

    def _install_hub(self, hub: Any) -> None:
        self.hub = hub
        me = self

        def flt(direction: str, data: bytes) -> bytes:
            if hub.auto:
                return data
            if me.tags.stack:
                pkttype, payload = me.tags.stack[-1]
                desc = describe(pkttype, payload)
            else:
                desc = 'raw'
            me.pending[direction].append((desc, len(data)))
            me._note_written(direction, desc)
            return data
        hub.filter = flt
        hub._finish_closes = lambda: None        # closes propagate only on `lose` lines

    async def start(self, window: int) -> None:
        self.window = window
        self.tasks_before = set(asyncio.all_tasks())
        Srv, Cli = self._factories()
        c, s, hub = await pair.make_pair(server_factory=Srv, server_opts=dict(window=window, encoding=None),
                                         client_opts=dict(client_factory=Cli))
        await pair.settle(10)
        self.conn = {'c': c, 's': s}
        self._install_hub(hub)
        hub.auto = False

    # ---- wire bookkeeping ----------------------------------------------------------------------------
    def _note_written(self, direction: str, desc: Optional[str]) -> None:
        ws = (desc or '').split()
        if not ws:
            return
        side = 'c' if direction == pair.C2S else 's'
        try:
            if ws[0] == 'open' and side == 'c':
                t = asyncio.current_task()
                if t is not None:
                    self.copen.setdefault(id(t), int(ws[1]))
            elif ws[0] == 'conf' and side == 's':
                self.pairmap[int(ws[1])] = int(ws[2])
            elif ws[0] == 'close':
                self.closeout[side].add(int(ws[1]))
        except (ValueError, IndexError):
            pass

    def _note_delivered(self, rside: str, desc: str) -> None:
        ws = desc.split()
        try:
            if ws[0] == 'close':
                self.closein[rside].add(int(ws[1]))
            elif ws[0] == 'data':
                d = self.datain[rside]
                d[int(ws[1])] = d.get(int(ws[1]), 0) + 1
            elif ws[0] == 'disc':
                self.down[rside] = True
        except (ValueError, IndexError):
            pass

    def _numbers(self, side: str, i: int) -> Tuple[Optional[int], Optional[int]]:
        """(local channel number, peer's channel number) of the i-th session of a side, as far as the wire told."""
        if side == 'c':
            cn = self.copen.get(id(self.ctasks[i])) if i < len(self.ctasks) else None
            if cn is None:
                return None, None
            return cn, self.pairmap.get(cn)
        cn = self.sopen[i] if i < len(self.sopen) else None
        if cn is None:
            return None, None
        return self.pairmap.get(cn), cn

    def judge_closed(self) -> None:
        """The property for ONE channel while the connection stays up: once the peer's CLOSE has reached an endpoint
        and the event loop has drained, that endpoint has answered with its own CLOSE, `create_session` and
        `wait_closed` on the channel are resolved, the session got its final `connection_lost` and the channel is
        gone from the connection's table -- whatever phase (start-up included) the channel was in.  Only a reader
        the APPLICATION paused while data is still buffered may keep the channel (it must resume first)."""
        if len(self.loop._ready) > 0:                       # type: ignore[attr-defined]
            return
        for side in 'cs':
            conn = self.conn.get(side)
            if conn is None or self.lost[side] or self.down[side] or conn.is_closed():
                continue
            lst: List[Any] = self.csess if side == 'c' else self.ssess
            for i, sess in enumerate(lst):
                if sess is None:
                    continue
                loc, peer = self._numbers(side, i)
                if loc is None or loc not in self.closein[side]:
                    continue
                role = 'client' if side == 'c' else 'server'
                phase = 'running' if 'started' in sess.log else 'startup'
                key = f'{role}:{phase}'
                sym: List[str] = []
                if side == 'c' and i < len(self.ctasks) and not self.ctasks[i].done():
                    sym.append('create_session-pending')
                if 'made' in sess.log and not any(x.startswith('lost') for x in sess.log):
                    sym.append('connection_lost-missing')
                if any(not t.done() for t in sess.wc):
                    sym.append('wait_closed-pending')
                if loc in conn._channels:
                    sym.append('still-registered')
                if peer is not None and peer not in self.closeout[side]:
                    sym.append('close-not-returned')
                undelivered = self.datain[side].get(loc, 0) - sess.log.count('data')
                if (side, i, 'j') not in self.mid_seen:
                    self.mid_seen.add((side, i, 'j'))
                    self.judged[key] = self.judged.get(key, 0) + 1
                # a writer blocked in drain(): the peer's CLOSE ends sending for good (the unsent data is discarded), so
                # it must be released NOW -- also when the channel's clean-up legitimately waits for a paused reader
                if any(not t.done() for t in sess.dr) and (side, i, 'd') not in self.mid_seen:
                    self.mid_seen.add((side, i, 'd'))
                    self.mid.append((self.cur_line, f'drain-never-completes:peer-closed:{role}',
                                     f'{side}{i} (channel {loc}): the peer\'s CLOSE was delivered (nothing can be sent any '
                                     f'more, the unsent data was discarded), the connection is up and the event loop has '
                                     f'drained, yet drain() is still pending; session log {self._join(sess.log)}; '
                                     f'{max(0, undelivered)} DATA packet(s) received but not handed to the session; '
                                     f'reading paused by the application: {bool(self.apppaused.get((side, i)))}'))
                if not sym:
                    continue
                if self.apppaused.get((side, i)) and undelivered > 0:
                    if (side, i, 'e') not in self.mid_seen:
                        self.mid_seen.add((side, i, 'e'))
                        self.judged['exempt:application-paused-reader'] = \
                            self.judged.get('exempt:application-paused-reader', 0) + 1
                    continue
                if (side, i) in self.mid_seen:
                    continue
                self.mid_seen.add((side, i))
                sig = f'closed-channel-never-cleaned-up:{role}:{phase}:' + \
                      ('undelivered-data:' if undelivered > 0 else '') + sym[0]
                self.mid.append((self.cur_line, sig,
                                 f'{side}{i} (channel {loc}): the peer\'s CLOSE was delivered, the connection is up and the '
                                 f'event loop has drained, yet: {", ".join(sym)}; session log {self._join(sess.log)}; '
                                 f'{max(0, undelivered)} DATA packet(s) received but not handed to the session; '
                                 f'reading paused by the application: {bool(self.apppaused.get((side, i)))}'))

    def judge_both_closed(self) -> None:
        """The property for a channel BOTH applications have given up: once each side has called close() / abort()
        (exit() on the server), nothing is in flight and the event loops have drained, the CLOSE of each side has
        reached the other and both channel objects are cleaned up -- whatever was still waiting to be sent or
        delivered on either side (close() gives that data up)."""
        if len(self.loop._ready) > 0:                       # type: ignore[attr-defined]
            return
        if any(d is not None for q in self.pending.values() for d, _n in q):
            return
        for side in 'cs':
            conn = self.conn.get(side)
            if conn is None or self.lost[side] or self.down[side] or conn.is_closed():
                return
        for i, csess in enumerate(self.csess):
            if not self.appclosed.get(('c', i)) or csess.chan is None:
                continue
            cn, _sn = self._numbers('c', i)
            if cn is None or cn not in self.pairmap:
                continue
            js = [j for j, o in enumerate(self.sopen) if o == cn and j < len(self.ssess) and self.ssess[j] is not None]
            if not js or not self.appclosed.get(('s', js[0])) or self.ssess[js[0]].chan is None:
                continue
            if ('b', i) not in self.mid_seen:
                self.mid_seen.add(('b', i))
                self.judged['both-closed'] = self.judged.get('both-closed', 0) + 1
            for side, k, sess in (('c', i, csess), ('s', js[0], self.ssess[js[0]])):
                role = 'client' if side == 'c' else 'server'
                conn = self.conn[side]
                loc, peer = self._numbers(side, k)
                sym: List[str] = []
                if peer is not None and peer not in self.closeout[side]:
                    sym.append('close-never-sent')
                if side == 'c' and k < len(self.ctasks) and not self.ctasks[k].done():
                    sym.append('create_session-pending')
                if 'made' in sess.log and not any(x.startswith('lost') for x in sess.log):
                    sym.append('connection_lost-missing')
                if any(not t.done() for t in sess.wc):
                    sym.append('wait_closed-pending')
                if any(not t.done() for t in sess.dr):
                    sym.append('drain-pending')
                if loc is not None and loc in conn._channels:
                    sym.append('still-registered')
                if not sym or ('b', side, k) in self.mid_seen:
                    continue
                self.mid_seen.add(('b', side, k))
                self.mid.append((self.cur_line, f'both-closed-channel-never-cleaned-up:{role}:{sym[0]}',
                                 f'{side}{k} (channel {loc}): both applications have called close()/abort() on this '
                                 f'channel, nothing is in flight, the connection is up and the event loops have drained, '
                                 f'yet: {", ".join(sym)}; session log {self._join(sess.log)}'))

    # ---- script execution -----------------------------------------------------------------------------
    def _sess(self, side: str, i: int) -> Optional[Sess]:
        lst: List[Any] = self.csess if side == 'c' else self.ssess
        if i >= len(lst) or lst[i] is None or lst[i].chan is None:
            return None
        return lst[i]

    def _receiver_side(self, direction: str) -> str:
        return 's' if direction == pair.C2S else 'c'

    async def line(self, ws: List[str]) -> str:
        cmd = ws[0]
        if cmd == 'scfg':
            self.scfg.append(dict(mode=ws[1], pty=ws[2] == '1', req=ws[3] == '1', eof=ws[4] == '1', armed=ws[5] == '1'))
            return 'ok'
        if cmd == 'pfmode':
            self.pfmodes.append(ws[1])
            return 'ok'
        if cmd == 'open':
            nenv, pty, kind, eofr, armed = int(ws[1]), ws[2] == '1', ws[3], ws[4] == '1', ws[5] == '1'
            sess = CSess(f'c{len(self.csess)}', eofr, armed)
            self.csess.append(sess)
            kw: Dict[str, Any] = dict(encoding=None, window=self.window)
            if nenv:
                kw['env'] = {f'K{n}': 'v' for n in range(nenv)}
            if pty:
                kw['request_pty'] = 'force'
                kw['term_type'] = 'xterm'
            if kind == 'exec':
                kw['command'] = 'x'
            elif kind == 'subsystem':
                kw['subsystem'] = 'sub'
            self.ctasks.append(asyncio.ensure_future(self.conn['c'].create_session(lambda: sess, **kw)))
            return 'ok'
        if cmd == 'op':
            side, i, o = ws[1], int(ws[2]), ws[3]
            sess = self._sess(side, i)
            if sess is None:
                return 'nochan'
            ch = sess.chan
            try:
                if o == 'write':
                    ch.write(b'x')
                elif o == 'eof':
                    ch.write_eof()
                elif o == 'close':
                    ch.close()
                elif o == 'abort':
                    ch.abort()
                elif o == 'pause':
                    ch.pause_reading()
                elif o == 'resume':
                    ch.resume_reading()
                elif o == 'exit':
                    if side == 's':
                        ch.exit(0)
                elif o == 'limits':
                    ch.set_write_buffer_limits(high=int(ws[4]), low=int(ws[5]))
                elif o == 'drain':
                    # started at once (as the model counts it): blocked iff writing is paused right now
                    sess.dr.append(asyncio.Task(self._drain(sess), loop=self.loop, eager_start=True))
                else:
                    return 'bad-op'
            except Exception as e:
                return 'raised:' + exc_name(e)
            if o in ('close', 'abort') or (o == 'exit' and side == 's'):
                self.appclosed[(side, i)] = True
            if o == 'pause':
                self.apppaused[(side, i)] = True
            elif o in ('resume', 'close', 'abort'):
                # close() and abort() discard what was received and not delivered: the application has given up the
                # data, the excuse "it paused reading and has not resumed" ends here
                self.apppaused[(side, i)] = False
            return 'ok'
        if cmd == 'wc':
            sess = self._sess(ws[1], int(ws[2]))
            if sess is None:
                return 'nochan'
            sess.wc.append(asyncio.ensure_future(sess.chan.wait_closed()))
            return 'ok'
        if cmd == 'cwc':
            self.cwc[ws[1]].append(asyncio.ensure_future(self.conn[ws[1]].wait_closed()))
            return 'ok'
        if cmd == 'greq':
            i = len(self.greqs)
            self.greqs.append(asyncio.ensure_future(
                self.conn['c'].create_server(lambda h, p: None, 'lh', 8000 + i)))
            return 'ok'
        if cmd == 'grant':
            j, g = int(ws[1]), ws[2] == '1'
            if j >= len(self.sfut) or self.sfut[j] is None or self.sfut[j].done():
                return 'nochan'
            if g:
                self.sfut[j].set_result(self.ssess[j])
            else:
                self.sfut[j].set_exception(asyncssh.ChannelOpenError(2, 'refused later'))
            return 'ok'
        if cmd == 'pfdeny':
            j = int(ws[1])
            if j >= len(self.pffut) or self.pffut[j] is None or self.pffut[j].done():
                return 'nochan'
            self.pffut[j].set_result(False)
            return 'ok'
        if cmd == 'cclose':
            self.down[ws[1]] = True
            self.conn[ws[1]].close()
            return 'ok'
        if cmd == 'cabort':
            self.down[ws[1]] = True
            self.conn[ws[1]].abort()
            return 'ok'
        if cmd == 'dl':
            d = ws[1]
            rside = self._receiver_side(d)
            q = self.pending[d]
            if self.lost[rside]:
                q.clear()
                self.hub.queues[d].clear()
            n = 0
            desc = None
            while q:
                dsc, nb = q.pop(0)
                n += nb
                if dsc is not None:
                    desc = dsc
                    break
            if desc is None:
                return 'empty'
            self.cur_open = int(desc.split()[1]) if desc.startswith('open ') and rside == 's' else None
            self.hub.deliver(d, n)
            self.cur_open = None
            self._note_delivered(rside, desc)
            return desc
        if cmd == 'tick':
            await asyncio.sleep(0)
            return 'ok'
        if cmd == 'settle':
            n = 0
            while len(self.loop._ready) > 0 and n < 64:      # type: ignore[attr-defined]
                await asyncio.sleep(0)
                n += 1
            self.settle_rounds.append(n)
            self.judge_closed()
            self.judge_both_closed()
            return f'{n} ' + ('quiet' if len(self.loop._ready) == 0 else 'busy')   # type: ignore[attr-defined]
        if cmd == 'lose':
            side, reset = ws[1], ws[2] == '1'
            t = self.hub.trans['client' if side == 'c' else 'server']
            d = pair.S2C if side == 'c' else pair.C2S
            self.pending[d].clear()
            self.hub.queues[d].clear()
            self.lost[side] = True
            self.hub._lose(t, ConnectionResetError('reset by harness') if reset else None)
            return 'ok'
        if cmd == 'show':
            self.judge_closed()
            self.judge_both_closed()
            return self.show()
        return 'bad-op'

    @staticmethod
    async def _drain(sess: Sess) -> None:
        try:
            await sess.stream.drain(None)
        except (BrokenPipeError, asyncssh.Error, OSError, ValueError, AttributeError, AssertionError):
            pass                # released with an error is released

    # ---- observation ----------------------------------------------------------------------------------
    @staticmethod
    def _join(l: List[str], sep: str = ',') -> str:
        return sep.join(l) if l else '-'

    @staticmethod
    def _outcome(t: Any) -> str:
        if not t.done():
            return 'pending'
        if t.cancelled():
            return 'cancelled'
        e = t.exception()
        return 'ok' if e is None else exc_name(e)

    @staticmethod
    def _wc(tasks: List[Any]) -> str:
        done = sum(1 for t in tasks if t.done())
        return f'{done}/{len(tasks) - done}'

    def show(self) -> str:
        parts: List[str] = []
        for tag, side in (('C', 'c'), ('S', 's')):
            conn = self.conn[side]
            parts.append(f'{tag}.owner=' + self._join(self.owner_log[side]))
            parts.append(f'{tag}.table=' + self._join([str(k) for k in sorted(conn._channels)]))
            parts.append(f'{tag}.cwc=' + self._wc(self.cwc[side]))
            parts.append(f'{tag}.closed={1 if conn.is_closed() else 0}')
            if side == 'c':
                for i, (sess, t) in enumerate(zip(self.csess, self.ctasks)):
                    parts.append(f'c{i}={self._join(sess.log)};out={self._outcome(t)};wc={self._wc(sess.wc)}'
                                 f';dr={self._wc(sess.dr)}')
                for i, t in enumerate(self.greqs):
                    parts.append(f'g{i}={self._outcome(t)}')
            else:
                for j, sess in enumerate(self.ssess):
                    if sess is None:
                        parts.append(f's{j}=-;wc=0/0;dr=0/0')
                    else:
                        parts.append(f's{j}={self._join(sess.log)};wc={self._wc(sess.wc)};dr={self._wc(sess.dr)}')
        for d in (pair.C2S, pair.S2C):
            parts.append(f'q.{d}=' + self._join([x for x, _n in self.pending[d] if x is not None], ';'))
        return '|'.join(parts)

    def leftover_tasks(self) -> List[str]:
        cur = asyncio.current_task()
        out = []
        for t in asyncio.all_tasks():
            if t in self.tasks_before or t is cur or t.done():
                continue
            co = t.get_coro()
            out.append(getattr(co, '__qualname__', repr(co)))
        return sorted(out)

    async def finish(self) -> None:
        """Tear the pair down so that nothing of it survives into the next script."""
        try:
            for side in ('c', 's'):
                t = self.hub.trans['client' if side == 'c' else 'server']
                self.hub._lose(t, None)
            for f in list(self.sfut) + list(self.pffut):
                if f is not None and not f.done():
                    f.cancel()
            await pair.settle(6)
            for t in asyncio.all_tasks():
                if t not in self.tasks_before and t is not asyncio.current_task() and not t.done():
                    t.cancel()
            await pair.settle(3)
        except Exception:
            pass


async def run_script(lines: List[str], tags: SendTags) -> Tuple[List[str], Dict[str, Any]]:
    """Execute one script (first line `reset W`); returns the result lines and side information."""
    rs = RealSys(tags)
    out: List[str] = []
    info: Dict[str, Any] = {}
    try:
        for idx, ln in enumerate(lines):
            ws = ln.split()
            rs.cur_line = idx
            if ws[0] == 'reset':
                await rs.start(int(ws[1]))
                out.append('ok')
            else:
                out.append(await rs.line(ws))
        info['leftover_tasks'] = rs.leftover_tasks()
        info['loop_errors'] = [str(c.get('exception') or c.get('message')) for c in pair.LOOP_ERRORS]
        info['settle_rounds'] = rs.settle_rounds
        info['mid'] = rs.mid
        info['judged'] = rs.judged
    finally:
        await rs.finish()
        pair.LOOP_ERRORS.clear()
    return out, info
