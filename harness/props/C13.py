"""C13 — File serving and downloading never leave their directory.

Lean: Model/PathMap.lean, Props/C13.lean (map_path_confined, scp_sink_confined, sftp_get_confined, ...).
Correspondence: Lean path routines / mapPath / SCP sink / recursive-get name walk  vs  the real
posixpath, SFTPServer.map_path, asyncssh.scp client sink and SFTPClient.get against hostile in-process peers.
Oracle: a real chrooted SFTP server and real SCP/SFTP download clients in a scratch directory; nothing
outside the root / destination may be read, created or modified.

After the model/code audit: glob downloads are modelled too (`mget`: SFTPGlob._match_pattern's name filter and the
basename `_begin_copy` uses as the local top-level name; theorem mget_confined, witness
old_mget_dotdot_basename_escapes), and the path SFTPServer.readlink resolves under a chroot (`readlinkBase`;
readlink_independent_of_cwd, witness old_readlink_depends_on_server_cwd).  The two repairs are detected by the
translator (_c13_translate.py -> Gen/C13.lean: globRejectsSlash, readlinkFromLinkDir).  The oracle runs
mget(pattern, recurse=True) against a hostile server whose listing holds names such as `x/..`, and asks a chrooted
server the same readlink with its process in two different directories outside the root.  Two more histories of
the known symlink root cause (F5/F36) carry their own signatures.
"""

from __future__ import annotations

import asyncio
import os
import posixpath
import stat as statmod
import sys
from typing import Any, Dict, List, Optional, Tuple

import asyncssh
from asyncssh import sftp as sftpmod
import importlib
scpmod = importlib.import_module('asyncssh.scp')   # `asyncssh.scp` the attribute is the scp() function

import pair
from vlib import (Ctx, CorrResult, OracleResult, Failure, Disagreement, Hist, hx, unhx, shrink_list)
import props._c13_translate as _tr

PROPERTY = 'C13'
MANIFEST = {
    'text': 'Lean 4 theorems: for EVERY byte string the chroot mapping yields root + safe components '
            '(map_path_confined), for EVERY SCP record sequence and EVERY server name tree the download walk stays '
            'below the destination, also when the destination does not exist yet or is a regular file and the first record '
            'names the destination itself (scp_sink_confined, scp_sink_new_destination_confined, sftp_get_confined), and a '
            'glob download (mget) derives only safe top-level names from EVERY listing (mget_confined); readlink under a chroot '
            'resolves from the link\'s directory, never the server\'s cwd (readlink_independent_of_cwd). The models are tied to the code by a '
            'differential run (posixpath routines, SFTPServer.map_path, real scp()/sftp.get() against hostile '
            'in-process peers) and the property itself is evaluated on the real chrooted server over request '
            'histories. Histories involving symlinks are decided by the oracle only (two known findings).',
    'note': 'kernel path resolution and pre-existing symlinks are outside the model; lexical confinement is what '
            'is proved; CPython posixpath transcription validated differentially each run',
    'technique': 'Lean 4 proof by induction over path components / record lists / name trees + differential '
                 'correspondence + filesystem-outcome oracle',
}
LEAN_PROPS = ['AsyncsshModel.Props.C13']
DRIVER = 'Drivers/C13.lean'
TRUSTED = [
    'kernel path resolution (symlinks made by third parties, races) is outside the model',
    'Lean transcriptions of posixpath.join/normpath/dirname are validated against CPython on every run',
]
ASSUMPTIONS = [
    'chroot is non-empty (SFTPServer treats an empty chroot as "no chroot")',
    'destination directories of a download exist and contain no pre-existing symlinks leaving them',
]

SECRET = b'TOP-SECRET-OUTSIDE-ROOT'

SIG_MGET = 'sftp-mget-escape:glob-match-basename-dotdot'
SIG_READLINK_CWD = 'sftp-server-readlink:relative-target-resolved-from-server-cwd'
SIG_LATER_COMPONENT = 'sftp-server-escape:symlink-target-through-later-created-link'
SIG_HARDLINKED_SYMLINK = 'sftp-server-escape:relative-symlink-hard-linked-elsewhere'


def translate(ctx: Ctx) -> Dict[str, Any]:
    return _tr.translate(ctx)


_FLAGS: Dict[str, int] = {}


def flags() -> Dict[str, int]:
    """which of the repairs the tree being checked has (same detection as Gen/C13.lean)"""
    if not _FLAGS:
        try:
            info = _tr.generate()[1]
            _FLAGS.update(glob=int(info.get('glob_rejects_slash', False)),
                          rl=int(info.get('readlink_from_link_dir', False)))
        except Exception:
            _FLAGS.update(glob=0, rl=0)
    return _FLAGS

# ---------------------------------------------------------------------------
# generators

COMPS = [b'', b'.', b'..', b'a', b'b', b'etc', b'passwd', b'...', b'.a', b'a b', b'\xc3\xa9', b'..a', b'a..',
         b'sub', b'secret', b'x\\y', b'*', b'~']


def gen_path(rng: Any) -> bytes:
    r = rng.random()
    n = rng.randint(0, 6)
    comps = [rng.choice(COMPS) for _ in range(n)]
    sep = lambda: b'/' * rng.choice([1, 1, 1, 2, 3])  # noqa: E731
    body = b''
    for i, c in enumerate(comps):
        body += c
        if i != len(comps) - 1 or rng.random() < 0.2:
            body += sep()
    lead = b'/' * rng.choice([0, 1, 1, 2, 2, 3, 4])
    if r < 0.05:
        return bytes(rng.randrange(1, 256) for _ in range(rng.randint(0, 8)))
    return lead + body


def gen_name(rng: Any, evil: bool) -> bytes:
    good = [b'f', b'g', b'data.txt', b'.hidden', b'a b', b'...', b'n\xc3\xa9']
    bad = [b'..', b'../x', b'/abs', b'a/../../x', b'a/b', b'.', b'x/..', b'..\\y', b'\\', b'sub/../../../up', b'',
           b'../', b'..//', b'./', b'sub/', b'../.', b'.. ', b' ..']
    if evil and rng.random() < 0.25:
        return rng.choice(bad)
    return rng.choice(good) + (b'%d' % rng.randint(0, 99) if rng.random() < 0.7 else b'')


# ---------------------------------------------------------------------------
# implementation side helpers


class _FakeChan:
    def get_connection(self) -> Any:
        return None


def impl_server(root: bytes) -> Any:
    return sftpmod.SFTPServer(_FakeChan(), chroot=root)  # type: ignore


def impl_map(srv: Any, p: bytes) -> str:
    try:
        return hx(srv.map_path(p))
    except Exception as e:  # pragma: no cover
        return 'exc:' + type(e).__name__


def impl_rev(srv: Any, p: bytes) -> str:
    try:
        return hx(srv.reverse_map_path(p))
    except sftpmod.SFTPNoSuchFile:
        return 'none'
    except Exception as e:  # pragma: no cover
        return 'exc:' + type(e).__name__


def impl_cd(args: bytes) -> str:
    try:
        _perm, _size, name = scpmod._parse_cd_args(args)
        return 'name ' + hx(name)
    except sftpmod.SFTPError:
        return 'bad'
    except Exception as e:
        return 'exc:' + type(e).__name__


def listing(base: str) -> List[str]:
    out = []
    for dp, dns, fns in os.walk(base, followlinks=False):
        for n in dns + fns:
            out.append(os.path.relpath(os.path.join(dp, n), base))
    return sorted(out)


def snapshot(base: str, skip: Optional[str] = None) -> Dict[str, Any]:
    """Content/type snapshot of a tree (used to detect modifications outside a confined area)."""
    snap: Dict[str, Any] = {}
    for dp, dns, fns in os.walk(base, followlinks=False):
        if skip and (dp == skip or dp.startswith(skip + os.sep)):
            dns[:] = []
            continue
        dns[:] = [d for d in dns if not (skip and os.path.join(dp, d) == skip)]
        for n in dns + fns:
            p = os.path.join(dp, n)
            if skip and p == skip:          # the confined path itself, also when it is (or became) a file
                continue
            rel = os.path.relpath(p, base)
            try:
                st = os.lstat(p)
                if statmod.S_ISLNK(st.st_mode):
                    snap[rel] = ('l', os.readlink(p))
                elif statmod.S_ISDIR(st.st_mode):
                    snap[rel] = ('d', st.st_mode & 0o7777)
                else:
                    with open(p, 'rb') as f:
                        snap[rel] = ('f', f.read(), st.st_mode & 0o7777, int(st.st_mtime))
            except OSError as e:
                snap[rel] = ('err', type(e).__name__)
    return snap


# ---- hostile SCP source ----------------------------------------------------

def scp_source_factory(records: List[Tuple[str, bytes]]) -> Any:
    """process_factory of a server whose `scp -f` sends exactly `records` (kind in C,D,E,T)."""
    async def handler(process: Any) -> None:
        rd, wr = process.stdin, process.stdout
        try:
            async def ack() -> bool:
                b = await rd.read(1)
                if b and b != b'\0':
                    await rd.readline()
                    return False
                return True
            await ack()
            for kind, name in records:
                if kind == 'C':
                    wr.write(b'C0644 3 ' + name + b'\n')
                    if await ack():
                        wr.write(b'abc\0')
                        await ack()
                elif kind == 'D':
                    wr.write(b'D0755 0 ' + name + b'\n')
                    await ack()
                elif kind == 'E':
                    wr.write(b'E\n')
                    await ack()
                elif kind == 'T':
                    wr.write(b'T1 0 1 0\n')
                    await ack()
        except Exception:
            pass
        process.exit(0)
    return handler


async def run_scp_sink(records: List[Tuple[str, bytes]], dest: str) -> str:
    errors: List[str] = []
    c, s, hub = await pair.make_pair(server_opts=dict(process_factory=scp_source_factory(records), encoding=None))
    try:
        await asyncio.wait_for(
            asyncssh.scp((c, 'src'), dest, recurse=True, error_handler=lambda e: errors.append(type(e).__name__)),
            20)
        res = 'ok'
    except asyncio.TimeoutError:
        res = 'timeout'
    except Exception as e:
        res = 'exc:' + type(e).__name__
    c.abort()
    await pair.settle(10)
    return res


# ---- hostile SFTP server ---------------------------------------------------

_DATAFILE: List[str] = []


def _datafile() -> str:
    """a real 3-byte file served as the content of every hostile-server file"""
    if not _DATAFILE or not os.path.exists(_DATAFILE[0]):
        import tempfile
        fd, path = tempfile.mkstemp(prefix='verif-C13-data-')
        os.write(fd, b'abc')
        os.close(fd)
        import atexit
        atexit.register(lambda: os.path.exists(path) and os.unlink(path))
        _DATAFILE[:] = [path]
    return _DATAFILE[0]


class Node:
    def __init__(self, kind: str, name: bytes, children: Optional[List['Node']] = None, target: bytes = b''):
        self.kind, self.name, self.children, self.target = kind, name, children or [], target


def hostile_sftp_factory(tree: List[Node]) -> Any:
    """SFTP server presenting `/src` = tree, whatever names it holds (names are matched positionally:
    the client asks for `<dirpath>/<name>` and the server resolves that exact byte string)."""
    index: Dict[bytes, Node] = {b'/src': Node('D', b'src', tree)}
    dindex: Dict[bytes, Node] = dict(index)     # directories win when a listing is requested

    def walk(prefix: bytes, nodes: List[Node]) -> None:
        for n in nodes:
            p = posixpath.join(prefix, n.name)
            index.setdefault(p, n)
            if n.kind == 'D':
                dindex.setdefault(p, n)
                walk(p, n.children)
        # the hostile server also answers for the spellings a client might derive from a name it was given
        # (trailing separators or blanks removed): a client that "cleans" names must not get away with it
        for n in nodes:
            for alt in {n.name.rstrip(b'/'), n.name.strip(b'/'), n.name.strip(), n.name.rstrip(b'/ \t')}:
                if alt != n.name and alt:
                    p = posixpath.join(prefix, alt)
                    index.setdefault(p, n)
                    if n.kind == 'D':
                        dindex.setdefault(p, n)
                        walk(p, n.children)
    walk(b'/src', tree)

    def attrs(n: Node) -> Any:
        if n.kind == 'D':
            return sftpmod.SFTPAttrs(type=sftpmod.FILEXFER_TYPE_DIRECTORY, permissions=0o40755, size=0,
                                     uid=0, gid=0, atime=1, mtime=1)
        if n.kind == 'L':
            return sftpmod.SFTPAttrs(type=sftpmod.FILEXFER_TYPE_SYMLINK, permissions=0o120777, size=0,
                                     uid=0, gid=0, atime=1, mtime=1)
        return sftpmod.SFTPAttrs(type=sftpmod.FILEXFER_TYPE_REGULAR, permissions=0o100644, size=3,
                                 uid=0, gid=0, atime=1, mtime=1)

    class Hostile(sftpmod.SFTPServer):
        def _get(self, path: bytes) -> Node:
            n = index.get(path)
            if n is None:
                raise sftpmod.SFTPNoSuchFile('no such file')
            return n

        def stat(self, path: bytes) -> Any:
            return attrs(self._get(path))

        def lstat(self, path: bytes) -> Any:
            return attrs(self._get(path))

        def fstat(self, file_obj: Any) -> Any:
            return attrs(Node('F', b''))

        def realpath(self, path: bytes) -> bytes:
            return path

        def listdir(self, path: bytes) -> Any:
            n = dindex.get(path) or self._get(path)
            return [sftpmod.SFTPName(b'.', attrs=attrs(n)), sftpmod.SFTPName(b'..', attrs=attrs(n))] + \
                   [sftpmod.SFTPName(c.name, attrs=attrs(c)) for c in n.children]

        def open(self, path: bytes, pflags: int, at: Any) -> Any:
            self._get(path)
            return open(_datafile(), 'rb')

        def readlink(self, path: bytes) -> bytes:
            return self._get(path).target

    return Hostile


async def run_get(tree: List[Node], dest: str) -> str:
    c, s, hub = await pair.make_pair(server_opts=dict(sftp_factory=hostile_sftp_factory(tree)))
    try:
        async with c.start_sftp_client() as sftp:
            await asyncio.wait_for(sftp.get('/src', dest, recurse=True), 20)
        res = 'done'
    except sftpmod.SFTPBadMessage:
        res = 'aborted'
    except asyncio.TimeoutError:
        res = 'timeout'
    except Exception as e:
        res = 'exc:' + type(e).__name__
    c.abort()
    await pair.settle(10)
    return res


async def run_mget(tree: List[Node], dest: str, pattern: bytes = b'/src/*') -> str:
    """mget(pattern, dest, recurse=True) against the hostile server: the top-level local names are derived by
    the client from the names of the server's listing"""
    c, s, hub = await pair.make_pair(server_opts=dict(sftp_factory=hostile_sftp_factory(tree)))
    try:
        async with c.start_sftp_client() as sftp:
            await asyncio.wait_for(sftp.mget(pattern, dest, recurse=True), 20)
        res = 'done'
    except sftpmod.SFTPBadMessage:
        res = 'aborted'
    except asyncio.TimeoutError:
        res = 'timeout'
    except Exception as e:
        res = 'exc:' + type(e).__name__
    c.abort()
    await pair.settle(10)
    return res


def changed_rel(before: Dict[str, Any], after: Dict[str, Any], base: str, dest: str) -> List[str]:
    """paths created or modified, relative to `dest` (`../x` = outside it)"""
    out = []
    for k in sorted(set(before) | set(after)):
        if before.get(k) != after.get(k):
            out.append(os.path.relpath(os.path.join(base, k), dest))
    return out


def readlink_world(base: str) -> Tuple[str, List[Tuple[bytes, bytes]]]:
    """a chroot with plain directories and a set of links (client path, target string on disk)"""
    root = os.path.join(base, 'root')
    os.makedirs(os.path.join(root, 'sub', 'deep'))
    for rel in ('file.txt', 'sub/file.txt', 'sub/deep/g'):
        with open(os.path.join(root, rel), 'wb') as f:
            f.write(b'x')
    links = []
    targets = [b'file.txt', b'../file.txt', b'deep/g', b'./deep/../file.txt', b'nothing-here', b'../../outside',
               b'..', b'.', os.fsencode(root) + b'/file.txt', os.fsencode(root) + b'/sub/../sub/deep', b'/etc',
               b'sub/file.txt', b'../sub/deep/g', b'deep//g', b'../..']
    for i, t in enumerate(targets):
        for d in (b'/sub', b'', b'/sub/deep'):
            cp = d + b'/l%d' % i
            os.symlink(t, os.fsencode(root) + cp)
            links.append((cp, t))
    return root, links


def impl_readlink(srv: Any, cwd: str, p: bytes) -> str:
    old = os.getcwd()
    os.chdir(cwd)
    try:
        return hx(srv.readlink(p))
    except sftpmod.SFTPNoSuchFile:
        return 'none'
    except Exception as e:
        return 'exc:' + type(e).__name__
    finally:
        os.chdir(old)


def tree_tokens(tree: List[Node]) -> List[str]:
    out: List[str] = []
    for n in tree:
        if n.kind == 'D':
            out.append('D' + hx(n.name))
            out += tree_tokens(n.children)
            out.append('U')
        else:
            out.append('F' + hx(n.name))
    return out


def gen_tree(rng: Any, depth: int, evil: bool, allow_empty: bool = False) -> List[Node]:
    nodes: List[Node] = []
    names = set()
    for _ in range(rng.randint(0, 4 if depth else 5)):
        name = gen_name(rng, evil)
        if name in names or (name == b'' and not allow_empty):
            continue
        names.add(name)
        if depth < 2 and rng.random() < 0.4:
            nodes.append(Node('D', name, gen_tree(rng, depth + 1, evil, allow_empty)))
        else:
            nodes.append(Node('F', name))
    return nodes


def model_paths(line: str) -> Tuple[List[str], str]:
    body, _, flag = line.partition(' ')
    if body == '-':
        return [], flag
    paths = []
    for p in body.split(';'):
        comps = [unhx(c) for c in p.split('/')]
        comps = [c for c in comps if c != b'.']     # `dest/./x` is `dest/x` in a directory listing
        if comps:
            paths.append(os.fsdecode(b'/'.join(comps)))
    return paths, flag


# ---------------------------------------------------------------------------
# correspondence


def correspondence(ctx: Ctx) -> CorrResult:
    res = CorrResult()
    hist = Hist()
    rng = ctx.subrng('corr')
    scratch = ctx.tmpdir()
    lines: List[str] = []
    expect: List[Tuple[str, Any, str]] = []     # (name, case, impl output)

    # (1) path routines and the chroot mapping, structured + malformed strings
    roots = [b'/nonexistent-verif-root', b'/nonexistent-verif/r2', os.fsencode(os.path.realpath(scratch))]
    servers = {r: impl_server(r) for r in roots}
    n = ctx.n(1500, 20000)
    seen = set()
    for i in range(n):
        p = gen_path(rng)
        root = roots[i % len(roots)]
        seen.add(p)
        lines.append(f'map {hx(root)} {hx(p)}')
        expect.append(('map_path', {'root': root.decode(), 'path': p.hex()}, impl_map(servers[root], p)))
        hist.hit('map:lead%d' % min(3, len(p) - len(p.lstrip(b'/'))))
        if i % 3 == 0:
            lines.append(f'norm {hx(p)}')
            expect.append(('normpath', {'path': p.hex()}, hx(posixpath.normpath(p))))
            q = gen_path(rng)
            lines.append(f'join {hx(p)} {hx(q)}')
            expect.append(('join', {'a': p.hex(), 'b': q.hex()}, hx(posixpath.join(p, q))))
            lines.append(f'dirname {hx(p)}')
            expect.append(('dirname', {'path': p.hex()}, hx(posixpath.dirname(p))))
        if i % 4 == 0:
            mapped = servers[root].map_path(p) if rng.random() < 0.7 else gen_path(rng)
            lines.append(f'rev {hx(root)} {hx(mapped)}')
            expect.append(('reverse_map_path', {'root': root.decode(), 'path': mapped.hex()},
                           impl_rev(servers[root], mapped)))
    res.nontrivial += len(seen)

    # (2) SCP C/D argument parsing
    for i in range(ctx.n(400, 5000)):
        name = gen_name(rng, True)
        ws = lambda: rng.choice([b' ', b' ', b'  ', b'\t'])  # noqa: E731
        perm = rng.choice([b'0644', b'0755', b'7', b'0'])
        size = rng.choice([b'0', b'3', b'12345'])
        form = rng.random()
        if form < 0.8:
            args = perm + ws() + size + ws() + name
        elif form < 0.9:
            args = perm + ws() + size            # too few fields
        else:
            args = perm + ws() + size + ws() + name + b' tail'
        lines.append(f'cd {hx(args)}')
        expect.append(('scp_parse_cd_args', {'args': args.hex()}, impl_cd(args)))
        hist.hit('cd')

    # (3) SCP sink against a hostile source (end to end, real client) ---------
    sink_cases = []
    for i in range(ctx.n(25, 300)):
        recs: List[Tuple[str, bytes]] = []
        used: Dict[int, set] = {}
        depth = 0
        for _ in range(rng.randint(1, 8)):
            k = rng.choice('CCCDDET')
            if k in 'CD':
                nm = gen_name(rng, True)
                if nm == b'' or nm in used.setdefault(depth, set()):
                    continue
                used[depth].add(nm)
                recs.append((k, nm))
                if k == 'D' and scpmod_name_ok(nm):
                    depth += 1
                    used[depth] = set()
            elif k == 'E':
                recs.append(('E', b''))
                if depth == 0:
                    break
                depth -= 1
            else:
                recs.append(('T', b''))
        sink_cases.append(recs)

    async def run_sinks() -> List[Tuple[List[str], str]]:
        out = []
        for i, recs in enumerate(sink_cases):
            dest = os.path.join(scratch, f'sink{i}', 'dest')
            os.makedirs(dest)
            r = await run_scp_sink(recs, dest)
            out.append((listing(dest), r))
        return out
    sink_out = pair.run(run_sinks(), timeout=600)
    for recs, (lst, r) in zip(sink_cases, sink_out):
        toks = [k + (hx(nm) if k in 'CD' else '') for k, nm in recs]
        toks = [t if t not in ('C-', 'D-') else t for t in toks]
        lines.append('sink ' + ' '.join(toks))
        expect.append(('scp_sink', {'records': toks}, ';'.join(lst) if lst else '-'))
        hist.hit('sink:' + r)

    # (3b) the same record lists into a destination path that does not exist yet / that is a regular file:
    # the first C or D record then names the destination itself
    async def run_sinks_new() -> List[Tuple[int, List[str], str]]:
        out = []
        for i, recs in enumerate(sink_cases):
            mode = i % 2                  # 0: does not exist, 1: is a file
            parent = os.path.join(scratch, f'sinknew{i}')
            os.makedirs(parent)
            dest = os.path.join(parent, 'dest')
            if mode == 1:
                with open(dest, 'wb') as f:
                    f.write(b'old')
            r = await run_scp_sink(recs, dest)
            seen = []
            if os.path.lexists(dest):
                seen.append('@')
                if os.path.isdir(dest):
                    seen += listing(dest)
            extra = [x for x in listing(parent) if x != 'dest' and not x.startswith('dest' + os.sep)]
            out.append((mode, sorted(seen) + ['OUTSIDE:' + x for x in extra], r))
        return out
    new_out = pair.run(run_sinks_new(), timeout=600)
    for recs, (mode, seen, r) in zip(sink_cases, new_out):
        toks = [k + (hx(nm) if k in 'CD' else '') for k, nm in recs]
        lines.append(f'sinknew {mode} ' + ' '.join(toks))
        expect.append(('scp_sink_new', {'records': toks, 'mode': mode}, ';'.join(seen) if seen else '-'))
        hist.hit('sinknew:' + r)

    # (4) recursive SFTP get against a hostile server ----------------------------
    get_cases = [gen_tree(rng, 0, True) for _ in range(ctx.n(25, 300))]

    async def run_gets() -> List[Tuple[List[str], str]]:
        out = []
        for i, tree in enumerate(get_cases):
            dest = os.path.join(scratch, f'get{i}', 'dest')
            os.makedirs(dest)
            r = await run_get(tree, dest)
            top = os.path.join(dest, 'src')
            out.append((listing(top) if os.path.isdir(top) else [], r))
        return out
    get_out = pair.run(run_gets(), timeout=600)
    for tree, (lst, r) in zip(get_cases, get_out):
        toks = tree_tokens(tree)
        lines.append('get ' + ' '.join(toks))
        expect.append(('sftp_get', {'tree': toks}, ';'.join(lst) + '|' + r))
        hist.hit('get:' + r)

    # (5) glob download (mget) against a hostile server: the top-level names come from the server's listing too
    mget_cases = [gen_tree(rng, 0, True) for _ in range(ctx.n(25, 300))]
    mget_cases += [[Node('F', b'ok'), Node('D', b'x/..', [Node('F', b'pwn')])],
                   [Node('D', b'..', [Node('F', b'up')]), Node('F', b'a')],
                   [Node('D', b'd', [Node('F', b'a'), Node('D', b'e', [Node('F', b'../x')])]), Node('F', b'never')]]

    async def run_mgets() -> List[Tuple[List[str], str]]:
        out = []
        for i, tree in enumerate(mget_cases):
            base = os.path.join(scratch, f'mget{i}')
            dest = os.path.join(base, 'outer', 'dest')
            os.makedirs(dest)
            before = snapshot(base)
            r = await run_mget(tree, dest)
            out.append((changed_rel(before, snapshot(base), base, dest), r))
        return out
    mget_out = pair.run(run_mgets(), timeout=600)
    for tree, (lst, r) in zip(mget_cases, mget_out):
        toks = tree_tokens(tree)
        lines.append(f'mget {flags()["glob"]} {hx(b"/src")} ' + ' '.join(toks))
        expect.append(('sftp_mget', {'tree': toks}, ';'.join(sorted(lst)) + '|' + r))
        hist.hit('mget:' + r)
    for i in range(ctx.n(200, 2000)):
        p = gen_path(rng)
        lines.append(f'basename {hx(p)}')
        expect.append(('basename', {'path': p.hex()}, hx(posixpath.basename(p))))

    # (6) SFTPServer.readlink under a chroot: real links in a real directory, the server's cwd varied
    rbase = os.path.realpath(os.path.join(scratch, 'rl'))
    os.makedirs(rbase)
    rroot, rlinks = readlink_world(rbase)
    cwds = [os.path.join(rbase, 'cwd-empty'), rroot, os.path.join(rroot, 'sub')]
    os.makedirs(cwds[0])
    rsrv = impl_server(os.fsencode(rroot))
    for cp, t in rlinks:
        for cwd in cwds:
            lines.append(f'rlans {flags()["rl"]} {hx(os.fsencode(rroot))} {hx(os.fsencode(cwd))} {hx(cp)} {hx(t)}')
            expect.append(('readlink', {'link': cp.decode(), 'target': t.decode(), 'cwd': os.path.relpath(cwd, rbase)},
                           impl_readlink(rsrv, cwd, cp)))
            hist.hit('readlink')

    # run the model ---------------------------------------------------------------
    out = ctx.model(DRIVER, lines)
    for line, (name, case, impl), mod in zip(lines, expect, out):
        if name == 'sftp_mget':
            paths, flag = model_paths(mod)
            rel = sorted(set(os.path.normpath(q) for q in paths) - {'..', '.'})
            mod = ';'.join(rel) + '|' + flag
            # every match creates at least its own top-level path: no path and no abort = the glob matched
            # nothing, which the client reports as SFTPNoSuchFile('No matches found')
            if mod == '|done':
                mod = '|nomatch'
            if impl == '|exc:SFTPNoSuchFile':
                impl = '|nomatch'
        if name in ('scp_sink', 'sftp_get'):
            paths, flag = model_paths(mod)
            m = ';'.join(sorted(set(paths))) if paths else ('-' if name == 'scp_sink' else '')
            if name == 'sftp_get':
                m = m + '|' + flag
            mod = m
        if name == 'scp_sink_new':
            items = set()
            for pth in ([] if mod == '-' else mod.split(';')):
                if pth == '@':
                    items.add('@')
                else:
                    comps = [unhx(c) for c in pth.split('/') if unhx(c) != b'.']
                    items.add(os.fsdecode(b'/'.join(comps)) if comps else '@')      # `dest/.` is the destination
            if case['mode'] == 1:
                items.add('@')          # the destination was there before
            mod = ';'.join(sorted(items)) if items else '-'
            impl = ';'.join(sorted(impl.split(';'))) if impl != '-' else '-'
        res.cases += 1
        if mod != impl:
            res.disagreements.append(Disagreement(case={'op': name, **case, 'line': line}, model=mod, impl=impl,
                                                  name=f'correspondence:{name}'))
    res.nontrivial += len(sink_cases) + len(get_cases) + len(mget_cases) + len(rlinks)
    res.histogram = dict(hist)
    res.samples = [{'line': lines[0], 'model': out[0], 'impl': expect[0][2]},
                   {'line': lines[-1], 'model': out[-1], 'impl': expect[-1][2]}]
    res.rule = ('seeded path strings from a component alphabet (empty, ., .., names, unicode, 1-3 slashes, 0-4 '
                'leading slashes) plus 5% random bytes; SCP records and SFTP name trees with hostile names; '
                'distinct = distinct path strings + record lists + trees')
    return res


def scpmod_name_ok(nm: bytes) -> bool:
    return not (b'/' in nm or b'\\' in nm or nm == b'..')


# ---------------------------------------------------------------------------
# oracle: the property evaluated on the real code


OPS = ['read', 'write', 'stat', 'lstat', 'setstat', 'mkdir', 'rmdir', 'remove', 'rename', 'posix_rename',
       'symlink', 'link', 'readlink', 'realpath', 'listdir', 'statvfs', 'exists', 'truncate']

EVIL_PATHS = [b'//outside/secret.txt', b'/../outside/secret.txt', b'../outside/secret.txt', b'//..//outside',
              b'/./../outside/secret.txt', b'///outside/secret.txt', b'/a/../../outside/secret.txt',
              b'..', b'/..', b'//', b'//..', b'/sub/../../outside/new', b'//outside/new', b'outside/secret.txt',
              b'////outside/secret.txt', b'/sub/l', b'/l', b'/l/secret.txt', b'/sub/l/outside/secret.txt',
              b'/l/outside/secret.txt', b'/l/new', b'/sub', b'/sub/f', b'/f', b'/sub/d2', b'/d3',
              # siblings of the root whose names have the root's name as a string prefix
              b'//root-private/secret.txt', b'/../root-private/secret.txt', b'/../root2/secret.txt',
              b'/l/root-private/secret.txt', b'/sub/l/secret.txt', b'/l/new2', b'/sub/x',
              # the ABSOLUTE name of the world outside the root, behind spellings posixpath.normpath keeps (`//`): a
              # mapping that leaves the name absolute makes os.path.join drop the root (@ABS@ = the scratch directory)
              b'//@ABS@/outside/secret.txt', b'//@ABS@/outside/new-abs', b'//../..@ABS@/outside/secret.txt',
              b'//@ABS@/root2/secret.txt', b'/@ABS@/outside/secret.txt', b'///@ABS@/outside/secret.txt',
              b'//@ABS@/outside']


def gen_history(rng: Any) -> List[Tuple[str, bytes, bytes]]:
    h = []
    for _ in range(rng.randint(1, 5)):
        op = rng.choice(OPS)
        a = rng.choice(EVIL_PATHS) if rng.random() < 0.8 else gen_path(rng)
        b = rng.choice(EVIL_PATHS) if rng.random() < 0.8 else gen_path(rng)
        if op == 'symlink' and rng.random() < 0.6:
            a = rng.choice([b'..', b'../..', b'../outside', b'.', b'../sub/..', b'/..', b'//outside', b'x/../..',
                            b'x/../../outside',
                            b'../root-private', b'../../root-private', b'../root2', b'../../root2',
                            b'../root-private/secret.txt', b'../root/../root-private'])
        h.append((op, a, b))
    return h


CANARY = b'zz-canary-9f3a.bin'


def make_world(base: str) -> Tuple[str, str]:
    root = os.path.join(base, 'root')
    os.makedirs(os.path.join(root, 'sub'))
    os.makedirs(os.path.join(base, 'outside'))
    with open(os.path.join(base, 'outside', 'secret.txt'), 'wb') as f:
        f.write(SECRET)
    for sib in ('root-private', 'root2'):           # a containment test by bare string prefix accepts these
        os.makedirs(os.path.join(base, sib))
        with open(os.path.join(base, sib, 'secret.txt'), 'wb') as f:
            f.write(SECRET)
    for d in ('outside', 'root-private', 'root2', '.'):
        # a name no request ever mentions: seeing it in a listing means a directory outside the root was listed
        with open(os.path.join(base, d, os.fsdecode(CANARY)), 'wb') as f:
            f.write(b'canary')
    with open(os.path.join(root, 'f'), 'wb') as f:
        f.write(b'inside-f')
    with open(os.path.join(root, 'sub', 'f'), 'wb') as f:
        f.write(b'inside-sub-f')
    for p, _d, fs in os.walk(base):
        os.utime(p, (1000, 1000))
        for fn in fs:
            os.utime(os.path.join(p, fn), (1000, 1000))
    return root, os.path.join(base, 'outside')


async def run_history(base: str, history: List[Tuple[str, bytes, bytes]]) -> List[str]:
    """Run a request history against a real chrooted server; returns the list of leaks observed."""
    root, outside = make_world(base)
    before = snapshot(base, skip=root)
    leaks: List[str] = []
    c, s, hub = await pair.make_pair(server_opts=dict(sftp_factory=lambda chan: sftpmod.SFTPServer(chan, chroot=os.fsencode(root))))
    try:
        absb = os.fsencode(base).lstrip(b'/')
        history = [(op, a.replace(b'@ABS@', absb), b.replace(b'@ABS@', absb)) for op, a, b in history]
        async with c.start_sftp_client() as sftp:
            for i, (op, a, b) in enumerate(history):
                try:
                    r: Any = None
                    if op == 'read':
                        async with sftp.open(a, 'rb') as f:
                            r = await f.read()
                    elif op == 'write':
                        async with sftp.open(a, 'wb') as f:
                            await f.write(b'written-by-client')
                    elif op == 'truncate':
                        await sftp.truncate(a, 0)
                    elif op == 'stat':
                        r = await sftp.stat(a)
                    elif op == 'lstat':
                        r = await sftp.lstat(a)
                    elif op == 'setstat':
                        await sftp.setstat(a, sftpmod.SFTPAttrs(permissions=0o600, atime=5, mtime=5))
                    elif op == 'mkdir':
                        await sftp.mkdir(a)
                    elif op == 'rmdir':
                        await sftp.rmdir(a)
                    elif op == 'remove':
                        await sftp.remove(a)
                    elif op == 'rename':
                        await sftp.rename(a, b)
                    elif op == 'posix_rename':
                        await sftp.posix_rename(a, b)
                    elif op == 'symlink':
                        await sftp.symlink(a, b)
                    elif op == 'link':
                        await sftp.link(a, b)
                    elif op == 'readlink':
                        r = await sftp.readlink(a)
                    elif op == 'realpath':
                        r = await sftp.realpath(a)
                    elif op == 'listdir':
                        r = await sftp.listdir(a)
                    elif op == 'statvfs':
                        r = await sftp.statvfs(a)
                    elif op == 'exists':
                        r = await sftp.exists(a)
                    if isinstance(r, bytes) and SECRET in r:
                        leaks.append(f'op{i}:{op}:read-secret')
                    if op == 'listdir' and r is not None and CANARY in r:
                        leaks.append(f'op{i}:{op}:listed-outside')
                    if op in ('stat', 'lstat') and r is not None and r.size == len(SECRET):
                        leaks.append(f'op{i}:{op}:stat-secret')
                except (sftpmod.SFTPError, OSError, asyncssh.Error, UnicodeDecodeError, ValueError):
                    pass
                after = snapshot(base, skip=root)
                if after != before:
                    changed = sorted(set(k for k in set(after) | set(before) if after.get(k) != before.get(k)))
                    leaks.append(f'op{i}:{op}:modified-outside:{changed[:3]}')
                    before = after
    except (asyncssh.Error, OSError):
        pass
    c.abort()
    await pair.settle(10)
    return leaks


def history_signature(history: List[Tuple[str, bytes, bytes]]) -> str:
    kinds = sorted(set(op for op, _a, _b in history))
    rel_up = any(op == 'symlink' and not a.startswith(b'/') and b'..' in a for op, a, _b in history)
    sig = 'sftp-server-escape:' + '+'.join(kinds)
    if rel_up and any(k in kinds for k in ('rename', 'posix_rename')) and 'symlink' in kinds:
        sig = 'sftp-server-escape:relative-symlink-moved-by-rename'
    links = [b for op, _a, b in history if op == 'symlink']
    for i, (op, a, b) in enumerate(history):
        if op == 'symlink' and not a.startswith(b'/') and b'..' in a and \
                any(b.startswith(l.rstrip(b'/') + b'/') for l in links if l != b):
            # a relative link created at a path that itself runs through an earlier link: it lands at the
            # physical location while the containment test was made lexically
            sig = 'sftp-server-escape:symlink-created-through-symlink'
    generic = sig == 'sftp-server-escape:' + '+'.join(kinds)
    if generic and rel_up:
        sym = [(i, a, b) for i, (op, a, b) in enumerate(history) if op == 'symlink']
        # (same root cause as the two above, other histories)  a relative link whose target names, before a `..`, a
        # component that does not exist yet (so the containment test falls back to the lexical path) and that a
        # LATER symlink creates
        for i, a, b in sym:
            if a.startswith(b'/') or b'..' not in a:
                continue
            parts = posixpath.join(posixpath.dirname(b), a).split(b'/')
            prefixes = [posixpath.normpath(b'/'.join(parts[:k])) for k in range(1, len(parts)) if parts[k] == b'..']
            if any(j > i and posixpath.normpath(posixpath.join(b'/', b2)) in prefixes for j, _a2, b2 in sym):
                return SIG_LATER_COMPONENT
        # a hard link of such a relative symlink made at another depth (os.link links the symlink itself)
        locs = [posixpath.normpath(posixpath.join(b'/', b)) for _i, a, b in sym if not a.startswith(b'/') and b'..' in a]
        if any(op == 'link' and posixpath.normpath(posixpath.join(b'/', a)) in locs for op, a, _b in history):
            return SIG_HARDLINKED_SYMLINK
    return sig


HISTORY_CORPUS = [
    [('symlink', b'..', b'/sub/l'), ('rename', b'/sub/l', b'/l'), ('read', b'/l/outside/secret.txt', b'')],
    [('symlink', b'..', b'/sub/l'), ('posix_rename', b'/sub/l', b'/l'), ('write', b'/l/outside/new', b'')],
    [('symlink', b'/', b'/sub/sl'), ('symlink', b'../outside', b'/sub/sl/evil'), ('read', b'/sub/sl/evil/secret.txt', b'')],
    [('symlink', b'x/../../outside', b'/sub/l'), ('symlink', b'/sub', b'/sub/x'), ('read', b'/sub/l/secret.txt', b'')],
    [('symlink', b'..', b'/sub/l'), ('link', b'/sub/l', b'/l'), ('read', b'/l/outside/secret.txt', b'')],
    [('read', b'//outside/secret.txt', b'')],
    [('read', b'//@ABS@/outside/secret.txt', b'')],
    [('write', b'//@ABS@/outside/new-abs', b'')],
    [('listdir', b'//@ABS@/outside', b'')],
    [('rename', b'/f', b'//@ABS@/outside/moved-out')],
    [('read', b'//../outside/secret.txt', b'')],
    [('write', b'//outside/new', b'')],
    [('symlink', b'//outside', b'/l'), ('read', b'/l/secret.txt', b'')],
    [('symlink', b'../outside', b'/l'), ('read', b'/l/secret.txt', b'')],
    [('symlink', b'../../outside', b'/sub/l'), ('read', b'/sub/l/secret.txt', b'')],
    [('symlink', b'../root-private', b'/l'), ('read', b'/l/secret.txt', b'')],
    [('symlink', b'../../root2', b'/sub/l'), ('write', b'/sub/l/new2', b'')],
    [('symlink', b'../root-private/secret.txt', b'/l'), ('read', b'/l', b'')],
    [('read', b'/../root-private/secret.txt', b'')],
    [('realpath', b'/../root2', b''), ('listdir', b'/../root2', b'')],
    [('link', b'//outside/secret.txt', b'/hl'), ('read', b'/hl', b'')],
    [('mkdir', b'//outside/newdir', b'')],
    [('rename', b'/f', b'//outside/stolen')],
    [('rename', b'//outside/secret.txt', b'/got')],
]


def oracle(ctx: Ctx) -> OracleResult:
    res = OracleResult()
    hist = Hist()
    rng = ctx.subrng('oracle')
    scratch = ctx.tmpdir()

    # (a) chrooted server histories -------------------------------------------------
    histories = list(HISTORY_CORPUS)
    for s in ctx.suspects:
        if isinstance(s, dict) and s.get('op') in ('map_path', 'normpath', 'join') and 'path' in s:
            p = bytes.fromhex(s['path'])
            histories.append([('read', p, b'')])
            histories.append([('write', p, b'')])
            histories.append([('read', p + b'/outside/secret.txt', b'')])
            histories.append([('read', p.rstrip(b'/') + b'/secret.txt', b'')])
    for _ in range(ctx.n(60, 1500)):
        histories.append(gen_history(rng))

    async def run_all() -> List[List[str]]:
        out = []
        for i, h in enumerate(histories):
            base = os.path.join(scratch, f'w{i}')
            os.makedirs(base)
            out.append(await run_history(base, h))
        return out
    results = pair.run(run_all(), timeout=1500)
    counter = [0]
    for h, leaks in zip(histories, results):
        res.evaluations += 1
        for op, _a, _b in h:
            hist.hit('srv:' + op)
        if leaks:
            def still(hh: List[Any]) -> bool:
                counter[0] += 1
                b = os.path.join(scratch, f'shrink{counter[0]}')
                os.makedirs(b)
                return bool(pair.run(run_history(b, hh), timeout=60))
            small = shrink_list(h, still, budget=20)
            sig = history_signature(small)
            hist.hit('srv-leak:' + sig)
            res.failures.append(Failure(
                signature=sig,
                what=f'chrooted SFTP server touched a path outside its root: {leaks[:2]} for history '
                     f'{[(op, a.decode("latin1"), b.decode("latin1")) for op, a, b in small]}',
                replay={'kind': 'sftp-server-history',
                        'history': [[op, a.hex(), b.hex()] for op, a, b in small]}))
    res.nontrivial += len(set(tuple(h) for h in histories))

    # (b) downloads from hostile peers -------------------------------------------------
    dl_failures = pair.run(_oracle_downloads(ctx, rng, scratch, hist, res), timeout=1500)
    res.failures += dl_failures
    # one failing input per signature first (the runner prints the first few)
    firsts: List[Failure] = []
    rest: List[Failure] = []
    for f in res.failures:
        (rest if any(x.signature == f.signature for x in firsts) else firsts).append(f)
    res.failures = firsts + rest
    res.histogram = dict(hist)
    res.samples = [{'history': [(op, a.decode('latin1'), b.decode('latin1')) for op, a, b in histories[0]]},
                   {'history': [(op, a.decode('latin1'), b.decode('latin1')) for op, a, b in histories[-1]]}]
    res.rule = ('request histories (<=5 ops over 18 SFTP operations, adversarial path strings) against a real '
                'chrooted server in a scratch root, plus hostile SCP/SFTP peers for downloads; failure = anything '
                'outside the root/destination read, listed, created or changed; distinct = distinct histories/trees')
    return res


async def _oracle_downloads(ctx: Ctx, rng: Any, scratch: str, hist: Hist, res: OracleResult) -> List[Failure]:
    fails: List[Failure] = []
    # recursive get: random hostile trees + corpus (symlink then same-named directory; absolute names)
    for i in range(ctx.n(40, 600)):
        base = os.path.join(scratch, f'dl{i}')
        dest = os.path.join(base, 'outer', 'dest')
        os.makedirs(dest)
        outside = os.path.join(base, 'outside')
        os.makedirs(outside)
        kind = i % 4
        if kind == 0:
            tree = [Node('L', b'l', target=os.fsencode(outside)), Node('D', b'l', [Node('F', b'pwn')])]
            label = 'symlink-then-same-name-dir'
        elif kind == 1:
            # one hostile construct per tree (the copy stops at the first name it refuses, so a tree with several
            # would only ever exercise the first)
            threats = [
                [Node('F', os.fsencode(outside) + b'/abs')],
                [Node('D', b'..', [Node('F', b'up')])],
                [Node('D', b'x/../../..', [Node('F', b'up2')])],
                [Node('D', b'../', [Node('F', b'up3'), Node('D', b'../', [Node('F', b'up4')])])],
                [Node('D', b'..//', [Node('F', b'up5')])],
                [Node('D', b'./', [Node('D', b'../', [Node('D', b'../', [Node('F', b'up6')])])])],
                [Node('D', b'sub', [Node('D', b'../', [Node('D', b'../', [Node('F', b'up7')])])])],
                [Node('F', b'../up8')],
                [Node('D', b'.. ', [Node('F', b'up9')])],
                [Node('D', b'a', [Node('F', b'../../up10')])],
                [Node('F', b'..\\up11')],
            ]
            tree = [Node('F', b'ok1')] + threats[(i // 4) % len(threats)] + [Node('F', b'ok2')]
            label = 'absolute-and-dotdot-names'
        else:
            tree = gen_tree(rng, 0, True, allow_empty=True)
            if rng.random() < 0.3:
                tree.insert(rng.randint(0, len(tree)), Node('F', os.fsencode(outside) + b'/abs2'))
            label = 'random-tree'
        before = snapshot(base, skip=dest)
        r = await run_get(tree, dest)
        after = snapshot(base, skip=dest)
        res.evaluations += 1
        hist.hit('get:' + label + ':' + r.split(':')[0])
        if after != before:
            changed = sorted(k for k in set(after) | set(before) if after.get(k) != before.get(k))
            names = sorted(set(n.kind for n in tree))
            sig = 'sftp-get-escape:' + ('symlink-followed-by-same-name-entry'
                                        if any(n.kind == 'L' for n in tree) else 'name-with-separator-or-dotdot')
            fails.append(Failure(signature=sig,
                                 what=f'recursive SFTP get created {changed[:3]} outside the destination ({label})',
                                 replay={'kind': 'sftp-get-tree', 'tree': tree_tokens_full(tree), 'kinds': names}))
    # glob download (mget): the local TOP-LEVEL names are derived from the names of the server's listing as well
    mget_corpus: List[Tuple[bytes, List[Node]]] = [
        (b'/src/*', [Node('F', b'ok.txt'), Node('D', b'x/..', [Node('F', b'pwn.txt'), Node('F', b'canary.txt')])]),
        (b'/src/*.*', [Node('D', b'x/..', [Node('F', b'pwn2')])]),
        (b'/src/**', [Node('D', b'x/..', [Node('F', b'pwn3')])]),
        (b'/src/*', [Node('D', b'a/../..', [Node('D', b'outside', [Node('F', b'pwn4')])])]),
        (b'/src/*', [Node('F', b'../pwn5')]),
        (b'/src/*', [Node('D', b'../', [Node('F', b'pwn6')])]),
        (b'/src/*/*', [Node('D', b'd', [Node('D', b'y/..', [Node('F', b'pwn7')])])]),
        (b'/src/?*', [Node('D', b'sub', [Node('F', b'fine')]), Node('D', b'z/../..', [Node('F', b'pwn8')])]),
    ]
    for i in range(len(mget_corpus) + ctx.n(30, 400)):
        base = os.path.join(scratch, f'mg{i}')
        dest = os.path.join(base, 'outer', 'dest')
        os.makedirs(dest)
        os.makedirs(os.path.join(base, 'outside'))
        with open(os.path.join(base, 'outer', 'canary.txt'), 'wb') as f:       # the user's own file next to `dest`
            f.write(b'canary')
        if i < len(mget_corpus):
            pattern, tree = mget_corpus[i]
        else:
            pattern = rng.choice([b'/src/*', b'/src/*', b'/src/**', b'/src/?*', b'/src/[!q]*'])
            tree = gen_tree(rng, 0, True)
            if rng.random() < 0.5:
                evil = rng.choice([b'x/..', b'x/../..', b'../', b'a/b/../../..', b'./..', b'x/../../outside', b'..//'])
                kids = gen_tree(rng, 1, False) + [Node('F', b'planted')]
                tree.insert(rng.randint(0, len(tree)), Node('D', evil, kids))
        before = snapshot(base, skip=dest)
        r = await run_mget(tree, dest, pattern)
        after = snapshot(base, skip=dest)
        res.evaluations += 1
        hist.hit('mget:' + r.split(':')[0])
        if after != before:
            changed = sorted(k for k in set(after) | set(before) if after.get(k) != before.get(k))
            fails.append(Failure(signature=SIG_MGET,
                                 what=f'sftp.mget({pattern.decode()!r}, dest, recurse=True) created or modified {changed[:3]} '
                                      f'OUTSIDE the destination: a name of the server\'s listing such as "x/.." matches the '
                                      f'pattern and its basename ".." becomes the local top-level name '
                                      f'(listing {[(n.kind, n.name.decode("latin1")) for n in tree][:4]})',
                                 replay={'kind': 'sftp-mget-tree', 'tree': tree_tokens_full(tree),
                                         'pattern': pattern.hex()}))

    # readlink on a chrooted server must not depend on what lies in the server's current directory
    for i, (target, decoy_name) in enumerate([(b'file.txt', 'file.txt'), (b'../file.txt', 'file.txt'),
                                              (b'deep/g', 'deep')]):
        base = os.path.realpath(os.path.join(scratch, f'rlp{i}'))
        os.makedirs(base)
        answers = await readlink_probe(base, target, decoy_name)
        res.evaluations += 1
        hist.hit('readlink-cwd:' + ('same' if len(set(answers.values())) == 1 else 'DIFFERENT'))
        if len(set(answers.values())) != 1:
            fails.append(Failure(signature=SIG_READLINK_CWD,
                                 what=f'chrooted server, link /sub/l -> {target.decode()!r}: readlink(\'/sub/l\') answers '
                                      f'{answers} depending on the current directory of the server process — the relative '
                                      f'target is resolved (lstat/readlink) against objects outside the chroot',
                                 replay={'kind': 'readlink-cwd', 'target': target.hex(), 'decoy': decoy_name}))

    # SCP sink
    for i in range(ctx.n(40, 600)):
        base = os.path.join(scratch, f'scp{i}')
        dest = os.path.join(base, 'outer', 'dest')
        # the destination exists as a directory / does not exist yet / is a regular file: in the last two modes the
        # first C or D record names the destination itself, so the sink's depth bookkeeping is off by one level
        dest_mode = ['dir', 'absent', 'dir', 'file', 'absent'][i % 5]
        os.makedirs(dest if dest_mode == 'dir' else os.path.dirname(dest))
        if dest_mode == 'file':
            with open(dest, 'wb') as f:
                f.write(b'old')
        with open(os.path.join(base, 'outer', 'canary.txt'), 'wb') as f:
            f.write(b'canary')
        os.makedirs(os.path.join(base, 'outside'))
        recs: List[Tuple[str, bytes]] = []
        nested = [[('D', b'tree'), ('D', b'..'), ('C', b'canary.txt'), ('C', b'escaped.txt')],
                  [('D', b'a'), ('D', b'b'), ('E', b''), ('D', b'..'), ('D', b'..'), ('C', b'up')],
                  [('D', b'a'), ('E', b''), ('D', b'..'), ('C', b'canary.txt')],
                  [('C', b'f'), ('D', b'..'), ('C', b'up')]]
        if i in (6, 9, 11, 14, 16, 19, 21, 24):
            recs = nested[(i // 5) % len(nested)]
        elif i == 0:
            recs = [('E', b''), ('C', b'up')]
        elif i == 1:
            recs = [('D', b'..'), ('C', b'up'), ('E', b''), ('E', b''), ('C', b'up2')]
        elif i == 2:
            recs = [('C', os.fsencode(os.path.join(base, 'outside', 'abs')))]
        else:
            for _ in range(rng.randint(1, 8)):
                k = rng.choice('CCDDEET')
                recs.append((k, gen_name(rng, True) if k in 'CD' else b''))
        recs = [(k, nm) for k, nm in recs if not (k in 'CD' and (nm == b'' or b'\n' in nm))]
        before = snapshot(base, skip=dest)
        r = await run_scp_sink(recs, dest)
        after = snapshot(base, skip=dest)
        res.evaluations += 1
        hist.hit('scp:' + r.split(':')[0])
        if after != before:
            changed = sorted(k for k in set(after) | set(before) if after.get(k) != before.get(k))
            fails.append(Failure(signature='scp-sink-escape',
                                 what=f'SCP download created {changed[:3]} outside the destination',
                                 replay={'kind': 'scp-records', 'records': [[k, nm.hex()] for k, nm in recs],
                                         'dest_mode': dest_mode}))
    res.nontrivial += res.evaluations
    return fails


async def readlink_probe(base: str, target: bytes, decoy_name: str) -> Dict[str, str]:
    """the same readlink request with the server process in two different directories OUTSIDE the chroot: an empty
    one, and one that holds a symlink named like the first component of the target, pointing into the chroot"""
    root = os.path.join(base, 'root')
    os.makedirs(os.path.join(root, 'sub', 'deep'))
    for rel in ('file.txt', 'sub/file.txt', 'sub/deep/g'):
        with open(os.path.join(root, rel), 'wb') as f:
            f.write(b'x')
    os.symlink(target, os.path.join(root, 'sub', 'l'))
    plain, decoy = os.path.join(base, 'cwd-plain'), os.path.join(base, 'cwd-decoy')
    os.makedirs(plain)
    os.makedirs(decoy)
    os.symlink(os.path.join(root, 'sub'), os.path.join(decoy, decoy_name))
    answers: Dict[str, str] = {}
    c, s, hub = await pair.make_pair(server_opts=dict(sftp_factory=lambda chan: sftpmod.SFTPServer(chan, chroot=os.fsencode(root))))
    old = os.getcwd()
    try:
        async with c.start_sftp_client() as sftp:
            for label, cwd in (('plain', plain), ('decoy', decoy)):
                os.chdir(cwd)
                try:
                    answers[label] = os.fsdecode(await sftp.readlink(b'/sub/l'))
                except sftpmod.SFTPError as e:
                    answers[label] = 'error:' + type(e).__name__
                finally:
                    os.chdir(old)
    finally:
        os.chdir(old)
        c.abort()
        await pair.settle(10)
    return answers


def tree_tokens_full(tree: List[Node]) -> List[Any]:
    return [[n.kind, n.name.hex(), n.target.hex(), tree_tokens_full(n.children)] for n in tree]


def tree_from_tokens(toks: List[Any]) -> List[Node]:
    return [Node(k, bytes.fromhex(n), tree_from_tokens(ch), bytes.fromhex(t)) for k, n, t, ch in toks]


def replay(ctx: Ctx, rep: Dict[str, Any]) -> List[Failure]:
    r = rep.get('replay', rep)
    base = ctx.tmpdir()
    if r.get('kind') == 'sftp-server-history':
        h = [(op, bytes.fromhex(a), bytes.fromhex(b)) for op, a, b in r['history']]
        leaks = pair.run(run_history(base, h))
        return [Failure(history_signature(h), str(leaks), r)] if leaks else []
    if r.get('kind') == 'readlink-cwd':
        answers = pair.run(readlink_probe(os.path.realpath(base), bytes.fromhex(r['target']), r['decoy']))
        return [Failure(SIG_READLINK_CWD, str(answers), r)] if len(set(answers.values())) != 1 else []
    if r.get('kind') == 'sftp-mget-tree':
        dest = os.path.join(base, 'outer', 'dest')
        os.makedirs(dest)
        with open(os.path.join(base, 'outer', 'canary.txt'), 'wb') as f:
            f.write(b'canary')
        before = snapshot(base, skip=dest)
        pair.run(run_mget(tree_from_tokens(r['tree']), dest, bytes.fromhex(r['pattern'])))
        return [Failure(SIG_MGET, 'created paths outside destination', r)] if snapshot(base, skip=dest) != before else []
    if r.get('kind') in ('sftp-get-tree', 'scp-records'):
        dest = os.path.join(base, 'outer', 'dest')
        mode = r.get('dest_mode', 'dir')
        os.makedirs(dest if mode == 'dir' else os.path.dirname(dest))
        if mode == 'file':
            with open(dest, 'wb') as f:
                f.write(b'old')
        with open(os.path.join(base, 'outer', 'canary.txt'), 'wb') as f:
            f.write(b'canary')
        before = snapshot(base, skip=dest)
        if r['kind'] == 'sftp-get-tree':
            pair.run(run_get(tree_from_tokens(r['tree']), dest))
        else:
            pair.run(run_scp_sink([(k, bytes.fromhex(n)) for k, n in r['records']], dest))
        after = snapshot(base, skip=dest)
        return [Failure('download-escape', 'created paths outside destination', r)] if after != before else []
    return []
