"""Translator for C12: regenerates lean/AsyncsshModel/Gen/C12.lean from the current asyncssh/sftp.py.

Translated from the Python AST (integer expressions over `Int`, conditions as `Prop`):
  * `_SFTPParallelIO._start_tasks`: loop condition, block size, the `(offset, size)` handed to `_start_task`,
    the two counter updates;
  * `_SFTPParallelIO.iter`: the continuation test and the `(offset, size)` of the re-request;
  * `_SFTPFileReader.run`: `pos`, `pad`, the padding test, the slice bounds of the reassembly;
  * `_SFTPFileWriter.run_task`: `pos`, the slice bounds of the block, the reported count;
  * `_SFTPFileCopier.run`: the end-of-transfer size check;
  * `SFTPClient._begin_copy` / `SFTPClientFile.__init__`: the default `max_requests`;
  * `SFTPClientFile.read` / `.write`: the parallel-path tests and the new file position (in bytes of the encoded data);
  * `_SFTPParallelIO.iter`: who takes SFTPEOFError for the end of the file; `SFTPServer.write`: loop until written.
Anything the translator does not recognise raises `translate.Untranslatable`.
"""

from __future__ import annotations

import ast
import os
from typing import Any, Dict, List, Optional, Tuple

import translate as T
import vlib

SRC = 'asyncssh/sftp.py'


def _walk_sorted(node: ast.AST, kind: Any) -> List[Any]:
    found = [n for n in ast.walk(node) if isinstance(n, kind)]
    found.sort(key=lambda n: (n.lineno, n.col_offset))
    return found


def _attr_name(n: ast.AST) -> Optional[str]:
    """`self._x` / `self.x` -> 'self._x'; `x` -> 'x'; `self._handler.limits.max_read_len` -> dotted"""
    try:
        return ast.unparse(n)
    except Exception:  # pragma: no cover
        return None


def cond(n: ast.AST, env: Dict[str, str]) -> str:
    """Boolean context: integers are true when non-zero (Python truthiness of `int`)."""
    if isinstance(n, ast.BoolOp):
        op = ' ∧ ' if isinstance(n.op, ast.And) else ' ∨ '
        return '(' + op.join(cond(v, env) for v in n.values) + ')'
    if isinstance(n, ast.UnaryOp) and isinstance(n.op, ast.Not):
        return f'(¬ {cond(n.operand, env)})'
    if isinstance(n, ast.Compare):
        return T.expr_to_lean(n, env)
    src = ast.unparse(n)
    if src in env:
        if env[src].startswith('?'):            # a boolean variable
            return f'({env[src][1:]} = true)'
        return f'({env[src]} ≠ 0)'
    raise T.Untranslatable(f'condition {src!r}')


def expr(n: ast.AST, env: Dict[str, str]) -> str:
    return T.expr_to_lean(n, {k: v for k, v in env.items() if not v.startswith('?')})


def _call_named(node: ast.AST, name: str) -> ast.Call:
    for c in _walk_sorted(node, ast.Call):
        f = c.func
        if (isinstance(f, ast.Attribute) and f.attr == name) or (isinstance(f, ast.Name) and f.id == name):
            return c
    raise T.Untranslatable(f'call of {name} not found')


def _aug(node: ast.AST, target: str) -> ast.AugAssign:
    for a in _walk_sorted(node, ast.AugAssign):
        if ast.unparse(a.target) == target:
            return a
    raise T.Untranslatable(f'augmented assignment to {target} not found')


def _aug_expr(a: ast.AugAssign) -> ast.AST:
    return ast.BinOp(left=a.target, op=a.op, right=a.value)


def _if_with(node: ast.AST, needle: str) -> ast.If:
    for i in _walk_sorted(node, ast.If):
        if needle in ast.unparse(i.test):
            return i
    raise T.Untranslatable(f'if … {needle} … not found')


def _slice_bounds(sub: ast.Subscript) -> Tuple[ast.AST, ast.AST]:
    s = sub.slice
    if not isinstance(s, ast.Slice) or s.lower is None or s.upper is None or s.step is not None:
        raise T.Untranslatable('slice with both bounds expected: ' + ast.unparse(sub))
    return s.lower, s.upper


def generate() -> Tuple[str, Dict[str, Any]]:
    src = T.read_source(SRC)
    tree = ast.parse(src)
    defs: List[Tuple[str, str, str, str, str]] = []     # (doc, name, params, type, body)
    info: Dict[str, Any] = {'items': []}
    errors: List[str] = []

    def add(doc: str, name: str, params: List[str], typ: str, body: str, bools: Tuple[str, ...] = ()) -> None:
        ps = ' '.join(f'({p} : {"Bool" if p in bools else "Int"})' for p in params)
        defs.append((doc, name, ps, typ, body))
        info['items'].append(name)

    # --- constants ------------------------------------------------------------------------------
    consts: Dict[str, int] = {}
    for node in tree.body:
        if isinstance(node, ast.Assign) and len(node.targets) == 1 and isinstance(node.targets[0], ast.Name) and \
                node.targets[0].id in ('MAX_SFTP_READ_LEN', 'MAX_SFTP_WRITE_LEN'):
            consts[node.targets[0].id] = int(eval(compile(ast.Expression(node.value), '<c12>', 'eval'), {}))
    if set(consts) != {'MAX_SFTP_READ_LEN', 'MAX_SFTP_WRITE_LEN'}:
        raise T.Untranslatable('MAX_SFTP_READ_LEN / MAX_SFTP_WRITE_LEN not found')
    info['consts'] = consts

    # Locals and parameters are recognised by their role, not by their name (a renamed local is harmless).
    def params(fn: Any) -> List[str]:
        return [a.arg for a in fn.args.args if a.arg != 'self']

    def name_assigns(node: ast.AST) -> List[ast.Assign]:
        return [a for a in _walk_sorted(node, ast.Assign)
                if len(a.targets) == 1 and isinstance(a.targets[0], ast.Name)]

    # --- _SFTPParallelIO._start_tasks --------------------------------------------------------------
    try:
        st = T.find_def(tree, '_SFTPParallelIO._start_tasks')
        loops = _walk_sorted(st, ast.While)
        if len(loops) != 1:
            raise T.Untranslatable('_start_tasks: one while loop expected')
        loop = loops[0]
        mins = [a for a in name_assigns(loop) if isinstance(a.value, ast.Call) and
                isinstance(a.value.func, ast.Name) and a.value.func.id == 'min']
        if len(mins) != 1:
            raise T.Untranslatable('_start_tasks: one `size = min(...)` expected')
        size_assign = mins[0]
        sv = size_assign.targets[0].id      # type: ignore
        env = {'self._bytes_left': 'bytes_left', 'len(self._pending)': 'n_pending',
               'self._max_requests': 'max_requests', 'self._block_size': 'block_size',
               'self._offset': 'offset', sv: 'size'}
        add('`while self._bytes_left and len(self._pending) < self._max_requests`', 'startCond',
            ['bytes_left', 'n_pending', 'max_requests'], 'Prop', cond(loop.test, env))
        add('`size = min(self._bytes_left, self._block_size)`', 'blockSize', ['bytes_left', 'block_size'], 'Int',
            expr(size_assign.value, env))
        call = _call_named(loop, '_start_task')
        if len(call.args) != 2:
            raise T.Untranslatable('_start_task(offset, size) expected')
        add('offset handed to `_start_task` by `_start_tasks`', 'taskOffset', ['offset', 'size'], 'Int',
            expr(call.args[0], env))
        add('size handed to `_start_task` by `_start_tasks`', 'taskSize', ['offset', 'size'], 'Int',
            expr(call.args[1], env))
        aug_off, aug_left = _aug(loop, 'self._offset'), _aug(loop, 'self._bytes_left')
        add('`self._offset += size`', 'nextOffset', ['offset', 'size'], 'Int', expr(_aug_expr(aug_off), env))
        add('`self._bytes_left -= size`', 'nextLeft', ['bytes_left', 'size'], 'Int', expr(_aug_expr(aug_left), env))
        # the block size is computed first and the task is created before `_offset` moves; the two counter
        # updates are independent of each other
        if not (size_assign.lineno < call.lineno < aug_off.lineno and size_assign.lineno < aug_left.lineno):
            raise T.Untranslatable('_start_tasks: unexpected statement order')
        if len(_walk_sorted(loop, ast.AugAssign)) != 2:
            raise T.Untranslatable('_start_tasks: unexpected extra update in the loop')

    except Exception as e:      # keep going: the file is written from this tree, then the error is raised
        errors.append('_SFTPParallelIO._start_tasks' + ': ' + str(e))

    # --- _SFTPParallelIO.iter ----------------------------------------------------------------------
    try:
        it = T.find_def(tree, '_SFTPParallelIO.iter')
        unpack = [a for a in _walk_sorted(it, ast.Assign)
                  if isinstance(a.targets[0], ast.Tuple) and isinstance(a.value, ast.Call) and
                  isinstance(a.value.func, ast.Attribute) and a.value.func.attr == 'result']
        if len(unpack) != 1 or len(unpack[0].targets[0].elts) != 4:       # type: ignore
            raise T.Untranslatable('iter: `offset, size, count, result = task.result()` expected')
        vo, vs, vc, _vr = [ast.unparse(e) for e in unpack[0].targets[0].elts]     # type: ignore
        st_ret = _walk_sorted(T.find_def(tree, '_SFTPParallelIO._start_task'), ast.Return)
        if len(st_ret) != 1 or not isinstance(st_ret[0].value, ast.Tuple) or \
                [ast.unparse(e) for e in st_ret[0].value.elts][:2] != params(T.find_def(tree, '_SFTPParallelIO._start_task')):
            raise T.Untranslatable('_start_task: `return offset, size, count, result` expected')
        env = {vc: 'count', vs: 'size', vo: 'offset'}
        conts = [i for i in _walk_sorted(it, ast.If)
                 if any(isinstance(c.func, ast.Attribute) and c.func.attr == '_start_task'
                        for c in _walk_sorted(i, ast.Call))]
        if len(conts) != 1:
            raise T.Untranslatable('iter: one conditional re-request expected')
        cont = conts[0]
        add('`if count and count < size` (re-request after a short reply)', 'contCond', ['count', 'size'], 'Prop',
            cond(cont.test, env))
        call = _call_named(cont, '_start_task')
        add('offset of the re-request', 'contOffset', ['offset', 'size', 'count'], 'Int', expr(call.args[0], env))
        add('size of the re-request', 'contSize', ['offset', 'size', 'count'], 'Int', expr(call.args[1], env))

        # what `iter` does with SFTPEOFError: the end of the file for everybody (the code before the repair), or
        # only for the class(es) that say so (`_stop_at_eof`-style class attribute), a failed block otherwise
        eofh = [h for h in _walk_sorted(it, ast.ExceptHandler) if h.type is not None and
                'SFTPEOFError' in ast.unparse(h.type)]
        if len(eofh) != 1:
            raise T.Untranslatable('iter: one `except SFTPEOFError` handler expected')
        stop = "self._bytes_left = 0"

        def class_flag(cls: str, attr: str) -> Optional[bool]:
            for st_ in T.find_def(tree, cls).body:       # type: ignore
                if isinstance(st_, ast.Assign) and len(st_.targets) == 1 and ast.unparse(st_.targets[0]) == attr \
                        and isinstance(st_.value, ast.Constant) and isinstance(st_.value.value, bool):
                    return st_.value.value
            return None
        hb = eofh[0].body
        if len(hb) == 1 and ast.unparse(hb[0]) == stop:
            eof_is_error = False
        elif len(hb) == 1 and isinstance(hb[0], ast.If) and isinstance(hb[0].test, ast.Attribute) and \
                ast.unparse(hb[0].test.value) == 'self' and [ast.unparse(x) for x in hb[0].body] == [stop] and \
                len(hb[0].orelse) == 1 and eofh[0].name is not None and \
                ast.unparse(hb[0].orelse[0]) == f'exceptions.append({eofh[0].name})':
            attr = hb[0].test.attr
            vals = {c: class_flag(c, attr) for c in ('_SFTPParallelIO', '_SFTPFileReader', '_SFTPFileWriter',
                                                     '_SFTPFileCopier')}
            if vals['_SFTPParallelIO'] is not False or vals['_SFTPFileReader'] is not True:
                raise T.Untranslatable(f'iter: {attr} must be False by default and True for the reader')
            if vals['_SFTPFileWriter'] is None and vals['_SFTPFileCopier'] is None:
                eof_is_error = True
            elif vals['_SFTPFileWriter'] is True and vals['_SFTPFileCopier'] is True:
                eof_is_error = False
            else:
                raise T.Untranslatable(f'iter: writer and copier differ on {attr}')
        else:
            raise T.Untranslatable('iter: unrecognised SFTPEOFError handler')
        # the collected exception is what is raised (so an EOF status that is a failed block does raise)
        if 'raise exceptions[0]' not in ast.unparse(it):
            raise T.Untranslatable('iter: `raise exceptions[0]` expected')
        info['write_eof_is_error'] = eof_is_error

    except Exception as e:      # keep going: the file is written from this tree, then the error is raised
        errors.append('_SFTPParallelIO.iter' + ': ' + str(e))

    # --- SFTPServer.write: one write() whose count is dropped, or a loop until the block is complete ------
    try:
        sw = T.find_def(tree, 'SFTPServer.write')
        sp_ = params(sw)
        if len(sp_) != 3:
            raise T.Untranslatable('SFTPServer.write(file_obj, offset, data) expected')
        _pf, _po, pd = sp_
        wcalls = [c for c in _walk_sorted(sw, ast.Call) if isinstance(c.func, ast.Attribute) and c.func.attr == 'write']
        loops = _walk_sorted(sw, ast.While)
        if len(wcalls) != 1:
            raise T.Untranslatable('SFTPServer.write: one file write() call expected')
        if not loops:
            rets = _walk_sorted(sw, ast.Return)
            if len(rets) != 1 or rets[0].value is not wcalls[0] or [ast.unparse(a) for a in wcalls[0].args] != [pd]:
                raise T.Untranslatable('SFTPServer.write: `return file_obj.write(data)` expected')
            writes_all = False
            add('(no loop in this tree: one write(), its count is returned and dropped)', 'writeLoopCond',
                ['written', 'len_data'], 'Prop', 'False')
            add('(no loop in this tree)', 'writeLoopNext', ['written', 'count'], 'Int', 'written')
        else:
            if len(loops) != 1 or loops[0].orelse:
                raise T.Untranslatable('SFTPServer.write: one loop expected')
            loop = loops[0]
            augs = _walk_sorted(loop, ast.AugAssign)
            if len(augs) != 1 or not isinstance(augs[0].target, ast.Name):
                raise T.Untranslatable('SFTPServer.write: one counter update in the loop expected')
            vw = augs[0].target.id
            cnts = [a for a in name_assigns(loop) if a.value is wcalls[0]]
            if len(cnts) != 1:
                raise T.Untranslatable('SFTPServer.write: `count = file_obj.write(...)` in the loop expected')
            vc = cnts[0].targets[0].id      # type: ignore
            inits = [a for a in name_assigns(sw) if a.targets[0].id == vw and ast.unparse(a.value) == '0'   # type: ignore
                     and a.lineno < loop.lineno]
            if len(inits) != 1:
                raise T.Untranslatable('SFTPServer.write: the counter must start at 0')
            # what is handed to write() is the unwritten rest of the block: <view of data>[written:]
            arg = wcalls[0].args[0] if len(wcalls[0].args) == 1 else None
            views = {a.targets[0].id for a in name_assigns(sw)       # type: ignore
                     if ast.unparse(a.value) == f'memoryview({pd})'} | {pd}
            if not (isinstance(arg, ast.Subscript) and ast.unparse(arg.value) in views and
                    isinstance(arg.slice, ast.Slice) and arg.slice.upper is None and arg.slice.step is None and
                    arg.slice.lower is not None and ast.unparse(arg.slice.lower) == vw):
                raise T.Untranslatable('SFTPServer.write: write(data[written:]) expected')
            # a write that makes no progress must raise (otherwise the loop would spin)
            guards = [i for i in _walk_sorted(loop, ast.If) if ast.unparse(i.test) == f'not {vc}' and
                      len(i.body) == 1 and isinstance(i.body[0], ast.Raise) and i.lineno < augs[0].lineno]
            if len(guards) != 1:
                raise T.Untranslatable('SFTPServer.write: `if not count: raise` before the counter update expected')
            if any(isinstance(x, (ast.Break, ast.Return)) for x in ast.walk(loop)):
                raise T.Untranslatable('SFTPServer.write: the loop has another exit')
            env = {vw: 'written', f'len({pd})': 'len_data', vc: 'count'}
            writes_all = True
            add('`while written < len(data)`: the loop of `SFTPServer.write` goes on while part of the block is unwritten',
                'writeLoopCond', ['written', 'len_data'], 'Prop', cond(loop.test, env))
            add('`written += count`', 'writeLoopNext', ['written', 'count'], 'Int', expr(_aug_expr(augs[0]), env))
        info['server_writes_all'] = writes_all

    except Exception as e:      # keep going: the file is written from this tree, then the error is raised
        errors.append('SFTPServer.write' + ': ' + str(e))

    # --- _SFTPFileReader.run -----------------------------------------------------------------------
    try:
        rr = T.find_def(tree, '_SFTPFileReader.run')
        fors = _walk_sorted(rr, ast.AsyncFor)
        if len(fors) != 1 or ast.unparse(fors[0].iter) != 'self.iter()' or not isinstance(fors[0].target, ast.Tuple) \
                or len(fors[0].target.elts) != 2:
            raise T.Untranslatable('_SFTPFileReader.run: `async for offset, data in self.iter()` expected')
        vo, vd = [ast.unparse(e) for e in fors[0].target.elts]
        bufs = [a for a in name_assigns(rr) if ast.unparse(a.value) == 'bytearray()']
        loc = name_assigns(fors[0])
        if len(bufs) != 1 or len(loc) != 2:
            raise T.Untranslatable('_SFTPFileReader.run: result buffer / pos / pad not recognised')
        vres = bufs[0].targets[0].id       # type: ignore
        vpos, vpad = loc[0].targets[0].id, loc[1].targets[0].id        # type: ignore
        env = {vo: 'offset', 'self._start': 'start', vpos: 'pos', f'len({vres})': 'len_result',
               vpad: 'pad', f'len({vd})': 'len_data'}
        add('`pos = offset - self._start`', 'readerPos', ['offset', 'start'], 'Int', expr(loc[0].value, env))
        add('`pad = pos - len(result)`', 'readerPad', ['pos', 'len_result'], 'Int', expr(loc[1].value, env))
        pad_ifs = _walk_sorted(fors[0], ast.If)
        if len(pad_ifs) != 1 or pad_ifs[0].orelse or len(pad_ifs[0].body) != 1 or \
                ast.unparse(pad_ifs[0].body[0]) not in (f"{vres} += {vpad} * b'\\x00'", f"{vres} += b'\\x00' * {vpad}"):
            raise T.Untranslatable('_SFTPFileReader.run: zero padding `result += pad * b"\\0"` expected')
        add('`if pad > 0` (zero-fill up to pos)', 'readerPadCond', ['pad'], 'Prop', cond(pad_ifs[0].test, env))
        subs = [a for a in _walk_sorted(rr, ast.Assign) if isinstance(a.targets[0], ast.Subscript)]
        if len(subs) != 1 or ast.unparse(subs[0].targets[0].value) != vres or ast.unparse(subs[0].value) != vd \
                or subs[0].lineno < pad_ifs[0].lineno:
            raise T.Untranslatable('_SFTPFileReader.run: `result[a:b] = data` after the padding expected')
        lo, hi = _slice_bounds(subs[0].targets[0])
        add('lower bound of `result[pos:pos+len(data)] = data`', 'readerLo', ['pos', 'len_data'], 'Int', expr(lo, env))
        add('upper bound of `result[pos:pos+len(data)] = data`', 'readerHi', ['pos', 'len_data'], 'Int', expr(hi, env))

    except Exception as e:      # keep going: the file is written from this tree, then the error is raised
        errors.append('_SFTPFileReader.run' + ': ' + str(e))

    # --- _SFTPFileWriter.run_task ------------------------------------------------------------------
    try:
        wr = T.find_def(tree, '_SFTPFileWriter.run_task')
        if len(params(wr)) != 2:
            raise T.Untranslatable('_SFTPFileWriter.run_task(offset, size) expected')
        po, ps = params(wr)
        loc = name_assigns(wr)
        if len(loc) != 1:
            raise T.Untranslatable('_SFTPFileWriter.run_task: one local (pos) expected')
        vpos = loc[0].targets[0].id        # type: ignore
        env = {po: 'offset', 'self._start': 'start', vpos: 'pos', ps: 'size'}
        add('`pos = offset - self._start`', 'writerPos', ['offset', 'start'], 'Int', expr(loc[0].value, env))
        wcall = _call_named(wr, 'write')
        if len(wcall.args) != 3 or ast.unparse(wcall.args[1]) != po or not isinstance(wcall.args[2], ast.Subscript) \
                or ast.unparse(wcall.args[2].value) != 'self._data' or ast.unparse(wcall.args[0]) != 'self._handle':
            raise T.Untranslatable('_SFTPFileWriter.run_task: write(handle, offset, self._data[a:b]) expected')
        lo, hi = _slice_bounds(wcall.args[2])
        add('lower bound of `self._data[pos:pos+size]`', 'writerLo', ['pos', 'size'], 'Int', expr(lo, env))
        add('upper bound of `self._data[pos:pos+size]`', 'writerHi', ['pos', 'size'], 'Int', expr(hi, env))
        rets = _walk_sorted(wr, ast.Return)
        if len(rets) != 1 or not isinstance(rets[0].value, ast.Tuple) or len(rets[0].value.elts) != 2:
            raise T.Untranslatable('_SFTPFileWriter.run_task: `return count, result` expected')
        add('count reported by a finished write', 'writerCount', ['size'], 'Int', expr(rets[0].value.elts[0], env))

    except Exception as e:      # keep going: the file is written from this tree, then the error is raised
        errors.append('_SFTPFileWriter.run_task' + ': ' + str(e))

    # --- _SFTPFileCopier ---------------------------------------------------------------------------
    try:
        cr = T.find_def(tree, '_SFTPFileCopier.run')
        env = {'self._bytes_copied': 'bytes_copied', 'self._total_bytes': 'total_bytes', 'self._sparse': '?sparse'}
        chk = _if_with(cr, 'self._bytes_copied !=')
        if not any(isinstance(s, ast.Raise) for s in ast.walk(chk)):
            raise T.Untranslatable('_SFTPFileCopier.run: the size check no longer raises')
        add('`if self._bytes_copied != self._total_bytes and not self._sparse: raise`', 'sizeCheckFails',
            ['bytes_copied', 'total_bytes', 'sparse'], 'Prop', cond(chk.test, env), bools=('sparse',))
        ct = T.find_def(tree, '_SFTPFileCopier.run_task')
        if len(params(ct)) != 2:
            raise T.Untranslatable('_SFTPFileCopier.run_task(offset, size) expected')
        po, ps = params(ct)
        rd = _call_named(ct, 'read')
        wc = _call_named(ct, 'write')
        datas = [a for a in name_assigns(ct) if isinstance(a.value, ast.Await) and a.value.value is rd]
        if len(datas) != 1:
            raise T.Untranslatable('_SFTPFileCopier.run_task: `data = await self._src.read(...)` expected')
        vd = datas[0].targets[0].id        # type: ignore
        lens = {a.targets[0].id for a in name_assigns(ct) if ast.unparse(a.value) == f'len({vd})'}   # type: ignore
        rets = _walk_sorted(ct, ast.Return)
        if len(rets) != 1 or not isinstance(rets[0].value, ast.Tuple) or len(rets[0].value.elts) != 2 or \
                any(ast.unparse(e) not in lens | {f'len({vd})'} for e in rets[0].value.elts):
            raise T.Untranslatable('_SFTPFileCopier.run_task: `return len(data), len(data)` expected')
        if [ast.unparse(a) for a in rd.args] != [ps, po] or [ast.unparse(a) for a in wc.args] != [vd, po] or \
                ast.unparse(rd.func) != 'self._src.read' or ast.unparse(wc.func) != 'self._dst.write' or \
                rd.lineno > wc.lineno:
            raise T.Untranslatable('_SFTPFileCopier.run_task: read(size, offset) then write(data, offset) expected')
        # the copier counts what the iterator reports: `self._bytes_copied += datalen`
        for_iters = [f for f in _walk_sorted(cr, ast.AsyncFor) if ast.unparse(f.iter) == 'self.iter()']
        if len(for_iters) != 1 or not isinstance(for_iters[0].target, ast.Tuple) or len(for_iters[0].target.elts) != 2:
            raise T.Untranslatable('_SFTPFileCopier.run: `async for _, datalen in self.iter()` expected')
        vlen = ast.unparse(for_iters[0].target.elts[1])
        if ast.unparse(_aug_expr(_aug(for_iters[0], 'self._bytes_copied'))) != f'self._bytes_copied + {vlen}':
            raise T.Untranslatable('_SFTPFileCopier.run: `self._bytes_copied += datalen` expected')

    except Exception as e:      # keep going: the file is written from this tree, then the error is raised
        errors.append('_SFTPFileCopier' + ': ' + str(e))

    # --- two optional safety steps (present or not in the tree being checked) -----------------------------
    try:
        # (a) `_SFTPFileReader.run_task`: `if not data: raise ...` before the return
        rt = T.find_def(tree, '_SFTPFileReader.run_task')
        ifs = _walk_sorted(rt, ast.If)
        rcall = _call_named(rt, 'read')
        rpo, rps = params(rt)
        if [ast.unparse(a) for a in rcall.args] != ['self._handle', rpo, rps]:
            raise T.Untranslatable('_SFTPFileReader.run_task: read(handle, offset, size) expected')
        rdatas = [a for a in _walk_sorted(rt, ast.Assign) if isinstance(a.value, ast.Await) and a.value.value is rcall
                  and isinstance(a.targets[0], ast.Tuple) and len(a.targets[0].elts) == 2]
        if len(rdatas) != 1:
            raise T.Untranslatable('_SFTPFileReader.run_task: `data, _ = await self._handler.read(...)` expected')
        rvd = ast.unparse(rdatas[0].targets[0].elts[0])
        renv = {rvd: 'len_data', f'len({rvd})': 'len_data', rps: 'size'}     # bytes are true when non-empty
        if not ifs:
            rejects = False
            add('(no such check in this tree)', 'rejectCond', ['len_data', 'size'], 'Prop', 'False')
        elif len(ifs) == 1 and len(ifs[0].body) == 1 and isinstance(ifs[0].body[0], ast.Raise) and \
                not ifs[0].orelse and ifs[0].lineno > rdatas[0].lineno:
            rejects = True
            add('`if not data and size: raise SFTPFailure(...)` (an empty reply to a non-empty request)',
                'rejectCond', ['len_data', 'size'], 'Prop', cond(ifs[0].test, renv))
            exc_name = ast.unparse(ifs[0].body[0].exc.func) if isinstance(ifs[0].body[0].exc, ast.Call) else ''
            if exc_name not in ('SFTPFailure', 'SFTPBadMessage', 'SFTPError', 'OSError'):
                raise T.Untranslatable('_SFTPFileReader.run_task: the check raises something `iter` does not collect')
        else:
            raise T.Untranslatable('_SFTPFileReader.run_task: unrecognised conditional')
        info['reader_rejects_empty'] = rejects
        # (b) `_SFTPFileCopier.run`: extend a sparse destination whose source ends in a hole
        ext_ifs = [i for i in _walk_sorted(cr, ast.If) if 'range_end' in ast.unparse(i.test)]
        env = {'self._sparse': '?sparse', 'range_end': 'range_end', 'self._total_bytes': 'total_bytes',
               'offset': 'offset', 'length': 'length', 'self._offset': 'offset', 'self._bytes_left': 'length'}
        if not ext_ifs:
            extends = False
            if 'range_end' in ast.unparse(cr):
                raise T.Untranslatable('_SFTPFileCopier.run: range_end is computed but not used in a condition')
            add('(no such step in this tree)', 'extendCond', ['sparse', 'range_end', 'total_bytes'], 'Prop', 'False',
                bools=('sparse',))
            add('(no such step in this tree)', 'extendOffset', ['total_bytes'], 'Int', '(0 : Int)')
            add('(no such step in this tree)', 'rangeEndStep', ['range_end', 'offset', 'length'], 'Int', 'range_end')
        else:
            if len(ext_ifs) != 1 or ext_ifs[0].orelse:
                raise T.Untranslatable('_SFTPFileCopier.run: unrecognised use of range_end')
            extends = True
            wcalls = [c for c in _walk_sorted(ext_ifs[0], ast.Call)
                      if isinstance(c.func, ast.Attribute) and c.func.attr == 'write']
            if len(wcalls) != 1 or ast.unparse(wcalls[0].func.value) != 'self._dst' or len(wcalls[0].args) != 2 or \
                    ast.unparse(wcalls[0].args[0]) != "b'\\x00'":
                raise T.Untranslatable("_SFTPFileCopier.run: `await self._dst.write(b'\\0', offset)` expected")
            add('`if self._sparse and range_end < self._total_bytes` (source ends in a hole)', 'extendCond',
                ['sparse', 'range_end', 'total_bytes'], 'Prop', cond(ext_ifs[0].test, env), bools=('sparse',))
            add('offset of the zero byte that gives the destination its full length', 'extendOffset',
                ['total_bytes'], 'Int', expr(wcalls[0].args[1], env))
            steps = [a for a in _walk_sorted(cr, ast.Assign) if ast.unparse(a.targets[0]) == 'range_end']
            if len(steps) != 3 or ast.unparse(steps[0].value) != '0':
                raise T.Untranslatable('_SFTPFileCopier.run: range_end = 0 and one update per loop expected')
            bodies = {expr(a.value, env) for a in steps[1:]}
            if len(bodies) != 1:
                raise T.Untranslatable('_SFTPFileCopier.run: the two range_end updates differ')
            add('`range_end = max(range_end, offset + length)`', 'rangeEndStep', ['range_end', 'offset', 'length'],
                'Int', bodies.pop())
        info['copier_extends_sparse'] = extends

    except Exception as e:      # keep going: the file is written from this tree, then the error is raised
        errors.append('two optional safety steps (present or not in the tree being checked)' + ': ' + str(e))

    # --- default max_requests ----------------------------------------------------------------------
    try:
        bc = T.find_def(tree, 'SFTPClient._begin_copy')
        env = {'max_requests': 'max_requests', 'block_size': 'block_size',
               'MAX_SFTP_READ_LEN': f'({consts["MAX_SFTP_READ_LEN"]} : Int)'}
        mi = _if_with(bc, 'max_requests <=')
        add('`if max_requests <= 0` in `_begin_copy`', 'copyDefaultCond', ['max_requests'], 'Prop', cond(mi.test, env))
        add('default `max_requests` of get/put/copy', 'copyDefaultMaxRequests', ['block_size'], 'Int',
            expr(T.find_assign(mi, 'max_requests').value, env))
        fi = T.find_def(tree, 'SFTPClientFile.__init__')
        env = {'max_requests': 'max_requests', 'self.read_len': 'read_len',
               'MAX_SFTP_READ_LEN': f'({consts["MAX_SFTP_READ_LEN"]} : Int)'}
        mi = _if_with(fi, 'max_requests <=')
        inner = [i for i in _walk_sorted(mi, ast.If) if i is not mi]
        if len(inner) != 1 or ast.unparse(inner[0].test) != 'self.read_len':
            raise T.Untranslatable('SFTPClientFile.__init__: default max_requests has a new shape')
        add('default `max_requests` of a file object with a block size', 'fileDefaultMaxRequests', ['read_len'], 'Int',
            expr(T.find_assign(inner[0], 'max_requests', 0).value, env))
        add('default `max_requests` of a file object without a block size', 'fileDefaultMaxRequests0', [], 'Int',
            expr(T.find_assign(inner[0], 'max_requests', 1).value, env))

    except Exception as e:      # keep going: the file is written from this tree, then the error is raised
        errors.append('default max_requests' + ': ' + str(e))

    # --- SFTPClientFile.read / write ---------------------------------------------------------------
    try:
        fr = T.find_def(tree, 'SFTPClientFile.read')
        env = {'self.read_len': 'read_len', 'size': 'size', 'self._handler.limits.max_read_len': 'max_read_len',
               'offset': 'offset', 'len(data)': 'len_data'}
        # `size is None or size < 0` (read to the end of the file), possibly kept in a local for the path choice
        toend = [a for a in name_assigns(fr) if ast.unparse(a.value) == 'size is None or size < 0']
        endifs = [i for i in _walk_sorted(fr, ast.If) if '_end()' in ast.unparse(i.body) and
                  ast.unparse(i.test) in ['size is None or size < 0'] + [a.targets[0].id for a in toend]]   # type: ignore
        if len(endifs) != 1 or len(toend) > 1:
            raise T.Untranslatable('SFTPClientFile.read: `if size is None or size < 0: size = _end() - offset` expected')
        ptest = _if_with(fr, 'self.read_len').test
        uses = False
        if toend:
            vte = toend[0].targets[0].id      # type: ignore
            env[vte] = '?read_to_end'
            uses = any(isinstance(x, ast.Name) and x.id == vte for x in ast.walk(ptest))
        add('`if self.read_len and (read_to_end or size > min(self.read_len, max_read_len))` (parallel read path; '
            'without the `read_to_end` part in a tree before the short-read repair)', 'readParallelCond',
            ['read_len', 'max_read_len', 'size', 'read_to_end'], 'Prop', cond(ptest, env), bools=('read_to_end',))
        info['read_to_end_uses_reader'] = uses
        add('`self._offset = offset + len(data)`', 'readNewOffset', ['offset', 'len_data'], 'Int',
            expr(T.find_assign(fr, 'self._offset').value, env))
        fw = T.find_def(tree, 'SFTPClientFile.write')
        env = {'self.write_len': 'write_len', 'datalen': 'datalen', 'offset': 'offset', 'self._appending': '?appending'}
        add('`if self.write_len and datalen > self.write_len` (parallel write path)', 'writeParallelCond',
            ['write_len', 'datalen'], 'Prop', cond(_if_with(fw, 'self.write_len').test, env))
        # `datalen` is the number of BYTES handed to the server (the encoded form in text mode): the position
        # moves by what was written, not by the number of characters
        dl = [a for a in name_assigns(fw) if a.targets[0].id == 'datalen']      # type: ignore
        hw = _call_named(fw, 'write')
        pw = _call_named(fw, '_SFTPFileWriter')
        if len(dl) != 1 or not isinstance(dl[0].value, ast.Call) or ast.unparse(dl[0].value.func) != 'len' or \
                len(hw.args) != 3 or ast.unparse(dl[0].value.args[0]) != ast.unparse(hw.args[2]) or \
                ast.unparse(pw.args[-1]) != ast.unparse(hw.args[2]):
            raise T.Untranslatable('SFTPClientFile.write: `datalen = len(<the bytes handed to the handler>)` expected')
        vb = ast.unparse(hw.args[2])
        encs = [a for a in name_assigns(fw) if a.targets[0].id == vb]       # type: ignore
        if not encs or not any('.encode(self._encoding' in ast.unparse(a.value) for a in encs):
            raise T.Untranslatable('SFTPClientFile.write: the bytes written are not the encoded data')
        wo = T.find_assign(fw, 'self._offset').value
        if not isinstance(wo, ast.IfExp) or ast.unparse(wo.body) != 'None' or ast.unparse(wo.test) != 'self._appending':
            raise T.Untranslatable('SFTPClientFile.write: `None if self._appending else offset + datalen` expected')
        add('`offset + datalen` (new position after a non-append write)', 'writeNewOffset', ['offset', 'datalen'], 'Int',
            expr(wo.orelse, env))

    except Exception as e:      # keep going: the file is written from this tree, then the error is raised
        errors.append('SFTPClientFile.read / write' + ': ' + str(e))

    out = [T.header('C12', [SRC + ' (_SFTPParallelIO, _SFTPFileReader, _SFTPFileWriter, _SFTPFileCopier, '
                                  'SFTPClient._begin_copy, SFTPClientFile)']),
           'namespace AsyncsshModel.Gen.C12', '',
           f'def maxSftpReadLen : Int := {consts["MAX_SFTP_READ_LEN"]}',
           f'def maxSftpWriteLen : Int := {consts["MAX_SFTP_WRITE_LEN"]}', '',
           '/-- does `_SFTPFileReader.run_task` turn an empty DATA reply into an error? -/',
           f'def readerRejectsEmpty : Bool := {T.lean_bool(info.get("reader_rejects_empty", False))}', '',
           '/-- does `_SFTPFileCopier.run` extend a sparse destination whose source ends in a hole? -/',
           f'def copierExtendsSparse : Bool := {T.lean_bool(info.get("copier_extends_sparse", False))}', '',
           '/-- is an FX_EOF status in answer to a WRITE a failed block (EOF ends the transfer for the reader only)? -/',
           f'def writeEofIsError : Bool := {T.lean_bool(info.get("write_eof_is_error", False))}', '',
           '/-- does `SFTPServer.write` go on writing until the whole block is written (or an error is raised)? -/',
           f'def serverWritesAll : Bool := {T.lean_bool(info.get("server_writes_all", False))}', '',
           '/-- does `SFTPClientFile.read()` to the end of the file always use the reader (which re-requests after a '
           'short reply)? -/',
           f'def readToEndUsesReader : Bool := {T.lean_bool(info.get("read_to_end_uses_reader", False))}', '']
    for doc, name, ps, typ, body in defs:
        out.append(f'/-- {doc} -/')
        out.append(f'def {name} {ps} : {typ} :=\n  {body}'.replace('  :', ' :'))
        out.append('')
    for e in errors:
        out.append('-- NOT TRANSLATED: ' + e.replace('\n', ' '))
    out.append('end AsyncsshModel.Gen.C12')
    info['errors'] = errors
    return '\n'.join(out) + '\n', info


def translate(ctx: Any) -> Dict[str, Any]:
    text, info = generate()
    path = os.path.join(vlib.LEAN_DIR, 'AsyncsshModel', 'Gen', 'C12.lean')
    # the file always reflects the tree being checked (never a stale one); what could not be translated is
    # missing from it, so the theorems about it no longer build, and the error is raised on top of that
    info['changed'] = vlib.write_if_changed(path, text)
    info['file'] = 'lean/AsyncsshModel/Gen/C12.lean'
    if info['errors']:
        raise T.Untranslatable('; '.join(info['errors']))
    return info
