"""Shared machinery of the channel checks C07 / C08.

A *case* is {'chans': [cfg...], 'ops': [op...]}:
  cfg = {'wa','pa','wb','pb','keepA','keepB','pausedA' ('n'|'s'),'decA','decB'}
        optional 'enc' (+ 'errors'): BOTH ends are text channels with that encoding (profile 'textenc'); a write
        then carries the UTF-8 of the string handed to `chan.write` (whatever the channel encoding is)
        side a = client (window wa / max packet pa advertised by it), side b = server
  op  = ['app', side, i, 'write', dt|None, hex] | ['app', side, i, 'eof'|'close'|'pause'|'resume'] |
        ['app', side, i, 'arm', k] | ['deliver', side] | ['burst', k] (starting case: SUCCESS reply + k messages
        arrive at the client in ONE chunk, then its `_start_reading` task runs) |
        ['raw', side, i, 'data', dt|None, hex] | ['raw', side, i, 'adjust', n] | ['raw', side, i, 'eof'|'close']
        (a message a hostile peer puts on the wire regardless of any accounting, delivered to `side` at once) |
        ['req', 'a', i] (the client sends a SECOND `shell` request on the running channel; it travels behind the
        messages in flight and reaches the server through a later ['deliver', 'b']: result `in=R`, the reply shown
        as wire message `S` / `F`)

`model_lines(case)` renders the case for lean/Drivers/C07.lean; `RealRun` realises it on a real
SSHClientConnection / SSHServerConnection pair (raw SSHClientSession / SSHServerSession callback API, manual hub,
packet tap) and renders what is externally visible in the same format:
    ok ch=<i> in=<msg|-> msgs=<wire messages emitted> outs=<session callbacks>   |  api <err>  |  fatal <err>  | empty
"""
from __future__ import annotations

import asyncio
import random
from typing import Any, Callable, Dict, List, Optional, Tuple

import asyncssh
from asyncssh.packet import Boolean, String, UInt32, SSHPacket

import capture
import pair
from vlib import hx, unhx

MSG_DISCONNECT = 1
MSG_OPEN, MSG_CONFIRM = 90, 91
MSG_ADJUST, MSG_DATA, MSG_EXT, MSG_EOF, MSG_CLOSE = 93, 94, 95, 96, 97
MSG_REQUEST, MSG_SUCCESS, MSG_FAILURE = 98, 99, 100
DATA_MSGS = (MSG_ADJUST, MSG_DATA, MSG_EXT, MSG_EOF, MSG_CLOSE)
STOP_MSGS = DATA_MSGS + (MSG_REQUEST,)      # a `deliver` operation ends with one message of these kinds

PACKET_BUDGET = 6000          # packets one operation may emit before it is declared a spinning send loop

WINDOWS = [1, 2, 3, 5, 8, 16, 33, 64, 100, 256]
PKTSIZES = [1, 2, 3, 7, 16, 32, 100, 32768]
TEXT_ALPHABET = ['a', 'z', '\n', 'é', 'ß', '€', 'ࠀ', '￿', '😀', '\U0010ffff', '퟿', '']


class Budget(BaseException):
    """raised from the packet tap when one operation emitted more than PACKET_BUDGET packets"""


# ---------------------------------------------------------------------------------------------------------
# rendering shared by both sides


def show_dt(dt: Optional[int]) -> str:
    return '-' if dt is None else str(dt)


def show_list(xs: List[str]) -> str:
    return ','.join(xs) if xs else '-'


def model_lines(case: Dict[str, Any]) -> List[str]:
    lines = ['reset']
    for i, c in enumerate(case['chans']):
        lines.append('chan %d %d %d %d %d %d %d %s n %d %d' % (
            i, c['wa'], c['pa'], c['wb'], c['pb'], int(c['keepA']), int(c['keepB']), c.get('pausedA', 'n'),
            int(c.get('decA', False)), int(c.get('decB', False))))
    for op in case['ops']:
        lines += op_lines(op, case)
    return lines


def op_lines(op: List[Any], case: Dict[str, Any]) -> List[str]:
    if op[0] == 'app':
        _, side, i, kind = op[:4]
        if kind == 'write':
            return ['app %s %d write %s %s' % (side, i, show_dt(op[4]), op[5] or '-')]
        if kind == 'arm':
            return ['app %s %d arm %d' % (side, i, op[4])]
        return ['app %s %d %s' % (side, i, kind)]
    if op[0] == 'deliver':
        return ['deliver %s' % op[1]]
    if op[0] == 'burst':
        return ['deliver a'] * op[1] + ['app a %d start' % (len(case['chans']) - 1)]
    if op[0] == 'req':
        return ['req %s %d' % (op[1], op[2])]
    if op[0] == 'raw':
        _, side, i, kind = op[:4]
        if kind == 'data':
            return ['raw %s %d data %s %s' % (side, i, show_dt(op[4]), op[5] or '-')]
        if kind == 'adjust':
            return ['raw %s %d adjust %d' % (side, i, op[4])]
        return ['raw %s %d %s' % (side, i, kind)]
    raise ValueError(op)


def lines_per_op(op: List[Any]) -> int:
    return op[1] + 1 if op[0] == 'burst' else 1


def merge_model(lines: List[str]) -> str:
    """Combine the driver's answers to the lines of a burst into one result in the common format."""
    msgs: List[str] = []
    outs: List[str] = []
    ch = '?'
    for l in lines:
        if not l.startswith('ok '):
            if l == 'empty':
                continue
            if l.startswith('fatal decode'):
                part = l.split('outs=', 1)[1] if 'outs=' in l else '-'
                outs += [] if part == '-' else part.split(',')
                return 'fatal decode outs=' + show_list(outs)
            return l
        f = dict(p.split('=', 1) for p in l.split()[1:])
        ch = f['ch']
        if f['msgs'] != '-':
            msgs += f['msgs'].split(',')
        if f['outs'] != '-':
            outs += f['outs'].split(',')
    return 'ok ch=%s in=* msgs=%s outs=%s' % (ch, show_list(msgs), show_list(outs))


def parse_result(line: str) -> Dict[str, Any]:
    """'ok ...' -> {'kind':'ok','ch':i,'in':..,'msgs':[..],'outs':[..]}; others {'kind': 'api'|'fatal'|'empty'|..}"""
    ws = line.split()
    if not ws:
        return {'kind': 'none'}
    if ws[0] != 'ok':
        res: Dict[str, Any] = {'kind': ws[0], 'err': ws[1] if len(ws) > 1 else ''}
        for p in ws[2:]:
            if p.startswith('outs='):
                res['outs'] = [] if p[5:] == '-' else p[5:].split(',')
        return res
    f = dict(p.split('=', 1) for p in ws[1:])
    return {'kind': 'ok', 'ch': f['ch'], 'in': f['in'],
            'msgs': [] if f['msgs'] == '-' else f['msgs'].split(','),
            'outs': [] if f['outs'] == '-' else f['outs'].split(',')}


# ---------------------------------------------------------------------------------------------------------
# real side


class _Sess:
    def __init__(self, keep: bool, text: bool):
        self.ev: List[Tuple[Any, ...]] = []
        self.keep = keep
        self.text = text
        self.chan: Any = None
        self.pause_after: Optional[int] = None
        self.seen = 0
        # the application's own view of its pause: set when IT calls pause_reading(), cleared when IT calls
        # resume_reading(); a data callback in between is recorded with the index of the running operation
        self.app_paused = False
        self.pause_violations: List[int] = []
        self.clock: Callable[[], int] = lambda: -1
        self.started = 0

    def connection_made(self, chan: Any) -> None:
        self.chan = chan

    def session_started(self) -> None:
        self.started += 1

    def data_received(self, data: Any, datatype: Any) -> None:
        self.ev.append(('d', datatype, data))
        if self.app_paused:
            self.pause_violations.append(self.clock())
        if self.pause_after is not None:
            if self.pause_after == 0:
                self.pause_after = None
                self.chan.pause_reading()
                self.app_paused = True
            else:
                self.pause_after -= 1

    def eof_received(self) -> bool:
        self.ev.append(('e',))
        return self.keep

    def connection_lost(self, exc: Any) -> None:
        self.ev.append(('l', exc))

    def take(self) -> List[str]:
        new = self.ev[self.seen:]
        self.seen = len(self.ev)
        out = []
        for e in new:
            if e[0] == 'd':
                if isinstance(e[2], str):
                    out.append('t%s:%s' % (show_dt(e[1]), '.'.join(str(ord(ch)) for ch in e[2]) or '-'))
                else:
                    out.append('d%s:%s' % (show_dt(e[1]), hx(bytes(e[2]))))
            elif e[0] == 'e':
                out.append('e')
            else:
                out.append('l' if e[1] is None else 'l!' + type(e[1]).__name__)
        return out


class _ClientSess(_Sess, asyncssh.SSHClientSession):      # type: ignore
    pass


class _ServerSess(_Sess, asyncssh.SSHServerSession):      # type: ignore
    def shell_requested(self) -> bool:
        return True


def chan_encoding(cfg: Dict[str, Any], side: str) -> Optional[str]:
    """the `encoding` argument of the channel of side 'A' (client) / 'B' (server)"""
    if cfg.get('enc'):
        return str(cfg['enc'])
    return 'utf-8' if cfg.get('dec' + side) else None


def _server_factory(cfgs: List[Dict[str, Any]], made: List[_ServerSess]) -> Any:
    class Srv(asyncssh.SSHServer):
        def connection_made(self, conn: Any) -> None:
            self._conn = conn

        def begin_auth(self, username: str) -> bool:
            return False

        def session_requested(self) -> Any:
            cfg = cfgs[len(made)]
            chan = self._conn.create_server_channel(encoding=chan_encoding(cfg, 'B'), errors=cfg.get('errors', 'strict'),
                                                    window=cfg['wb'], max_pktsize=cfg['pb'])
            sess = _ServerSess(cfg['keepB'], chan_encoding(cfg, 'B') is not None)
            made.append(sess)
            return chan, sess
    return Srv


def show_payload(payload: bytes) -> Tuple[int, int, str]:
    """(type, recipient channel, rendering) of a channel message payload"""
    t = payload[0]
    pkt = SSHPacket(payload[1:])
    chan = pkt.get_uint32()
    if t == MSG_DATA:
        return t, chan, 'D-:%d' % len(pkt.get_string())
    if t == MSG_EXT:
        dt = pkt.get_uint32()
        return t, chan, 'D%d:%d' % (dt, len(pkt.get_string()))
    if t == MSG_ADJUST:
        return t, chan, 'A%d' % pkt.get_uint32()
    if t == MSG_EOF:
        return t, chan, 'E'
    if t == MSG_CLOSE:
        return t, chan, 'C'
    if t == MSG_REQUEST:
        return t, chan, 'R'
    if t == MSG_SUCCESS:
        return t, chan, 'S'
    if t == MSG_FAILURE:
        return t, chan, 'F'
    return t, chan, '?%d' % t


def classify_disconnect(payload: bytes) -> str:
    pkt = SSHPacket(payload[1:])
    _code = pkt.get_uint32()
    reason = pkt.get_string().decode('utf-8', 'replace')
    if 'Window exceeded' in reason:
        return 'windowExceeded'
    if 'Invalid extended data type' in reason:
        return 'badExtType'
    if 'Channel not open' in reason:
        return 'notOpen'
    if 'codec can\'t decode' in reason or 'decode' in reason:
        return 'decode'
    if 'Invalid channel number' in reason:
        return 'notOpen'
    return 'other:' + reason[:60]


class RealRun:
    """One client/server pair with the case's channels, driven operation by operation."""

    def __init__(self, case: Dict[str, Any]):
        self.case = case
        self.cfgs = case['chans']
        self.ssess: List[_ServerSess] = []
        self.csess: List[_ClientSess] = []
        self.cchan: List[Any] = []
        self.dead: Optional[str] = None
        self.count = 0
        self.wire: Dict[str, List[Tuple[int, str, int]]] = {'a': [], 'b': []}   # (chan, msg, op index) sent by side
        self.opened: List[Dict[str, int]] = []
        self.op_index = -1
        self.results: List[str] = []
        self.log: List[Tuple[List[Any], str]] = []
        self.req_tasks: List[Any] = []

    # -- plumbing ------------------------------------------------------------------------------------------

    def _install_budget(self) -> None:
        from asyncssh import packet as packetmod
        self._orig_log = packetmod.SSHPacketLogger.log_sent_packet
        run = self

        def counting(h: Any, pkttype: int, pktid: Any, packet: Any, note: str = '') -> None:
            run.count += 1
            if run.count > PACKET_BUDGET:
                raise Budget()
            return run._orig_log(h, pkttype, pktid, packet, note)
        packetmod.SSHPacketLogger.log_sent_packet = counting       # type: ignore

    def _remove_budget(self) -> None:
        from asyncssh import packet as packetmod
        packetmod.SSHPacketLogger.log_sent_packet = self._orig_log  # type: ignore

    def conn(self, side: str) -> Any:
        return self.c if side == 'a' else self.s

    def direction_to(self, side: str) -> str:
        return pair.S2C if side == 'a' else pair.C2S

    def sent(self, side: str) -> List[Tuple[int, bytes]]:
        return self.tap.sent.get(id(self.conn(side)), [])

    def _mark(self) -> None:
        """start of the aligned region: from here on write k of a direction is sent packet k of that side"""
        self.w0 = {d: len(self.hub.writes[d]) for d in (pair.C2S, pair.S2C)}
        self.t0 = {'a': len(self.sent('a')), 'b': len(self.sent('b'))}
        self.p = {pair.C2S: 0, pair.S2C: 0}          # next undelivered packet (relative index) per direction
        self.scan = {'a': 0, 'b': 0}                 # next packet of a side not yet looked at for `wire`

    def _sender(self, direction: str) -> str:
        return 'a' if direction == pair.C2S else 'b'

    def _npending(self, direction: str) -> int:
        return len(self.hub.writes[direction]) - self.w0[direction] - self.p[direction]

    def _packet(self, direction: str, k: int) -> Tuple[int, bytes, int]:
        """(type, payload, wire length) of relative packet k in a direction"""
        side = self._sender(direction)
        _seq, payload = self.sent(side)[self.t0[side] + k]
        return payload[0], payload, len(self.hub.writes[direction][self.w0[direction] + k])

    def _check_aligned(self) -> None:
        for d in (pair.C2S, pair.S2C):
            side = self._sender(d)
            if len(self.hub.writes[d]) - self.w0[d] != len(self.sent(side)) - self.t0[side]:
                raise RuntimeError('packet tap and transport writes are not aligned (rekey?)')

    def _deliver_one(self, direction: str) -> Tuple[int, bytes]:
        t, payload, n = self._packet(direction, self.p[direction])
        self.p[direction] += 1
        self.hub.deliver(direction, n)
        return t, payload

    async def _pump(self, hold: Optional[Callable[[int, bytes], bool]] = None) -> bool:
        """deliver everything pending in both directions until quiet; `hold(type, payload)` stops the s2c
        direction in front of a packet.  Returns True if it stopped at a held packet."""
        held = False
        for _ in range(200):
            await pair.settle(8)
            self._check_aligned()
            progressed = False
            for d in (pair.C2S, pair.S2C):
                while self._npending(d) > 0:
                    t, payload, _n = self._packet(d, self.p[d])
                    if hold is not None and d == pair.S2C and hold(t, payload):
                        held = True
                        break
                    self._deliver_one(d)
                    progressed = True
            if not progressed:
                break
        return held

    # -- setup ---------------------------------------------------------------------------------------------

    async def setup(self) -> None:
        self.c, self.s, self.hub = await pair.make_pair(
            server_factory=_server_factory(self.cfgs, self.ssess),
            server_opts=dict(rekey_bytes=1 << 40, **self.case.get('server_opts', {})),
            client_opts=dict(rekey_bytes=1 << 40, **self.case.get('client_opts', {})))
        await pair.settle(10)
        self.hub.auto = False
        self._mark()
        self.holding = False
        for i, cfg in enumerate(self.cfgs):
            sess = _ClientSess(cfg['keepA'], chan_encoding(cfg, 'A') is not None)
            self.csess.append(sess)
            task = asyncio.ensure_future(self.c.create_session(
                lambda sess=sess: sess, encoding=chan_encoding(cfg, 'A'), errors=cfg.get('errors', 'strict'),
                window=cfg['wa'], max_pktsize=cfg['pa']))
            starting = cfg.get('pausedA', 'n') == 's'
            hold = (lambda t, p: t == MSG_SUCCESS) if starting else None
            for _ in range(50):
                held = await self._pump(hold)
                if task.done() or held:
                    break
            if starting:
                if not held:
                    raise RuntimeError('could not hold the session request reply')
                self.holding = True
                self.start_task = task
            else:
                await task
                await self._pump()
            self.cchan.append(sess.chan)
        # channel numbers and advertised parameters, from the wire
        opens = [p for _q, p in self.sent('a')[self.t0['a']:] if p[0] == MSG_OPEN]
        confs = [p for _q, p in self.sent('b')[self.t0['b']:] if p[0] == MSG_CONFIRM]
        for o, cf in zip(opens, confs):
            po = SSHPacket(o[1:])
            po.get_string()
            ca, wa, pa = po.get_uint32(), po.get_uint32(), po.get_uint32()
            pc = SSHPacket(cf[1:])
            rc, cb, wb, pb = pc.get_uint32(), pc.get_uint32(), pc.get_uint32(), pc.get_uint32()
            assert rc == ca
            self.opened.append({'ca': ca, 'cb': cb, 'wa': wa, 'pa': pa, 'wb': wb, 'pb': pb})
        if len(self.opened) != len(self.cfgs):
            raise RuntimeError('not all channels opened')
        self.local = {'a': {o['ca']: i for i, o in enumerate(self.opened)},      # recipient number -> logical
                      'b': {o['cb']: i for i, o in enumerate(self.opened)}}
        self.scan = {'a': len(self.sent('a')) - self.t0['a'], 'b': len(self.sent('b')) - self.t0['b']}
        for s in self.csess + self.ssess:
            s.take()
            s.clock = lambda: self.op_index

    def chan(self, side: str, i: int) -> Any:
        return self.cchan[i] if side == 'a' else self.ssess[i].chan

    def sess(self, side: str, i: int) -> _Sess:
        return self.csess[i] if side == 'a' else self.ssess[i]

    # -- observation ----------------------------------------------------------------------------------------

    def _new_wire(self, side: str) -> Tuple[Dict[int, List[str]], Optional[str]]:
        """channel messages `side` emitted since the last look, per logical channel; and a DISCONNECT reason"""
        out: Dict[int, List[str]] = {}
        fatal = None
        pk = self.sent(side)[self.t0[side] + self.scan[side]:]
        self.scan[side] += len(pk)
        peer = 'b' if side == 'a' else 'a'
        for _seq, payload in pk:
            if payload[0] == MSG_DISCONNECT:
                fatal = classify_disconnect(payload)
            elif payload[0] in DATA_MSGS or payload[0] in (MSG_SUCCESS, MSG_FAILURE):
                # (SUCCESS / FAILURE after the set-up phase: the reply to a second session request)
                _t, rc, text = show_payload(payload)
                i = self.local[peer].get(rc, -1)
                out.setdefault(i, []).append(text)
                self.wire[side].append((i, text, self.op_index))
        return out, fatal

    def _result(self, side: str, i: int, inmsg: str, skip_wire: int = 0) -> str:
        wires, fatal = {}, None
        for sd in ('a', 'b'):
            w, f = self._new_wire(sd)
            if sd == side:
                wires = w
            fatal = fatal or f
        outs = self.sess(side, i).take()
        if fatal:
            self.dead = fatal
            outs = [o for o in outs if not o.startswith('l!')]     # connection teardown reaches every session
            if fatal == 'decode':
                return 'fatal decode outs=' + show_list(outs)
            return 'fatal ' + fatal
        if pair.LOOP_ERRORS:
            self.dead = 'loop-error'
            return 'fatal loop-error:' + str(pair.LOOP_ERRORS[0].get('exception') or pair.LOOP_ERRORS[0].get('message'))[:80]
        msgs = wires.get(i, [])[skip_wire:]
        return 'ok ch=%d in=%s msgs=%s outs=%s' % (i, inmsg, show_list(msgs), show_list(outs))

    # -- operations ------------------------------------------------------------------------------------------

    async def do(self, op: List[Any]) -> str:
        self.op_index += 1
        if self.dead:
            return 'dead'
        self.count = 0
        try:
            r = await self._do(op)
        except Budget:
            self.dead = 'spin'
            r = 'fatal spin'
        self.results.append(r)
        self.log.append((op, r))
        return r

    async def _do(self, op: List[Any]) -> str:
        if op[0] == 'app':
            _, side, i, kind = op[:4]
            ch, ss = self.chan(side, i), self.sess(side, i)
            try:
                if kind == 'write':
                    data: Any = unhx(op[5] or '-')
                    if ss.text:
                        data = data.decode('utf-8')
                    if op[4] is None:
                        ch.write(data)
                    else:
                        ch.write(data, op[4])
                elif kind == 'eof':
                    ch.write_eof()
                elif kind == 'close':
                    ch.close()
                elif kind == 'pause':
                    ch.pause_reading()
                    ss.app_paused = True
                elif kind == 'resume':
                    ss.app_paused = False
                    ch.resume_reading()
                elif kind == 'arm':
                    ss.pause_after = op[4]
                else:
                    raise ValueError(kind)
            except BrokenPipeError:
                return 'api brokenPipe'
            except asyncssh.ProtocolError as e:
                # `resume_reading()` runs `_flush_recv_buf` in the caller's stack: a decode error of buffered
                # data surfaces as ProtocolError in the application instead of closing the connection
                self.dead = 'decode' if 'decode' in str(e) else 'other:' + str(e)[:60]
                outs = self.sess(side, i).take()
                return 'fatal %s outs=%s' % (self.dead, show_list(outs)) if self.dead == 'decode' \
                    else 'fatal ' + self.dead
            except OSError as e:
                if 'Invalid extended data type' in str(e):
                    return 'api badDatatype'
                raise
            await pair.settle(6)
            self._check_aligned()
            return self._result(side, i, '-')
        if op[0] == 'deliver':
            side = op[1]
            d = self.direction_to(side)
            while self._npending(d) > 0:
                t, payload = self._deliver_one(d)
                if t in STOP_MSGS:
                    _t, rc, text = show_payload(payload)
                    i = self.local[side].get(rc, -1)
                    await pair.settle(6)
                    self._check_aligned()
                    return self._result(side, i, text)
            await pair.settle(4)
            return 'empty'
        if op[0] == 'burst':
            k = op[1]
            d = pair.S2C
            total, seen, j = 0, 0, self.p[d]
            n_avail = len(self.hub.writes[d]) - self.w0[d]
            first = True
            while j < n_avail:
                t, _payload, n = self._packet(d, j)
                if t in DATA_MSGS and not first:
                    if seen == k:
                        break
                    seen += 1
                total += n
                j += 1
                first = False
            self.p[d] = j
            self.hub.deliver(d, total)
            self.holding = False
            await pair.settle(10)
            i = len(self.cfgs) - 1
            return self._result('a', i, '*')
        if op[0] == 'req':
            _, side, i = op
            ch = self.chan(side, i)
            # no public API sends a second session request: the channel's own request primitive (a no-op once
            # its `_send_chan` is None)
            task = asyncio.ensure_future(ch._make_request(b'shell'))
            task.add_done_callback(lambda t: t.cancelled() or t.exception())    # (the reply may never come)
            self.req_tasks.append(task)
            await pair.settle(6)
            self._check_aligned()
            return self._result(side, i, '-')
        if op[0] == 'raw':
            _, side, i, kind = op[:4]
            hostile = 'b' if side == 'a' else 'a'
            hch = self.chan(hostile, i)
            if kind == 'data':
                data = unhx(op[5] or '-')
                if op[4] is None:
                    hch.send_packet(MSG_DATA, String(data))
                    text = 'D-:%d' % len(data)
                else:
                    hch.send_packet(MSG_EXT, UInt32(op[4]), String(data))
                    text = 'D%d:%d' % (op[4], len(data))
            elif kind == 'adjust':
                hch.send_packet(MSG_ADJUST, UInt32(op[4]))
                text = 'A%d' % op[4]
            elif kind == 'eof':
                hch.send_packet(MSG_EOF)
                text = 'E'
            else:
                hch.send_packet(MSG_CLOSE)
                text = 'C'
            d = self.direction_to(side)
            while self._npending(d) > 0:
                self._deliver_one(d)
            await pair.settle(6)
            self._check_aligned()
            return self._result(side, i, text)
        raise ValueError(op)

    async def drain(self, out: List[str]) -> bool:
        """everybody reads, every message in flight is delivered, until nothing moves (bounded)"""
        for s in self.csess + self.ssess:
            s.pause_after = None
        if self.holding:
            out.append(await self.do(['burst', 0]))
        for i in range(len(self.cfgs)):
            for side in 'ab':
                if self.dead:
                    return False
                out.append(await self.do(['app', side, i, 'resume']))
        for _ in range(20000):
            if self.dead:
                return False
            ra = await self.do(['deliver', 'a'])
            rb = 'dead' if self.dead else await self.do(['deliver', 'b'])
            out += [ra, rb]
            if ra == 'empty' and rb == 'empty':
                return True
        return False

    async def finish(self) -> None:
        try:
            self.hub.auto = True
            self.c.abort()
            self.s.abort()
            await pair.settle(5)
        except BaseException:
            pass


async def _run_case(case: Dict[str, Any], stop_at: Optional[int] = None, drain: bool = False) -> Dict[str, Any]:
    run = RealRun(case)
    res: Dict[str, Any] = {'results': [], 'error': None, 'run': run, 'drained': False, 'drain_results': []}
    with capture.PacketTap() as tap:
        run.tap = tap
        run._install_budget()
        try:
            await run.setup()
            res['opened'] = run.opened
            for k, op in enumerate(case['ops']):
                if stop_at is not None and k >= stop_at:
                    break
                r = await run.do(op)
                res['results'].append(r)
                if run.dead:
                    break
            if drain and not run.dead:
                res['drained'] = await run.drain(res['drain_results'])
        except Budget:
            res['error'] = 'spin during setup'
        except Exception as e:      # reported by the caller
            res['error'] = '%s: %s' % (type(e).__name__, e)
        finally:
            run._remove_budget()
            await run.finish()
    res['wire'] = run.wire
    res['dead'] = run.dead
    res['log'] = run.log
    res['events'] = {'a': [list(s.ev) for s in run.csess], 'b': [list(s.ev) for s in run.ssess]}
    res['pause_violations'] = {'a': [list(s.pause_violations) for s in run.csess],
                               'b': [list(s.pause_violations) for s in run.ssess]}
    res['sessions_started'] = {'a': [s.started for s in run.csess], 'b': [s.started for s in run.ssess]}
    return res


def run_case(case: Dict[str, Any], drain: bool = False) -> Dict[str, Any]:
    """Run a case on the real code (fresh loop)."""
    try:
        return pair.run(_run_case(case, drain=drain), timeout=60)
    except Budget:
        return {'results': [], 'error': 'spin', 'wire': {'a': [], 'b': []}}
    except asyncio.TimeoutError:
        return {'results': [], 'error': 'timeout', 'wire': {'a': [], 'b': []}}


# ---------------------------------------------------------------------------------------------------------
# generators


def gen_bytes(rng: random.Random, n: int) -> bytes:
    seed = bytes(rng.getrandbits(8) for _ in range(min(n, 16)))
    return (seed * (n // max(1, len(seed)) + 1))[:n] if n else b''


def gen_text_bytes(rng: random.Random, nmax: int) -> bytes:
    """valid UTF-8 of roughly up to nmax bytes, rich in multi-byte characters"""
    out = b''
    while len(out) < nmax:
        ch = rng.choice(TEXT_ALPHABET).encode('utf-8')
        if len(out) + len(ch) > nmax:
            break
        out += ch
    return out


def gen_cfg(rng: random.Random, profile: str) -> Dict[str, Any]:
    small = profile in ('tiny',)
    cfg = {
        'wa': rng.choice(WINDOWS[:5] if small else WINDOWS), 'wb': rng.choice(WINDOWS[:5] if small else WINDOWS),
        'pa': rng.choice(PKTSIZES), 'pb': rng.choice(PKTSIZES),
        'keepA': rng.random() < 0.75, 'keepB': rng.random() < 0.75, 'pausedA': 'n',
        'decA': rng.random() < 0.3, 'decB': rng.random() < 0.3,
    }
    return cfg


def gen_write(rng: random.Random, case: Dict[str, Any], side: str, i: int, pending_text: Dict[Any, bytes]
              ) -> List[Any]:
    cfg = case['chans'][i]
    recv_window = cfg['wb'] if side == 'a' else cfg['wa']
    r = rng.random()
    if r < 0.06:
        n = 0
    elif r < 0.45:
        n = rng.randint(1, max(1, recv_window))
    elif r < 0.8:
        n = rng.randint(1, 3 * recv_window)
    else:
        n = rng.randint(1, 8)
    n = min(n, 600)
    dt: Optional[int] = None
    if side == 'b' and rng.random() < 0.3:
        dt = 1
    if rng.random() < 0.02:
        dt = 2 if side == 'b' else 1            # not a write datatype of that side
    sender_text = cfg['decA'] if side == 'a' else cfg['decB']
    receiver_text = cfg['decB'] if side == 'a' else cfg['decA']
    if sender_text:
        data = gen_text_bytes(rng, n)
    elif receiver_text:
        # a bytes sender feeding a decoding receiver: per data type valid UTF-8 (each data type is a stream of its
        # own: a process' stdout and stderr pipes), cut at arbitrary byte positions across writes — so a write on
        # the other data type may fall in the middle of a character
        key = (side, i, dt)
        buf = pending_text.get(key, b'')
        if len(buf) < n:
            buf += gen_text_bytes(rng, n - len(buf) + 4)
        data, pending_text[key] = buf[:n], buf[n:]
        if rng.random() < 0.03 and data:
            data = data[:-1] + bytes([rng.choice([0xff, 0xc0, 0x80, 0xed])])
    else:
        data = gen_bytes(rng, n)
    return ['app', side, i, 'write', dt, hx(data) if data else '']


# text channels in encodings whose codec keeps state across writes (and some that do not, as controls)
TEXT_ENCODINGS = [('utf-16', 'strict'), ('utf-32', 'strict'), ('utf-8-sig', 'strict'), ('utf-16', 'strict'),
                  ('utf-8-sig', 'strict'), ('utf-32', 'strict'), ('utf-16-le', 'strict'), ('utf-16-be', 'strict'),
                  ('utf-32-be', 'strict'), ('latin-1', 'strict'), ('utf-8', 'replace'), ('utf-8-sig', 'replace')]
TEXT_CHARS = ['a', 'Z', '0', '\n', ' ', 'é', 'ß', 'ÿ', '€', 'ࠀ', '\ufeff', '\ufffe', '\uffff', '퟿', '\ue000', '😀',
              '\U00010000', '\U0010ffff']


def gen_text(rng: random.Random, enc: str) -> str:
    chars = [c for c in TEXT_CHARS if ord(c) < 256] if enc == 'latin-1' else TEXT_CHARS
    r = rng.random()
    n = 0 if r < 0.2 else rng.randint(1, 3) if r < 0.7 else rng.randint(4, 12)
    return ''.join(rng.choice(chars) for _ in range(n))


def gen_textenc(rng: random.Random) -> Dict[str, Any]:
    """both ends text channels in one encoding; several non-empty writes per direction with empty ones in between,
    stdout and stderr, astral characters, small windows and packet sizes, deliveries and pauses interleaved, EOF"""
    enc, errors = rng.choice(TEXT_ENCODINGS)
    small = rng.random() < 0.6
    cfg = {'wa': rng.choice(WINDOWS[:6] if small else WINDOWS + [1 << 21]),
           'wb': rng.choice(WINDOWS[:6] if small else WINDOWS + [1 << 21]),
           'pa': rng.choice(PKTSIZES[:5] if small else PKTSIZES), 'pb': rng.choice(PKTSIZES[:5] if small else PKTSIZES),
           'keepA': True, 'keepB': True, 'pausedA': 'n', 'decA': False, 'decB': False, 'enc': enc, 'errors': errors}
    case: Dict[str, Any] = {'profile': 'textenc', 'chans': [cfg], 'ops': []}
    ops = case['ops']
    todo = {'a': rng.randint(2, 5), 'b': rng.randint(2, 6)}
    while todo['a'] or todo['b']:
        side = rng.choice([x for x in 'ab' if todo[x]])
        text = gen_text(rng, enc)
        if text:
            todo[side] -= 1
        dt = 1 if side == 'b' and rng.random() < 0.35 else None
        ops.append(['app', side, 0, 'write', dt, hx(text.encode('utf-8')) if text else ''])
        r = rng.random()
        if r < 0.45:
            ops += [['deliver', rng.choice('ab')] for _ in range(rng.randint(1, 4))]
        elif r < 0.52:
            ops.append(['app', rng.choice('ab'), 0, 'pause'])
        elif r < 0.60:
            ops.append(['app', rng.choice('ab'), 0, 'resume'])
        elif r < 0.64:
            ops.append(['app', rng.choice('ab'), 0, 'arm', rng.randint(0, 2)])
    for side in 'ab':
        if rng.random() < 0.6:
            ops.append(['app', side, 0, 'eof'])
    case['drain_from'] = len(ops)
    return case


MULTIBYTE = ['é', 'ß', '€', 'ࠀ', '￿', '😀', '\U0010ffff', '퟿']


def gen_textclose(rng: random.Random, dec_only: bool = False) -> Dict[str, Any]:
    """a text receiver reads multi-byte text through small packets, its application calls close() after a few of
    them (most packet boundaries fall inside a character); the honest sender goes on and ends with EOF and / or
    CLOSE.  Mode 'dec': UTF-8 receiver, bytes sender (also run through the model); mode 'enc': both ends text
    channels in one of the stateful encodings."""
    recv = rng.choice('ab')
    send = 'b' if recv == 'a' else 'a'
    mode = 'dec' if dec_only or rng.random() < 0.4 else 'enc'
    cfg: Dict[str, Any] = {'wa': rng.choice([64, 256, 1 << 21]), 'wb': rng.choice([64, 256, 1 << 21]),
                           'pa': rng.choice([32, 100, 32768]), 'pb': rng.choice([32, 100, 32768]),
                           'keepA': rng.random() < 0.8, 'keepB': rng.random() < 0.8, 'pausedA': 'n',
                           'decA': False, 'decB': False}
    cfg['p' + recv] = rng.choice([1, 2, 3, 4, 5, 7])        # the receiver's maximum packet size cuts characters
    if mode == 'enc':
        cfg['enc'], cfg['errors'] = rng.choice([('utf-8', 'strict'), ('utf-16', 'strict'), ('utf-8-sig', 'strict'),
                                                ('utf-32', 'strict'), ('utf-16-le', 'strict')])
    else:
        cfg['dec' + recv.upper()] = True
    case: Dict[str, Any] = {'profile': 'textclose', 'chans': [cfg], 'ops': []}
    ops = case['ops']

    def text(n: int) -> str:
        return ''.join(rng.choice(MULTIBYTE + ['a', '\n']) for _ in range(n))
    for _ in range(rng.randint(1, 2)):
        dt = 1 if send == 'b' and rng.random() < 0.25 else None
        ops.append(['app', send, 0, 'write', dt, hx(text(rng.randint(2, 8)).encode('utf-8'))])
    if rng.random() < 0.3:
        ops.append(['app', recv, 0, 'arm', rng.randint(0, 2)])      # ... or it pauses first and closes while paused
    ops += [['deliver', recv]] * rng.randint(1, 7)
    ops.append(['app', recv, 0, 'close'])
    if rng.random() < 0.5:
        ops.append(['app', send, 0, 'write', None, hx(text(rng.randint(1, 4)).encode('utf-8'))])
    ops += [['deliver', rng.choice('ab')] for _ in range(rng.randint(0, 8))]
    r = rng.random()
    ops += [['app', send, 0, 'eof']] if r < 0.45 else [['app', send, 0, 'close']] if r < 0.8 else \
        [['app', send, 0, 'eof'], ['app', send, 0, 'close']]
    ops += [['deliver', recv]] * rng.randint(2, 12)
    case['drain_from'] = len(ops)
    return case


def gen_case(rng: random.Random, profile: str = 'stream') -> Dict[str, Any]:
    """profiles: stream (C07 default), tiny (windows <= 8), multi (3-4 channels), starting (burst before the
    client starts reading), hostile (C08: raw peer), zero (max packet size 0), textenc (both ends text, stateful
    encodings), textclose / textclose-dec (the text receiver closes in the middle of a character)"""
    if profile == 'textenc':
        return gen_textenc(rng)
    if profile in ('textclose', 'textclose-dec'):
        return gen_textclose(rng, dec_only=profile == 'textclose-dec')
    if profile == 'multi':
        nchan = rng.choice([2, 3, 4, 4])
    elif profile in ('starting', 'hostile', 'zero'):
        nchan = 1
    else:
        nchan = rng.choice([1, 1, 1, 2, 2, 3])
    case: Dict[str, Any] = {'profile': profile, 'chans': [gen_cfg(rng, profile) for _ in range(nchan)], 'ops': []}
    ops = case['ops']
    pending_text: Dict[Any, bytes] = {}
    if profile == 'zero':
        case['chans'][0]['pa'] = 0
        case['chans'][0]['decA'] = case['chans'][0]['decB'] = False
    if profile == 'hostile':
        return gen_hostile(rng, case)
    if profile == 'starting':
        case['chans'][-1]['pausedA'] = 's'
        i = nchan - 1
        for _ in range(rng.randint(0, 5)):
            r = rng.random()
            if r < 0.7:
                ops.append(gen_write(rng, case, 'b', i, pending_text))
            elif r < 0.85:
                ops.append(['app', 'b', i, 'eof'])
            else:
                ops.append(['app', 'b', i, 'close'])
        ops.append(['burst', rng.randint(0, 8)])
    nops = rng.randint(8, 50)
    for _ in range(nops):
        r = rng.random()
        i = rng.randrange(nchan)
        side = rng.choice('ab')
        if r < 0.38:
            ops.append(gen_write(rng, case, side, i, pending_text))
        elif r < 0.74:
            ops.append(['deliver', side])
        elif r < 0.80:
            ops.append(['app', side, i, 'pause'])
        elif r < 0.88:
            ops.append(['app', side, i, 'resume'])
        elif r < 0.91:
            ops.append(['app', side, i, 'arm', rng.randint(0, 3)])
        elif r < 0.96:
            ops.append(['app', side, i, 'eof'])
        elif r < 0.975:
            ops.append(['app', side, i, 'close'])
        elif r < 0.985 and profile in ('stream', 'tiny', 'multi'):
            ops.append(['req', 'a', i])         # the client asks for a second shell on the running channel
        else:
            ops += [['deliver', side]] * rng.randint(2, 6)
    # final drain: everybody reads, every message is delivered
    case['drain_from'] = len(ops)
    for i in range(nchan):
        ops.append(['app', 'a', i, 'resume'])
        ops.append(['app', 'b', i, 'resume'])
    for _ in range(rng.choice([0, 1, 1, 1]) * 30):
        ops.append(['deliver', 'a'])
        ops.append(['deliver', 'b'])
    return case


def gen_hostile(rng: random.Random, case: Dict[str, Any]) -> Dict[str, Any]:
    """The peer of `victim` ignores all accounting: raw DATA of any size / datatype, adjusts, EOF, CLOSE in any
    order; the victim's application pauses and resumes.  Nothing the victim sends is delivered back."""
    ops = case['ops']
    cfg = case['chans'][0]
    victim = rng.choice('ab')
    case['victim'] = victim
    w = cfg['wa'] if victim == 'a' else cfg['wb']
    cfg['decA'] = cfg['decB'] = False
    for _ in range(rng.randint(4, 30)):
        r = rng.random()
        if r < 0.55:
            q = rng.random()
            if q < 0.5:
                n = rng.randint(0, max(1, w))
            elif q < 0.8:
                n = rng.randint(max(1, w // 2), w + 2)
            else:
                n = rng.randint(w + 1, 3 * w + 3)
            dt: Optional[int] = None
            if rng.random() < 0.25:
                dt = rng.choice([1, 1, 1, 2])
            ops.append(['raw', victim, 0, 'data', dt, hx(gen_bytes(rng, n)) if n else ''])
        elif r < 0.63:
            ops.append(['raw', victim, 0, 'adjust', rng.choice([0, 1, w, 5 * w, 2 ** 32 - 1])])
        elif r < 0.75:
            ops.append(['app', victim, 0, 'pause'])
        elif r < 0.87:
            ops.append(['app', victim, 0, 'resume'])
        elif r < 0.90:
            ops.append(['app', victim, 0, 'arm', rng.randint(0, 2)])
        elif r < 0.94:
            ops.append(gen_write(rng, case, victim, 0, {}))
        elif r < 0.97:
            ops.append(['raw', victim, 0, 'eof'])
        elif r < 0.985:
            ops.append(['raw', victim, 0, 'close'])
        else:
            ops.append(['app', victim, 0, rng.choice(['eof', 'close'])])
    case['drain_from'] = len(ops)
    return case


def shrink_case(case: Dict[str, Any], still: Callable[[Dict[str, Any]], bool], budget: int = 60) -> Dict[str, Any]:
    """greedy removal of operations (bursts and channel configs are kept)"""
    from vlib import shrink_list
    keep = [op for op in case['ops'] if op[0] == 'burst']

    def test(ops: List[Any]) -> bool:
        if any(k not in ops for k in keep):
            return False
        return still(dict(case, ops=ops))
    ops = shrink_list(list(case['ops']), test, budget)
    return dict(case, ops=ops)


def model_results(case: Dict[str, Any], out: List[str]) -> List[str]:
    """per-operation results from the driver's answers to `model_lines(case)`"""
    k = 1 + len(case['chans'])
    res = []
    for op in case['ops']:
        m = lines_per_op(op)
        res.append(merge_model(out[k:k + m]) if op[0] == 'burst' else out[k])
        k += m
    return res
