"""C14 — Each SFTP request gets exactly one matching, well-typed reply.

Lean: Model/SftpWire.lean, Model/SftpAttrs.lean, Model/SftpProto.lean, Props/C14.lean
      (attrs_roundtrip, flags_valid, one_reply_same_id, bad_request_is_status, client_demux, ...).
Translator: FXP_*/FX_*/FILEXFER_* numbers, _valid_attr_flags, _return_types, handler key sets, the errno chain and
      the status-code rewrite of SFTPError.encode -> lean/AsyncsshModel/Gen/C14.lean (props/_c14_translate.py).
Correspondence: real SFTPAttrs/SFTPName codecs over all flag subsets per version; a real SFTPServerHandler (over an
      in-memory SSH connection, raw subsystem channel) fed every request type with every truncation/extension of
      its body; a real SFTP client against a scripted raw server replying in every order, with unknown/duplicate/
      wrong-type/short replies; the client's reply parsing on every truncation of every reply kind.
Oracle: the property itself on the real code (one reply per request with its id and a protocol-legal type,
      malformed -> status and the session goes on, each concurrent caller gets its own answer, attribute round trip,
      encode never emits a flag its own version rejects, local errors -> documented status codes).

Observations made while building (none contradicts the property as stated; see the builder's report):
  O1  `_process_open/setstat/fsetstat/lsetstat` format the decoded attributes eagerly for a debug message
      (`hide_empty(attrs)` -> `time.ctime`), which raises OSError/OverflowError for a time beyond the platform's
      calendar (>= ~6.7e16 s): a well-formed request is then answered FX_FAILURE before any handle check or
      application call.  Repaired by a `fix:` commit after the model/code audit (unprintable times are shown as raw
      seconds); oracle_big_times reports a tree without the repair, and the server runs use full 64-bit times when
      the tree prints them (`L.TIME_BITS`).
  O2  trailing bytes after a complete body are rejected (FX_BAD_MESSAGE) below SFTPv6 by every handler except
      REALPATH, LINK, BLOCK and UNBLOCK, which ignore them in every version (model: `Tail.never`).
  O3  a reply body the client cannot parse reaches the caller as a bare `PacketDecodeError` (a `ValueError`), and a
      READLINK answered with zero names as `IndexError`, rather than as an `SFTPError` (model: `Outcome.packetDecode`).
"""

from __future__ import annotations

import asyncio
import itertools
import os
import sys
from typing import Any, Dict, List, Optional, Sequence, Tuple

import asyncssh
from asyncssh import sftp as S
from asyncssh.packet import Byte, String, UInt32, UInt64, SSHPacket

import pair
from vlib import (Ctx, CorrResult, OracleResult, Failure, Disagreement, Hist, hx, unhx)

sys.path.insert(0, os.path.dirname(os.path.abspath(__file__)))
import _c14_lib as L            # noqa: E402
import _c14_translate as T      # noqa: E402

PROPERTY = 'C14'
MANIFEST = {
    'text': 'Lean 4 theorems about an executable model of asyncssh/sftp.py: decode(encode(a)) = a for EVERY attribute '
            'record a version 3-6 can carry (explicit decidable predicate Carryable) and encode never sets a flag '
            'outside the version\'s valid set; the server maps EVERY request packet carrying an id to exactly one '
            'reply with that id and a type legal for the request, unsupported type / malformed body giving '
            'FXP_STATUS OP_UNSUPPORTED / BAD_MESSAGE with the session continuing; the errno and status-version maps '
            'are re-proved against tables translated from the source on every run; the client waiter table hands '
            'each caller its own reply for EVERY order of replies, fails every waiter exactly once on an unknown or '
            'duplicate id, and a wrong reply type is an error for that caller only. Model tied to the code by a '
            'translator and a differential run against the real codecs, a real SFTPServerHandler and a real SFTP '
            'client; the property is also evaluated directly on the real code.',
    'note': 'application-level SFTPServer callbacks, open-handle bookkeeping and the handle allocator are '
            'environment inputs of the server model; reason/language strings of status replies are not modelled; '
            'request ids are assumed not to wrap onto a still outstanding id (fewer than 2^32 outstanding)',
    'technique': 'Lean 4 proof (stage calculus for the codec, case analysis over the request grammar, induction over '
                 'event lists for the client) + translator + differential correspondence + direct oracle',
}
LEAN_PROPS = ['AsyncsshModel.Props.C14']
DRIVER = 'Drivers/C14.lean'
TRUSTED = [
    'Python str <-> UTF-8 bytes is a bijection on well-formed strings (owner, group, mime_type are modelled as bytes; '
    'the UTF-8 validity automaton is compared with CPython on every run)',
    'the SSH channel below the SFTP subsystem delivers bytes in order (properties C07/C08)',
    'application callbacks, handle bookkeeping and handle allocation are environment inputs of the server model',
]
ASSUMPTIONS = [
    'fewer than 2^32 requests are outstanding at once (request ids do not wrap onto a live id)',
    'the application-level SFTPServer raises only Exception subclasses (not BaseException such as CancelledError)',
    'in a tree WITHOUT the repair of observation O1, attribute times inside the generated server requests stay below '
    'the platform calendar limit of time.ctime (beyond it the debug-message formatting raises and the request is '
    'answered FX_FAILURE: reported by oracle_big_times); with the repair they range over all 64 bits',
    'a packet shorter than 5 bytes (no type/id) cannot be answered and ends the session: this is outside '
    '"malformed body", which presupposes a request id',
]


def translate(ctx: Ctx) -> Dict[str, Any]:
    return T.translate(ctx)


OK_STATUS = UInt32(0) + String('') + String('')


# ===================================================================================================
# correspondence 1: codecs
# ===================================================================================================


def flag_subsets(ctx: Ctx, rng: Any, v: int) -> List[Tuple[int, ...]]:
    bits = L.FLAG_BITS[v]
    n = len(bits)
    total = 1 << n
    limit = ctx.n(1200, 1 << 20)
    if total <= limit:
        idx = range(total)
    else:
        idx = sorted(set([0, total - 1] + [rng.randrange(total) for _ in range(limit)]))
    return [tuple(b for i, b in enumerate(bits) if (m >> i) & 1) for m in idx]


def corr_codec(ctx: Ctx, res: CorrResult, hist: Hist) -> None:
    rng = ctx.subrng('codec')
    lines: List[str] = []
    expect: List[Tuple[str, Any, str]] = []
    exhaustive = True

    def add(line: str, name: str, case: Any, impl: str) -> None:
        lines.append(line)
        expect.append((name, case, impl))

    for v in L.VERSIONS:
        subsets = flag_subsets(ctx, rng, v)
        if len(subsets) < (1 << len(L.FLAG_BITS[v])):
            exhaustive = False
        hist.hit(f'codec:v{v}:flag-subsets', len(subsets))
        for bits in subsets:
            cands = [L.attrs_for_flags(rng, v, bits)]
            if rng.random() < 0.35:
                cands.append(L.perturb_attrs(rng, cands[0], v))
            for a in cands:
                toks = ' '.join(L.attrs_tokens(a))
                enc = L.impl_encode(a, v)
                case = {'v': v, 'attrs': toks}
                add(f'enc {v} {toks}', 'attrs-encode', case, enc)
                rt = L.impl_roundtrip(a, v)
                add(f'carry {v} {toks}', 'carryable-iff-roundtrip', case, '1' if rt else '0')
                hist.hit(f'codec:v{v}:' + ('raise' if enc == 'raise' else ('roundtrip' if rt else 'lossy')))
                if enc != 'raise':
                    b = unhx(enc)
                    add(f'dec {v} {enc}', 'attrs-decode', {'v': v, 'bytes': enc}, L.impl_decode(b, v))
                    if rng.random() < 0.5:
                        m = L.mutate_bytes(rng, b)
                        r = L.impl_decode(m, v)
                        add(f'dec {v} {hx(m)}', 'attrs-decode', {'v': v, 'bytes': hx(m)}, r)
                        hist.hit('codec:dec-mutated:' + r.split(' ')[0] + (':' + r.split(' ')[1].split(':')[0]
                                                                            if r.startswith('err') else ''))
        # names
        for _ in range(ctx.n(150, 3000)):
            bits = [b for b in L.FLAG_BITS[v] if rng.random() < 0.3]
            a = L.attrs_for_flags(rng, v, bits)
            if rng.random() < 0.2:
                a = L.perturb_attrs(rng, a, v)
            ln: Any = rng.choice([b'', b'-rw-r--r-- 1 u g 3 f', b'\xff'])
            if v != 3 and rng.random() < 0.7:
                ln = None
            nm = S.SFTPName(rng.choice(L.BLOBS), ln, a)
            toks = ' '.join(L.name_tokens(nm))
            try:
                enc = hx(nm.encode(v))
            except (OverflowError, ValueError, TypeError):
                enc = 'raise'
            add(f'encname {v} {toks}', 'name-encode', {'v': v, 'name': toks}, enc)
            if enc != 'raise':
                b = unhx(enc)
                dec = L.impl_decode_name(b, v)
                add(f'decname {v} {enc}', 'name-decode', {'v': v, 'bytes': enc}, dec)
                rt = dec == 'ok - ' + toks
                add(f'carryname {v} {toks}', 'carryable-name-iff-roundtrip', {'v': v, 'name': toks},
                    '1' if rt else '0')
                m = L.mutate_bytes(rng, b)
                add(f'decname {v} {hx(m)}', 'name-decode', {'v': v, 'bytes': hx(m)}, L.impl_decode_name(m, v))
            hist.hit(f'codec:v{v}:name')
    # raw flag words (also invalid ones) with short bodies
    for _ in range(ctx.n(600, 20000)):
        v = rng.choice(L.VERSIONS)
        flags = 0
        for b in range(32):
            if rng.random() < (0.25 if b in L.FLAG_BITS[6] + [1] else 0.02):
                flags |= 1 << b
        body = bytes(rng.randrange(256) if rng.random() < 0.5 else 0 for _ in range(rng.randint(0, 60)))
        m = flags.to_bytes(4, 'big') + body
        add(f'dec {v} {hx(m)}', 'attrs-decode', {'v': v, 'bytes': hx(m)}, L.impl_decode(m, v))
    # UTF-8 automaton, file types, status rewrite
    for _ in range(ctx.n(1500, 40000)):
        b = L.gen_utf8ish(rng)
        add(f'utf8 {hx(b)}', 'utf8-validity', {'bytes': hx(b)}, '1' if L.is_utf8(b) else '0')
    for _ in range(ctx.n(300, 5000)):
        m = rng.choice([rng.randrange(0, 1 << 16), rng.randrange(0, 1 << 32)])
        add(f'ftype {m}', 'mode-to-filetype', {'mode': m}, str(S._stat_mode_to_filetype(m)))
    for v in range(2, 8):
        for code in list(range(0, 41)) + [255, 2 ** 31, 2 ** 32 - 1]:
            impl = str(int.from_bytes(S.SFTPError(code, '').encode(v)[:4], 'big'))
            add(f'status {code} {v}', 'status-code-for-version', {'code': code, 'v': v}, impl)
    out = ctx.model(DRIVER, lines)
    for line, (name, case, impl), mod in zip(lines, expect, out):
        res.cases += 1
        if mod != impl:
            res.disagreements.append(Disagreement(case={'op': name, **case, 'line': line[:400]}, model=mod[:400],
                                                  impl=impl[:400], name=f'correspondence:{name}'))
    res.nontrivial += len(set(lines))
    res.exhaustive = exhaustive
    res.samples.append({'line': lines[0], 'model': out[0], 'impl': expect[0][2]})


# ===================================================================================================
# correspondence 2 / oracle: the real server handler
# ===================================================================================================


class ServerRun:
    """drives one real SFTP server (application callbacks scripted) through raw requests and records
    (version, packet, files, dirs, fresh, app, observed)"""

    def __init__(self, rng: Any):
        self.rng = rng
        self.records: List[Dict[str, Any]] = []
        self.conn: Any = None
        self.sess: Optional[L.RawSession] = None
        self.files: List[bytes] = []
        self.dirs: List[bytes] = []
        self.next_id = 1

    async def open_conn(self) -> None:
        self.conn, _s, _hub = await pair.make_pair(server_opts=dict(sftp_factory=L.StubServer, sftp_version=6))

    async def new_session(self, v: int) -> None:
        if self.sess is not None:
            self.sess.close()
        self.sess = L.RawSession(self.conn)
        ok = await self.sess.start(v)
        if not ok or self.sess.version != v:
            raise RuntimeError(f'could not start an SFTP session with version {v}')
        self.files, self.dirs = [], []

    def pktid(self) -> int:
        self.next_id += 1
        return self.rng.choice([self.next_id, self.next_id, 0, 2 ** 32 - 1, 2 ** 31]) \
            if self.rng.random() < 0.1 else self.next_id

    async def send(self, v: int, key: Any, pkt: bytes, script: L.Script, body: bytes = b'', note: str = '') -> Dict[str, Any]:
        if self.sess is None or self.sess.ended or self.sess.silent:
            # the previous request ended the session (that is recorded with that request): go on with a fresh one
            await self.new_session(v)
        assert self.sess is not None
        files, dirs = list(self.files), list(self.dirs)
        rep = await self.sess.request(pkt, script)
        stub = self.sess.stub
        assert stub is not None
        observed = L.reply_desc(rep) if rep is not None else ('end' if self.sess.ended else 'silent')
        fresh = b''
        if rep is not None and len(rep) >= 5 and rep[0] == 102:
            h = L.parse_reply(rep)[2]
            fresh = h[4:4 + int.from_bytes(h[:4], 'big')]
            if key == 3:
                self.files.append(fresh)
            elif key == 11:
                self.dirs.append(fresh)
        if key == 4:
            fs = L.first_string(body)
            if fs is not None:
                if 'close' in stub.calls and fs in self.files:
                    self.files.remove(fs)
                elif observed.endswith('status 0') and fs in self.dirs:
                    self.dirs.remove(fs)
        rec = dict(v=v, key=key, pkt=pkt, files=files, dirs=dirs, fresh=fresh,
                   app=L.app_token(key, v, body, script), observed=observed, note=note, calls=list(stub.calls),
                   reply_raw=rep)
        self.records.append(rec)
        return rec

    async def handle(self, v: int, want_dir: bool = False) -> bytes:
        key = 11 if want_dir else 3
        body = L.valid_body(self.rng, key, v, b'', b'')
        if key == 3 and v >= 5:
            body = String(b'/f') + UInt32(1) + UInt32(0) + UInt32(0) + Byte(1)
        elif key == 3:
            body = String(b'/f') + UInt32(1) + UInt32(0)
        rec = await self.send(v, key, L.request_packet(key, self.pktid(), body), L.Script(), body, 'setup')
        return rec['fresh']

    async def run_version(self, v: int, rounds: int) -> None:
        rng = self.rng
        await self.new_session(v)
        fh = await self.handle(v)
        dh = await self.handle(v, True)
        keys: List[Any] = sorted(k for k in L.KNOWN_HANDLERS if isinstance(k, int)) + L.EXT_NAMES
        for _ in range(rounds):
            for key in keys:
                if fh not in self.files:
                    fh = await self.handle(v)
                if dh not in self.dirs:
                    dh = await self.handle(v, True)
                h_for_close = None
                if key == 4:
                    h_for_close = await self.handle(v, rng.random() < 0.4)
                body0 = L.valid_body(rng, key, v, h_for_close if key == 4 else fh, dh)
                variants = [(body0[:i], 'trunc') for i in range(len(body0))] + [(body0, 'valid')] + \
                    [(body0 + b'\0', 'ext1'), (body0 + b'\0\0\0\0', 'ext4'), (body0 + String(b'zz'), 'extstr')]
                for body, note in variants:
                    if key == 4 and note != 'trunc' and h_for_close not in self.files + self.dirs:
                        h_for_close = await self.handle(v, rng.random() < 0.4)
                        body = String(h_for_close) + body[len(body0):]
                    script = L.gen_script(rng, v, key) if note != 'setup' else L.Script()
                    await self.send(v, key, L.request_packet(key, self.pktid(), body), script, body, note)
                    if self.sess is None or self.sess.ended or self.sess.silent:
                        await self.new_session(v)
                        fh = await self.handle(v)
                        dh = await self.handle(v, True)
            # wrong handles
            for key in [4, 5, 6, 8, 10, 12, 22, 23, b'fstatvfs@openssh.com', b'fsync@openssh.com', b'copy-data',
                        b'ranges@asyncssh.com']:
                for bad in [b'', b'nope', dh if key != 12 else fh, b'\x00\x00\x00\x63']:
                    if key == 4 and bad in (dh, fh):
                        continue
                    body = L.valid_body(rng, key, v, bad, bad)
                    await self.send(v, key, L.request_packet(key, self.pktid(), body), L.gen_script(rng, v, key),
                                    body, 'bad-handle')
            # unsupported request types and extended names
            for t in [0, 1, 2, 24, 25, 50, 100, 101, 102, 103, 104, 105, 199, 201, 202, 255]:
                body = bytes(rng.randrange(256) for _ in range(rng.randint(0, 12)))
                await self.send(v, t, Byte(t) + UInt32(self.pktid()) + body, L.Script(), body, 'unsupported-type')
            for name in [b'', b'unknown@example.com', b'statvfs@openssh.co', b'copy-dat', b'\xff\x00']:
                body = String(b'/x')
                await self.send(v, name, L.request_packet(name, self.pktid(), body), L.Script(), body,
                                'unsupported-ext')
            for cut in [b'', b'\x00', b'\x00\x00\x00', b'\x00\x00\x00\x09abc', b'\xff\xff\xff\xffstatvfs']:
                await self.send(v, b'?', Byte(200) + UInt32(self.pktid()) + cut, L.Script(), b'', 'ext-name-truncated')
        # packets without type/id end the session
        for short in [b'', b'\x0d', b'\x0d\x00\x00\x00', b'\xc8\x00\x00']:
            await self.send(v, None, short, L.Script(), b'', 'no-id')
            await self.new_session(v)
        assert self.sess is not None
        self.sess.close()


def run_server(ctx: Ctx, label: str, rounds: int) -> List[Dict[str, Any]]:
    rng = ctx.subrng(label)

    async def go() -> List[Dict[str, Any]]:
        sr = ServerRun(rng)
        await sr.open_conn()
        for v in L.VERSIONS:
            await sr.run_version(v, rounds)
        sr.conn.abort()
        await pair.settle(10)
        return sr.records
    return pair.run(go(), timeout=1500)


def sreq_line(rec: Dict[str, Any]) -> str:
    hs = lambda l: ','.join(hx(h) for h in l) if l else '-'   # noqa: E731
    files = [h for h in rec['files'] if h]
    dirs = [h for h in rec['dirs'] if h]
    return (f"sreq {rec['v']} {hx(rec['pkt'])} files={hs(files)} dirs={hs(dirs)} fresh={hx(rec['fresh'])} "
            f"{rec['app']}")


def corr_server(ctx: Ctx, res: CorrResult, hist: Hist) -> List[Dict[str, Any]]:
    records = run_server(ctx, "server", ctx.n(1, 8))
    _SERVER_RECORDS[:] = records
    lines = [sreq_line(r) for r in records]
    out = ctx.model(DRIVER, lines)
    seen = set()
    for rec, line, mod in zip(records, lines, out):
        res.cases += 1
        impl = rec['observed']
        ws = impl.split(' ')
        hist.hit('server:' + rec['note'] + ':' + (ws[3] + (' ' + ws[4] if ws[3] == 'status' else '')
                                                  if impl.startswith('reply') else impl))
        seen.add((rec['v'], rec['pkt']))
        if mod != impl:
            res.disagreements.append(Disagreement(
                case={'op': 'server-request', 'v': rec['v'], 'key': repr(rec['key']), 'note': rec['note'],
                      'packet': hx(rec['pkt']), 'app': rec['app'], 'files': [h.hex() for h in rec['files']],
                      'dirs': [h.hex() for h in rec['dirs']], 'calls': rec['calls']},
                model=mod[:300], impl=impl[:300], name='correspondence:server-request'))
    res.nontrivial += len(seen)
    res.samples.append({'line': lines[5][:200], 'model': out[5][:120], 'impl': records[5]['observed'][:120]})
    return records


# ===================================================================================================
# correspondence 3: the real client against a scripted raw server
# ===================================================================================================


def reply_for(kind: str, v: int, tag: int, rng: Any) -> Tuple[int, bytes]:
    """a well-formed successful reply to a request of this kind, carrying the caller's tag"""
    if kind == 'stat':
        a = L.attrs_for_flags(rng, v, [b for b in L.FLAG_BITS[v] if b != 0 and rng.random() < 0.3])
        a.size = 1000 + tag
        return 105, a.encode(v)
    if kind == 'remove':
        return 101, OK_STATUS
    if kind == 'readlink':
        nm = S.SFTPName(b'target%d' % tag, b'long', S.SFTPAttrs())
        return 104, UInt32(1) + nm.encode(v)
    if kind == 'open':
        return 102, String(b'h%d' % tag)
    if kind == 'statvfs':
        return 201, b''.join(UInt64(tag * 100 + i) for i in range(11))
    if kind == 'read':
        return 103, String(b'D%03d' % tag)
    raise KeyError(kind)


def status_reply(code: int, reason: bytes = b'why', lang: bytes = b'en') -> bytes:
    return UInt32(code) + String(reason) + String(lang)


class ClientScenario:
    def __init__(self, v: int, kinds: List[str], actions: List[Tuple[Any, ...]], label: str):
        self.v, self.kinds, self.actions, self.label = v, kinds, actions, label
        self.real_ids: List[int] = []
        self.sent: List[bytes] = []
        self.outcomes: List[str] = []
        self.req_ok = True

    def to_json(self) -> Dict[str, Any]:
        return {'v': self.v, 'kinds': self.kinds, 'label': self.label,
                'actions': [[a[0]] + [x.hex() if isinstance(x, bytes) else x for x in a[1:]] for a in self.actions]}

    @staticmethod
    def from_json(d: Dict[str, Any]) -> 'ClientScenario':
        acts = []
        for a in d['actions']:
            if a[0] == 'reply':
                acts.append(('reply', a[1], a[2], bytes.fromhex(a[3])))
            elif a[0] == 'raw':
                acts.append(('raw', bytes.fromhex(a[1])))
            else:
                acts.append(tuple(a))
        return ClientScenario(d['v'], d['kinds'], acts, d.get('label', 'replay'))


class ClientRig:
    def __init__(self) -> None:
        self.hub = L.PeerHub()
        self.conn: Any = None
        self.hangs = 0

    async def open(self) -> None:
        self.conn, _s, _h = await pair.make_pair(server_factory=self.hub.server_factory(), server_opts=dict(encoding=None))

    async def run(self, sc: ClientScenario, wait: float = 1.5) -> None:
        peer = L.ScriptedPeer(sc.v, [(b'statvfs@openssh.com', b'2')])
        self.hub.pending.append(peer)
        sftp = await self.conn.start_sftp_client(sftp_version=sc.v)
        fobj = None
        if 'read' in sc.kinds:
            t = asyncio.ensure_future(sftp.open(b'/file', 'rb'))
            req = await peer.next_request()
            assert req is not None
            peer.send(Byte(102) + req[1:5] + String(b'FH'))
            fobj = await t
        tasks = [asyncio.ensure_future(L.client_call(sftp, k, i, fobj)) for i, k in enumerate(sc.kinds)]
        ids: List[int] = []
        for i in range(len(sc.kinds)):
            req = await peer.next_request()
            if req is None or len(req) < 5:
                sc.req_ok = False
                break
            ids.append(int.from_bytes(req[1:5], 'big'))
            if (b'/p%d' % i) not in req and sc.kinds[i] != 'read':
                sc.req_ok = False
        sc.real_ids = ids
        ended = False
        for act in sc.actions:
            if ended:
                break
            if act[0] == 'reply':           # ('reply', caller, type, payload)
                pkt = Byte(act[2]) + UInt32(ids[act[1]]) + act[3]
                sc.sent.append(pkt)
                peer.send(pkt)
            elif act[0] == 'raw':           # ('raw', packet) — framed as is
                sc.sent.append(act[1])
                peer.send(act[1])
            elif act[0] == 'eof':
                sc.sent.append(b'EOF')
                peer.end()
                ended = True
            elif act[0] == 'cancel':        # ('cancel', caller) — the caller abandons its request
                tasks[act[1]].cancel()
            for _ in range(3):
                await asyncio.sleep(0)
        outs = []
        for t in tasks:
            if t.cancelled():
                outs.append('cancelled')
                continue
            try:
                # a caller that never completes costs wall time: be patient only for the first few
                outs.append(await asyncio.wait_for(t, wait if self.hangs < 6 else 0.15))
            except asyncio.TimeoutError:
                self.hangs += 1
                outs.append('hang')
            except asyncio.CancelledError:
                outs.append('cancelled')
        sc.outcomes = outs
        try:
            sftp.exit()
            if not ended:
                peer.end()
        except Exception:
            pass
        for _ in range(5):
            await asyncio.sleep(0)


def gen_client_scenarios(ctx: Ctx, rng: Any) -> List[ClientScenario]:
    scs: List[ClientScenario] = []
    kinds_pool = L.CLIENT_KINDS + ['read']

    def normal(v: int, kinds: List[str], i: int) -> Tuple[Any, ...]:
        t, p = reply_for(kinds[i], v, i, rng)
        return ('reply', i, t, p)

    max_k = ctx.n(4, 5)
    for k in range(1, max_k + 1):
        perms = list(itertools.permutations(range(k)))
        # all 24 orders for k = 4 also in the quick tier; k = 5 (120 orders) only when thorough/escalated
        if k == 5 and not ctx.tier == 'thorough':
            perms = [p for p in perms if rng.random() < 0.25]
        for pi in perms:
            v = rng.choice(L.VERSIONS)
            kinds = [rng.choice(kinds_pool) for _ in range(k)]
            if rng.random() < 0.3:
                kinds = [rng.choice(kinds_pool)] * k        # same request type: only the id tells them apart
            acts = [normal(v, kinds, i) for i in pi]
            scs.append(ClientScenario(v, kinds, acts, f'perm:k{k}'))
    # anomalies, for every position and k <= 4
    for k in range(1, 5):
        for pos in range(k + 1):
            for anomaly in ['unknown-id', 'duplicate', 'wrong-type', 'short', 'eof', 'error-status', 'ok-for-typed',
                            'cancel']:
                for _rep in range(ctx.n(1, 3)):
                    v = rng.choice(L.VERSIONS)
                    kinds = [rng.choice(kinds_pool) for _ in range(k)]
                    pi = list(range(k))
                    rng.shuffle(pi)
                    acts = [normal(v, kinds, i) for i in pi]
                    if anomaly == 'unknown-id':
                        bad_id = rng.choice([k + 5, 99999, 2 ** 32 - 1])
                        acts.insert(pos, ('raw', Byte(101) + UInt32(bad_id) + OK_STATUS))
                    elif anomaly == 'duplicate':
                        if pos == 0:
                            continue
                        acts.insert(pos, acts[rng.randrange(pos)])
                    elif anomaly == 'wrong-type':
                        if pos >= k:
                            continue
                        a = acts[pos]
                        wrong = rng.choice([t for t in [102, 103, 104, 105, 201, 0, 3, 255]
                                            if t != a[2]])
                        acts[pos] = ('reply', a[1], wrong, a[3])
                    elif anomaly == 'short':
                        acts.insert(pos, ('raw', rng.choice([b'', b'\x65', b'\x65\x00\x00\x00'])))
                    elif anomaly == 'eof':
                        acts.insert(pos, ('eof',))
                    elif anomaly == 'error-status':
                        if pos >= k:
                            continue
                        a = acts[pos]
                        acts[pos] = ('reply', a[1], 101, status_reply(rng.choice(list(range(1, 33)) + [77])))
                    elif anomaly == 'ok-for-typed':
                        if pos >= k:
                            continue
                        a = acts[pos]
                        acts[pos] = ('reply', a[1], 101, OK_STATUS)
                    elif anomaly == 'cancel':
                        # a caller gives up (timeout / task.cancel()) before its reply arrives; the server still
                        # answers it, exactly once: the late reply must be dropped and everybody else served
                        if pos >= k:
                            continue
                        acts.insert(pos, ('cancel', acts[pos][1]))
                        if rng.random() < 0.5:
                            acts.append(acts.pop(pos + 1))      # ... or after everybody else's
                    # make sure nobody is left waiting: end the session after the script
                    acts.append(('eof',))
                    scs.append(ClientScenario(v, kinds, acts, 'anomaly:' + anomaly))
    return scs


def gen_finish_scenarios(ctx: Ctx, rng: Any) -> List[ClientScenario]:
    """one caller, one crafted reply: every truncation/extension of every reply kind, status variants"""
    scs: List[ClientScenario] = []
    for v in L.VERSIONS:
        for kind in L.CLIENT_KINDS + ['read']:
            bodies: List[Tuple[int, bytes, str]] = []
            for _ in range(ctx.n(1, 3)):
                t, p = reply_for(kind, v, 0, rng)
                if kind == 'readlink' and rng.random() < 0.7:
                    names = [S.SFTPName(rng.choice([b'a', b'', b'\xff']), b'l',
                                        L.attrs_for_flags(rng, v, [b for b in L.FLAG_BITS[v] if rng.random() < 0.3]))
                             for _ in range(rng.choice([0, 1, 1, 2]))]
                    p = UInt32(len(names)) + b''.join(n.encode(v) for n in names) + \
                        (rng.choice([b'', b'\x01', b'\x00']) if v >= 6 else b'')
                if kind == 'read' and v >= 6:
                    p = p + rng.choice([b'', b'\x01', b'\x00'])
                bodies += [(t, p[:i], 'trunc') for i in range(len(p))]
                bodies += [(t, p, 'valid'), (t, p + b'\x00', 'ext'), (t, p + b'\x01', 'ext'),
                           (t, p + String(b'x'), 'ext')]
                for wt in [0, 3, 100, 101, 102, 103, 104, 105, 106, 200, 201, 255]:
                    bodies.append((wt, p, 'type'))
                bodies += [(t, L.mutate_bytes(rng, p), 'mutated') for _ in range(ctx.n(6, 40))]
            for code in list(range(0, 34)) + [255, 2 ** 32 - 1]:
                bodies.append((101, status_reply(code), 'status'))
                bodies.append((101, UInt32(code), 'status-bare'))
            for code in [0, 2, 4, 16]:
                full = status_reply(code, b'r\xc3\xa9ason', b'en-US')
                bodies += [(101, full[:i], 'status-trunc') for i in range(len(full))]
                bodies.append((101, status_reply(code, b'\xff\xfe', b'en'), 'status-bad-utf8'))
                bodies.append((101, status_reply(code, b'ok', b'\xc3\xa9'), 'status-bad-lang'))
                bodies.append((101, full + b'\x00', 'status-ext'))
                bodies.append((101, full + String(b'name1') + String(b'n\xc3\xa9'), 'status-names'))
                bodies.append((101, full + String(b'\xff'), 'status-names'))
                bodies.append((101, full + String(b'ok') + b'\x00\x00', 'status-names'))
            for t, p, note in bodies:
                scs.append(ClientScenario(v, [kind], [('reply', 0, t, p)], 'finish:' + note))
    return scs


def model_client(ctx: Ctx, scs: List[ClientScenario]) -> List[List[str]]:
    """expected per-caller outcomes according to the Lean model"""
    lines: List[str] = []
    spans: List[Tuple[int, int]] = []
    for sc in scs:
        start = len(lines)
        lines.append('cnew')
        if 'read' in sc.kinds:
            lines.append('creq 999')                    # the setup `open`
            lines.append('cpkt ' + hx(Byte(102) + UInt32(0) + String(b'FH')))
        for i in range(len(sc.kinds)):
            lines.append(f'creq {i}')
        for pkt in sc.sent:
            lines.append('ceof' if pkt == b'EOF' else 'cpkt ' + hx(pkt))
        spans.append((start, len(lines)))
    out = ctx.model(DRIVER, lines)
    fin_lines: List[str] = []
    fin_idx: List[Tuple[int, int]] = []
    expected: List[List[str]] = []
    for si, (sc, (a, b)) in enumerate(zip(scs, spans)):
        exp = ['hang'] * len(sc.kinds)
        ids_model: List[int] = []
        for line, o in zip(lines[a:b], out[a:b]):
            for item in (o.split(';') if o != '-' else []):
                ws = item.split(' ')
                if ws[0] == 'sent' and int(ws[1]) != 999:
                    ids_model.append(int(ws[2]))
                elif ws[0] == 'deliver' and int(ws[1]) != 999:
                    c = int(ws[1])
                    fin_lines.append(f'fin {sc.v} {L.key_token(L.KIND_KEY[sc.kinds[c]])} {ws[2]} {ws[3]}')
                    fin_idx.append((si, c))
                    exp[c] = '?'
                elif ws[0] == 'fail' and int(ws[1]) != 999:
                    exp[int(ws[1])] = {'badmsg': 'sftp 5', 'connlost': 'sftp 7', 'noconn': 'sftp 6'}[ws[2]]
        if ids_model != sc.real_ids:
            exp = ['id-allocation model=%s impl=%s' % (ids_model, sc.real_ids)] * len(sc.kinds)
        cancelled = {a[1] for a in sc.actions if a[0] == 'cancel'}
        expected.append(exp)
        sc.cancelled = cancelled
    if fin_lines:
        fo = ctx.model(DRIVER, fin_lines)
        for (si, c), o in zip(fin_idx, fo):
            if expected[si][c] == '?':
                expected[si][c] = L.expected_from_outcome(scs[si].kinds[c], o)
    for sc, exp in zip(scs, expected):
        # a caller that abandoned its request sees nothing; the model still routes (and drops) its reply
        for c in getattr(sc, 'cancelled', ()):
            if c < len(exp) and not exp[c].startswith('id-allocation'):
                exp[c] = 'cancelled'
    return expected


def run_client_scenarios(scs: List[ClientScenario]) -> None:
    async def go() -> None:
        rig = ClientRig()
        await rig.open()
        for sc in scs:
            try:
                await asyncio.wait_for(rig.run(sc), 20)
            except Exception as e:      # the client under test broke (mutated code): record it, start afresh
                sc.outcomes = ['hang'] * len(sc.kinds) if isinstance(e, asyncio.TimeoutError) else \
                    ['rig-broken:' + type(e).__name__] * len(sc.kinds)
                try:
                    rig.conn.abort()
                except Exception:
                    pass
                await pair.settle(5)
                rig = ClientRig()
                await rig.open()
        rig.conn.abort()
        await pair.settle(10)
    pair.run(go(), timeout=1500)


def corr_client(ctx: Ctx, res: CorrResult, hist: Hist) -> None:
    rng = ctx.subrng('client')
    scs = gen_client_scenarios(ctx, rng) + gen_finish_scenarios(ctx, rng)
    run_client_scenarios(scs)
    expected = model_client(ctx, scs)
    for sc, exp in zip(scs, expected):
        res.cases += 1
        hist.hit('client:' + sc.label)
        if not sc.req_ok:
            res.disagreements.append(Disagreement(case={'op': 'client-scenario', **sc.to_json()}, model='requests in '
                                                  'issue order with the caller\'s path', impl='unexpected request',
                                                  name='correspondence:client-requests'))
        elif exp != sc.outcomes:
            res.disagreements.append(Disagreement(case={'op': 'client-scenario', **sc.to_json()}, model=exp,
                                                  impl=sc.outcomes, name='correspondence:client-' +
                                                  sc.label.split(':')[0]))
    res.nontrivial += len(scs)
    res.samples.append({'scenario': scs[10].to_json(), 'model': expected[10], 'impl': scs[10].outcomes})


def correspondence(ctx: Ctx) -> CorrResult:
    res = CorrResult()
    hist = Hist()
    corr_codec(ctx, res, hist)
    corr_server(ctx, res, hist)
    corr_client(ctx, res, hist)
    res.histogram = dict(hist)
    res.rule = ('codec: every flag subset of versions 3-5 and (thorough: every, quick: 1200 sampled) of version 6 '
                'with random field values, perturbed (uncarryable) records, mutated/raw encodings; server: every '
                'handler x every truncation point of a valid body x 3 extensions x versions 3-6 with random scripted '
                'application outcomes, wrong handles, unsupported types, packets without id; client: every reply order '
                'for k<=4 (thorough 5 sampled) plus unknown/duplicate/wrong-type/short/eof at every position, and '
                'every truncation of every reply kind; distinct = distinct driver lines / packets / scenarios')
    return res


# ===================================================================================================
# oracle: the property on the real code
# ===================================================================================================


def oracle_codec(ctx: Ctx, res: OracleResult, hist: Hist) -> None:
    """round trip of carryable records and flag validity of every encoding, judged without the model"""
    rng = ctx.subrng('oracle-codec')
    valid = {3: 0x8000000f, 4: 0x800001fd, 5: 0x800003fd, 6: 0x8000fffd}       # the drafts' defined masks
    cands: List[Tuple[int, Any, bool]] = []
    for s in ctx.suspects:
        if isinstance(s, dict) and 'attrs' in s and 'v' in s:
            a = attrs_from_tokens(s['attrs'].split(' '))
            if a is not None:
                cands.append((int(s['v']), a, False))
    cands.append((3, S.SFTPAttrs(size=10, alloc_size=20), False))
    cands.append((4, S.SFTPAttrs(alloc_size=1), False))
    cands.append((5, S.SFTPAttrs(alloc_size=2 ** 64 - 1, permissions=0o644), False))
    for v in L.VERSIONS:
        for _ in range(ctx.n(1500, 30000)):
            bits = [b for b in L.FLAG_BITS[v] if rng.random() < 0.4]
            a = L.attrs_for_flags(rng, v, bits)
            sub_without_time = a.atime is None and a.crtime is None and a.mtime is None and a.ctime is None and \
                any(getattr(a, f) is not None for f in ('atime_ns', 'crtime_ns', 'mtime_ns', 'ctime_ns'))
            cands.append((v, a, not sub_without_time))
            if rng.random() < 0.3:
                cands.append((v, L.perturb_attrs(rng, a, v), False))
    seen_sig = set()
    for v, a, carry in cands:
        res.evaluations += 1
        try:
            b = a.encode(v)
        except (OverflowError, ValueError, TypeError):
            hist.hit('oracle-codec:raises')
            if carry:
                add_failure(res, seen_sig, 'attrs-encode-raises-for-carryable:v%d' % v,
                            f'encode({v}) raised for a record the version can carry: {L.attrs_tokens(a)}',
                            {'kind': 'attrs', 'v': v, 'attrs': L.attrs_tokens(a), 'expect': 'roundtrip'})
            continue
        flags = int.from_bytes(b[:4], 'big')
        bad = flags & ~valid[v]
        if bad:
            which = 'alloc_size-below-v6' if bad == 0x400 and v < 6 else '0x%08x' % bad
            add_failure(res, seen_sig, 'attrs-encode-invalid-flag:' + which,
                        f'SFTPAttrs.encode({v}) sets flag bits 0x{bad:08x} that version {v} does not define '
                        f'(its own decode rejects the result): {L.attrs_tokens(a)}',
                        {'kind': 'attrs', 'v': v, 'attrs': L.attrs_tokens(a), 'expect': 'valid-flags'})
            hist.hit('oracle-codec:invalid-flag')
            continue
        if carry:
            hist.hit(f'oracle-codec:v{v}:carryable')
            if not L.impl_roundtrip(a, v):
                add_failure(res, seen_sig, f'attrs-roundtrip-lost:v{v}:' + lost_fields(a, v),
                            f'decode({v}, encode({v}, a)) != a for {L.attrs_tokens(a)}: got {L.impl_decode(b, v)}',
                            {'kind': 'attrs', 'v': v, 'attrs': L.attrs_tokens(a), 'expect': 'roundtrip'})
        else:
            hist.hit(f'oracle-codec:v{v}:other')
    res.nontrivial += len(cands)


def lost_fields(a: Any, v: int) -> str:
    try:
        p = SSHPacket(a.encode(v))
        d = S.SFTPAttrs.decode(p, v)
    except Exception as e:
        return 'decode-raises-' + type(e).__name__
    diff = [k for k in a.__slots__ if k != 'extended' and getattr(a, k) != getattr(d, k)]
    if list(a.extended or ()) != list(d.extended or ()):
        diff.append('extended')
    return '+'.join(diff[:3]) or 'trailing'


def attrs_from_tokens(toks: Sequence[str]) -> Any:
    rev = {key: (kind, field) for kind, key, field in L.ORDER}
    a = S.SFTPAttrs()
    try:
        for t in toks:
            k, _, val = t.partition(':')
            if k == 'type':
                a.type = int(val)
            elif k == 'ext':
                a.extended = [(unhx(p.split('=')[0]), unhx(p.split('=')[1])) for p in val.split('+')]
            elif k in rev:
                kind, field = rev[k]
                setattr(a, field, int(val) if kind == 'n' else
                        (unhx(val).decode('utf-8') if kind == 's' else unhx(val)))
            else:
                return None
    except (ValueError, UnicodeDecodeError, IndexError):
        return None
    return a


def add_failure(res: OracleResult, seen: set, sig: str, what: str, replay: Dict[str, Any]) -> None:
    if sig in seen:
        return
    seen.add(sig)
    res.failures.append(Failure(signature=sig, what=what, replay=replay))


def reply_body_wellformed(rtype: int, v: int, raw: Optional[bytes]) -> bool:
    """the reply's body has the shape its type promises (a status body sent under another type does not)"""
    if raw is None or len(raw) < 5:
        return True             # nothing recorded: not judged here
    body = raw[5:]
    from asyncssh.packet import SSHPacket
    try:
        if rtype == 102:
            return len(body) >= 4 and 4 + int.from_bytes(body[:4], 'big') == len(body)
        if rtype == 103:
            n = int.from_bytes(body[:4], 'big')
            return len(body) >= 4 and (4 + n == len(body) or (v >= 6 and 4 + n + 1 == len(body)))
        if rtype == 104:
            pk = SSHPacket(body)
            count = pk.get_uint32()
            for _ in range(count):
                S.SFTPName.decode(pk, v)
            if v >= 6 and pk:
                pk.get_boolean()
            pk.check_end()
            return True
        if rtype == 105:
            pk = SSHPacket(body)
            S.SFTPAttrs.decode(pk, v)
            pk.check_end()
            return True
    except Exception:
        return False
    return True


def judge_server_records(records: List[Dict[str, Any]], res: OracleResult, hist: Hist, seen: set) -> None:
    """exactly one reply per request carrying an id, with that id, of a protocol-legal type; a truncated body or
    an unsupported type gives an error status and the session continues"""
    for i, rec in enumerate(records):
        res.evaluations += 1
        pkt, obs, note, key, v = rec['pkt'], rec['observed'], rec['note'], rec['key'], rec['v']
        rep = {'kind': 'server', 'v': v, 'packet': pkt.hex(), 'app': rec['app'], 'note': note,
               'key': key.hex() if isinstance(key, bytes) else key}
        kname = key.decode('latin1') if isinstance(key, bytes) else str(key)
        if len(pkt) < 5:
            hist.hit('oracle-server:no-id')
            if obs != 'end':
                add_failure(res, seen, 'server-reply-to-packet-without-id',
                            f'v{v}: packet {pkt.hex()} has no request id but the server answered {obs}', rep)
            continue
        want_id = int.from_bytes(pkt[1:5], 'big')
        if not obs.startswith('reply '):
            add_failure(res, seen, f'server-no-reply:{note}:{kname}:' + obs,
                        f'v{v}: request {pkt.hex()} ({note}, type/ext {kname}) got no reply: session {obs}', rep)
            hist.hit('oracle-server:no-reply')
            continue
        ws = obs.split(' ')
        rtype, rid = int(ws[1]), int(ws[2])
        if rid != want_id:
            add_failure(res, seen, f'server-reply-wrong-id:{note}:{kname}',
                        f'v{v}: request id {want_id} ({note}, {kname}) answered with id {rid}: {obs[:80]}', rep)
            continue
        legal = L.legal_reply_types(key) if key in L.KNOWN_HANDLERS else [101]
        if rtype not in legal:
            add_failure(res, seen, f'server-reply-illegal-type:{kname}:{rtype}',
                        f'v{v}: request {kname} answered with type {rtype}, legal are {legal}', rep)
            continue
        hist.hit('oracle-server:' + note)
        if not reply_body_wellformed(rtype, v, rec.get('reply_raw')):
            add_failure(res, seen, f'server-reply-body-malformed:{kname}:{rtype}',
                        f'v{v}: request {kname} ({note}) answered with a type-{rtype} packet whose body is not a '
                        f'well-formed body of that type: {obs[:120]}', rep)
            continue
        code = int(ws[4]) if ws[3] == 'status' else None
        if note in ('unsupported-type', 'unsupported-ext'):
            if code != L.FX_OP_UNSUPPORTED:
                add_failure(res, seen, f'server-unsupported-not-op-unsupported:{code}',
                            f'v{v}: unsupported request {kname} answered {obs[:60]} instead of FX_OP_UNSUPPORTED',
                            rep)
        elif note == 'ext-name-truncated' or (note == 'trunc' and not still_complete(key, v, pkt[5:])):
            if code is None or code == L.FX_OK:
                add_failure(res, seen, f'server-truncated-body-accepted:{kname}',
                            f'v{v}: truncated body of request {kname} ({pkt.hex()}) answered {obs[:60]}', rep)
            elif code != L.FX_BAD_MESSAGE and not attr_error_possible(key):
                add_failure(res, seen, f'server-malformed-wrong-status:{kname}:{code}',
                            f'v{v}: truncated body of request {kname} ({pkt.hex()}) answered status {code}, '
                            f'expected FX_BAD_MESSAGE', rep)


def still_complete(key: Any, v: int, body: bytes) -> bool:
    """a strict prefix of a valid body that is itself a complete body: only SFTPv6 REALPATH has an optional
    tail (the compose paths after the control byte)"""
    if key != 16 or v < 6:
        return False
    fs = L.first_string(body)
    if fs is None or len(body) < 4 + len(fs) + 1:
        return False
    rest = body[4 + len(fs) + 1:]
    while rest:
        s1 = L.first_string(rest)
        if s1 is None:
            return False
        rest = rest[4 + len(s1):]
    return True


def attr_error_possible(key: Any) -> bool:
    # truncating inside an attribute block can cut a string so that an owner/group/MIME check fires first
    return key in (3, 9, 10, 14, b'lsetstat@openssh.com')


def oracle_server(ctx: Ctx, res: OracleResult, hist: Hist, seen: set, prior: Optional[List[Dict[str, Any]]]) -> None:
    records = list(prior or [])
    if ctx.escalated or not records:
        records += run_server(ctx, 'oracle-server', ctx.n(1, 3))
    judge_server_records(records, res, hist, seen)
    res.nontrivial += len(set((r['v'], r['pkt']) for r in records))
    # the session must survive a malformed request: a valid request right after each kind of malformation
    rng = ctx.subrng('oracle-server-survive')

    async def survive() -> List[Tuple[int, str, str, str]]:
        out = []
        sr = ServerRun(rng)
        await sr.open_conn()
        for v in L.VERSIONS:
            await sr.new_session(v)
            for bad in [Byte(13) + UInt32(5), Byte(13) + UInt32(5) + b'\x00\x00', Byte(99) + UInt32(6) + b'zz',
                        Byte(200) + UInt32(7) + b'\x00\x00\x00\x10abc', Byte(9) + UInt32(8) + String(b'/p') +
                        b'\xff\xff\xff\xff', Byte(5) + UInt32(9) + String(b'nohandle') + UInt64(0) + UInt32(1)]:
                r1 = await sr.send(v, None, bad, L.Script(), b'', 'survive-bad')
                r2 = await sr.send(v, 13, Byte(13) + UInt32(4242) + String(b'/after'), L.Script(), b'', 'survive-next')
                out.append((v, bad.hex(), r1['observed'], r2['observed']))
                if sr.sess is None or sr.sess.ended or sr.sess.silent:
                    await sr.new_session(v)
        sr.conn.abort()
        await pair.settle(10)
        return out
    for v, bad, o1, o2 in pair.run(survive(), timeout=600):
        res.evaluations += 1
        hist.hit('oracle-server:survives-malformed')
        if not o1.startswith('reply 101 ') or o2 != 'reply 101 4242 status 0':
            add_failure(res, seen, 'server-session-ends-on-malformed-request',
                        f'v{v}: after malformed request {bad} (answer: {o1}) the next valid request got: {o2}',
                        {'kind': 'server-survive', 'v': v, 'packet': bad})


# the documented local-error -> status mapping (SFTP drafts' meaning of each code), and the rule that a peer
# never sees a code its negotiated version does not define
DOC_ERRNO = {'ENOENT': 2, 'EACCES': 3, 'EEXIST': 11, 'EROFS': 12, 'ENOSPC': 14, 'EDQUOT': 15, 'ENOTEMPTY': 18,
             'ENOTDIR': 19, 'ENAMETOOLONG': 20, 'EILSEQ': 20, 'ELOOP': 21, 'EINVAL': 23, 'EISDIR': 24}
VERSION_END = {3: 8, 4: 13, 5: 17, 6: 31}


def doc_status(code: int, v: int) -> int:
    if code == 19 and v < 6:
        return 2                    # "not a directory" is reported as "no such file" before SFTPv6
    if code <= 31 and code > VERSION_END[v]:
        return 4
    return code


def oracle_error_codes(ctx: Ctx, res: OracleResult, hist: Hist, seen: set) -> None:
    import errno as E
    rng = ctx.subrng('oracle-errors')
    cases: List[Tuple[int, Tuple[str, int], int, str]] = []
    for v in L.VERSIONS:
        for name, code in DOC_ERRNO.items():
            cases.append((v, ('os', getattr(E, name)), doc_status(code, v), name))
        for other in ['EPERM', 'EIO', 'EBADF', 'EBUSY', 'EXDEV', 'EMFILE']:
            cases.append((v, ('os', getattr(E, other)), 4, other))
        for code in range(1, 32):
            cases.append((v, ('sftp', code), doc_status(code, v), 'SFTPError(%d)' % code))
        cases.append((v, ('notimpl', 0), 8, 'NotImplementedError'))
        cases.append((v, ('other', 0), 4, 'ZeroDivisionError'))

    async def go() -> List[str]:
        out = []
        sr = ServerRun(rng)
        await sr.open_conn()
        cur = None
        for v, exc, _want, _name in cases:
            if cur != v:
                await sr.new_session(v)
                cur = v
            key = rng.choice([13, 14, 15, 17, 18, 19])
            body = L.valid_body(rng, key, v, b'', b'')
            rec = await sr.send(v, key, L.request_packet(key, sr.pktid(), body), L.Script(exc=exc), body, 'error-map')
            out.append(rec['observed'])
        sr.conn.abort()
        await pair.settle(10)
        return out
    for (v, exc, want, name), obs in zip(cases, pair.run(go(), timeout=600)):
        res.evaluations += 1
        hist.hit('oracle-server:error-map')
        ws = obs.split(' ')
        got = int(ws[4]) if len(ws) >= 5 and ws[3] == 'status' else None
        if got != want:
            add_failure(res, seen, f'server-local-error-wrong-status:{name}:v{v}',
                        f'v{v}: application raised {name}; documented status is {want}, the server answered {obs}',
                        {'kind': 'server-error', 'v': v, 'exc': list(exc), 'want': want})
    res.nontrivial += len(cases)


def judge_client_scenario(sc: ClientScenario) -> Optional[Tuple[str, str]]:
    """(signature, description) if the scenario shows a caller without its own answer"""
    k = len(sc.kinds)
    if not sc.req_ok or len(sc.real_ids) != k or len(set(sc.real_ids)) != k:
        return ('client-request-ids-not-distinct', f'request ids {sc.real_ids} for {k} concurrent requests')
    # replay what the server did, by the protocol's rules: the first reply carrying a caller's id is its answer
    answered: Dict[int, Tuple[int, bytes]] = {}
    broken_at: Optional[int] = None
    for n, pkt in enumerate(sc.sent):
        if pkt == b'EOF':
            broken_at = n
            break
        if len(pkt) < 5:
            broken_at = n
            break
        rid = int.from_bytes(pkt[1:5], 'big')
        if rid in sc.real_ids and sc.real_ids.index(rid) not in answered:
            answered[sc.real_ids.index(rid)] = (pkt[0], pkt[5:])
        else:
            broken_at = n           # unknown or duplicate id: the session is torn down
            break
    gave_up = {a[1] for a in sc.actions if a[0] == 'cancel'}
    for c in range(k):
        got = sc.outcomes[c]
        if c in gave_up and got == 'cancelled':
            continue
        if got.startswith('rig-broken'):
            return ('client-session-unusable:' + sc.label, f'the SFTP client could not even issue the requests of '
                    f'this scenario ({got}): an earlier scenario left the connection unusable')
        if got == 'hang':
            return ('client-caller-hangs:' + sc.label, f'caller {c} ({sc.kinds[c]}) never completed; '
                    f'sent={[p.hex() for p in sc.sent]} outcomes={sc.outcomes}')
        if c in answered:
            t, payload = answered[c]
            legal = L.legal_reply_types(L.KIND_KEY[sc.kinds[c]])
            if t not in legal:
                if got != 'sftp 5':
                    return ('client-wrong-type-not-bad-message', f'caller {c} ({sc.kinds[c]}) was sent reply type {t} '
                            f'and ended with {got!r} instead of SFTPBadMessage')
                continue
            own = own_answer(sc.kinds[c], sc.v, c, t, payload)
            if sc.label.startswith('finish:') and sc.label != 'finish:valid' and got == 'sftp 5':
                continue        # a crafted (truncated / extended / mutated) reply may be refused as a bad message
            if own is not None and got != own:
                return ('client-caller-got-foreign-answer:' + sc.label,
                        f'caller {c} ({sc.kinds[c]}) should have received {own!r} but got {got!r}; '
                        f'order={[p.hex()[:18] for p in sc.sent]}')
        else:
            if broken_at is None:
                return ('client-scenario-incomplete', 'scenario left a caller unanswered without ending')
            if not got.startswith('sftp '):
                return ('client-unanswered-caller-no-sftp-error', f'caller {c} was never answered and the session '
                        f'broke, but it ended with {got!r}')
    return None


def own_answer(kind: str, v: int, tag: int, t: int, payload: bytes) -> Optional[str]:
    """the value only this caller's well-formed success reply carries (None: not a tagged success reply)"""
    if kind == 'stat' and t == 105:
        return None if (1000 + tag).to_bytes(8, 'big') not in payload else 'size-tag'
    if kind == 'open' and t == 102 and payload == String(b'h%d' % tag):
        return 'ok handle ' + hx(b'h%d' % tag)
    if kind == 'readlink' and t == 104 and (b'target%d' % tag) in payload:
        return 'ok bytes ' + hx(b'target%d' % tag)
    if kind == 'read' and t == 103 and payload.startswith(String(b'D%03d' % tag)):
        return 'ok bytes ' + hx(b'D%03d' % tag)
    if kind == 'statvfs' and t == 201 and len(payload) == 88:
        return 'ok vfs ' + hx(payload)
    if kind == 'remove' and t == 101 and payload == OK_STATUS:
        return 'ok none'
    return None


def oracle_client(ctx: Ctx, res: OracleResult, hist: Hist, seen: set) -> None:
    rng = ctx.subrng('oracle-client')
    scs = gen_client_scenarios(ctx, rng)
    for s in ctx.suspects:
        if isinstance(s, dict) and s.get('op') == 'client-scenario':
            try:
                scs.insert(0, ClientScenario.from_json(s))
            except Exception:
                pass
    run_client_scenarios(scs)
    for sc in scs:
        res.evaluations += 1
        hist.hit('oracle-client:' + sc.label)
        # the stat tag is checked on the decoded value
        verdict = judge_client_scenario(fix_stat_tags(sc))
        if verdict:
            add_failure(res, seen, verdict[0], verdict[1], {'kind': 'client', 'scenario': sc.to_json()})
    res.nontrivial += len(scs)


def fix_stat_tags(sc: ClientScenario) -> ClientScenario:
    """`stat` outcomes are compared through their size tag only"""
    outs = []
    for c, o in enumerate(sc.outcomes):
        if sc.kinds[c] == 'stat' and o.startswith('ok attrs ') and f'size:{1000 + c}' in o.split(' ')[2].split(','):
            outs.append('size-tag')
        else:
            outs.append(o)
    sc2 = ClientScenario(sc.v, sc.kinds, sc.actions, sc.label)
    sc2.real_ids, sc2.sent, sc2.outcomes, sc2.req_ok = sc.real_ids, sc.sent, outs, sc.req_ok
    return sc2


_SERVER_RECORDS: List[Dict[str, Any]] = []


SIG_BIG_TIME = 'server-wellformed-request-not-dispatched:attrs-time-beyond-ctime-range'


async def big_time_probe(rng: Any, v: int, t: int) -> Tuple[str, List[str]]:
    """a well-formed SETSTAT whose attributes carry the time `t`: (observed reply, application calls)"""
    sr = ServerRun(rng)
    await sr.open_conn()
    await sr.new_session(v)
    body = String(b'/p') + S.SFTPAttrs(atime=t, mtime=t).encode(v)
    rec = await sr.send(v, 9, L.request_packet(9, 77, body), L.Script(), body, 'big-time')
    sr.conn.abort()
    await pair.settle(10)
    return rec['observed'], list(rec['calls'])


def oracle_big_times(ctx: Ctx, res: OracleResult, hist: Hist, seen: set) -> None:
    """Every well-formed request is handed to the application, whose result decides the reply (the model's
    `handlerResult`): also when its attributes carry a time the platform's calendar functions cannot print (the server
    formats the attributes of OPEN/SETSTAT/FSETSTAT/MKDIR for a debug message before handling the request)."""
    rng = ctx.subrng('oracle-big-times')
    for v in (4, 5, 6):
        for t in (2 ** 33, 2 ** 56, 2 ** 60, 2 ** 63, 2 ** 64 - 1):
            obs, calls = pair.run(big_time_probe(rng, v, t), timeout=60)
            res.evaluations += 1
            hist.hit('oracle-server:big-time:' + ('dispatched' if 'setstat' in calls else 'NOT-dispatched'))
            if obs != 'reply 101 77 status 0' or 'setstat' not in calls:
                add_failure(res, seen, SIG_BIG_TIME,
                            f'v{v}: well-formed SETSTAT with atime=mtime={t} was answered "{obs}" and the application\'s '
                            f'setstat() was {"" if "setstat" in calls else "NOT "}called: formatting the attributes for the '
                            f'debug log (time.ctime) raised before the request was handled',
                            {'kind': 'big-time', 'v': v, 't': t})


def oracle(ctx: Ctx) -> OracleResult:
    res = OracleResult()
    hist = Hist()
    seen: set = set()
    oracle_codec(ctx, res, hist)
    oracle_big_times(ctx, res, hist, seen)
    oracle_server(ctx, res, hist, seen, _SERVER_RECORDS)
    oracle_error_codes(ctx, res, hist, seen)
    oracle_client(ctx, res, hist, seen)
    res.histogram = dict(hist)
    res.samples = [{'oracle': 'attrs round trip / flag validity on real SFTPAttrs'},
                   {'oracle': 'one reply, same id, protocol-legal type for every raw request to a real server'},
                   {'oracle': 'k concurrent callers against a scripted server: everybody gets its own tagged answer'}]
    res.rule = ('real code only: carryable-by-construction records must round trip and every encoding must stay '
                'inside the version\'s defined flag mask; every raw request (all handlers x all truncations x versions) '
                'gets one reply with its id and a type legal by the SFTP drafts, truncated -> error status, session '
                'survives; concurrent callers receive their own tagged replies in every order, nobody hangs after an '
                'unknown/duplicate id; distinct = distinct records / packets / scenarios')
    return res


# ===================================================================================================
# replay
# ===================================================================================================


def replay(ctx: Ctx, rep: Dict[str, Any]) -> List[Failure]:
    r = rep.get('replay', rep)
    res = OracleResult()
    hist = Hist()
    seen: set = set()
    kind = r.get('kind')
    if kind == 'attrs':
        a = attrs_from_tokens(r['attrs'])
        if a is None:
            return []
        v = int(r['v'])
        try:
            b = a.encode(v)
        except (OverflowError, ValueError, TypeError):
            return [Failure('attrs-encode-raises', 'encode raises', r)] if r.get('expect') == 'roundtrip' else []
        valid = {3: 0x8000000f, 4: 0x800001fd, 5: 0x800003fd, 6: 0x8000fffd}
        bad = int.from_bytes(b[:4], 'big') & ~valid[v]
        if bad:
            return [Failure('attrs-encode-invalid-flag', f'flags 0x{bad:08x} outside version {v}', r)]
        if r.get('expect') == 'roundtrip' and not L.impl_roundtrip(a, v):
            return [Failure('attrs-roundtrip-lost', L.impl_decode(b, v), r)]
        return []
    if kind in ('server', 'server-survive'):
        v = int(r['v'])
        pkt = bytes.fromhex(r['packet'])
        key: Any = r.get('key')
        if isinstance(key, str):
            key = bytes.fromhex(key)

        async def go() -> List[Dict[str, Any]]:
            sr = ServerRun(ctx.subrng('replay'))
            await sr.open_conn()
            await sr.new_session(v)
            await sr.handle(v)
            await sr.handle(v, True)
            sr.records = []
            script = L.Script()
            app = r.get('app', 'app=unit')
            if app.startswith('app=raise:'):
                ws = app[len('app=raise:'):].split(':')
                script = L.Script(exc=(ws[0], int(ws[1]) if len(ws) > 1 else 0))
            await sr.send(v, key, pkt, script, b'', r.get('note', 'replay'))
            if kind == 'server-survive' and not (sr.sess is None or sr.sess.ended):
                await sr.send(v, 13, Byte(13) + UInt32(4242) + String(b'/after'), L.Script(), b'', 'survive-next')
            sr.conn.abort()
            await pair.settle(10)
            return sr.records
        recs = pair.run(go(), timeout=120)
        judge_server_records(recs[:1], res, hist, seen)
        if kind == 'server-survive' and (len(recs) < 2 or recs[1]['observed'] != 'reply 101 4242 status 0'):
            res.failures.append(Failure('server-session-ends-on-malformed-request', str([x['observed'] for x in recs]), r))
        return res.failures
    if kind == 'server-error':
        v = int(r['v'])

        async def go2() -> str:
            sr = ServerRun(ctx.subrng('replay'))
            await sr.open_conn()
            await sr.new_session(v)
            body = String(b'/x')
            rec = await sr.send(v, 13, L.request_packet(13, 7, body), L.Script(exc=(r['exc'][0], int(r['exc'][1]))),
                                body, 'error-map')
            sr.conn.abort()
            await pair.settle(10)
            return rec['observed']
        obs = pair.run(go2(), timeout=60)
        if obs != f"reply 101 7 status {r['want']}":
            return [Failure('server-local-error-wrong-status', obs, r)]
        return []
    if kind == 'big-time':
        obs, calls = pair.run(big_time_probe(ctx.subrng('replay'), int(r['v']), int(r['t'])), timeout=60)
        if obs != 'reply 101 77 status 0' or 'setstat' not in calls:
            return [Failure(SIG_BIG_TIME, f'answered {obs}, calls {calls}', r)]
        return []
    if kind == 'client':
        sc = ClientScenario.from_json(r['scenario'])
        run_client_scenarios([sc])
        verdict = judge_client_scenario(fix_stat_tags(sc))
        return [Failure(verdict[0], verdict[1], r)] if verdict else []
    return []
