"""C03 translator: regenerates lean/AsyncsshModel/Gen/C03.lean from the current asyncssh tree.

Tables (dumped from the live module objects): message numbers, the non-GSS key-exchange registry with the
handler class mapped to a message form, the DH groups, the group-exchange size constants, the encryption table
with its needs-a-MAC flag, the default algorithm lists, the banner/version length limits.
From the AST: the extra KEXINIT markers (`_get_extra_kex_algs`), the strict-kex markers looked for in
`_process_kexinit`, the order of the fields of `get_hash_prefix`, the order of the `update()` calls of the two
`_compute_hash` methods, and the two DH range checks as Lean propositions.
Anything the translator does not recognise raises `Untranslatable` (a broken tie, not a violation by itself).
"""
from __future__ import annotations

import ast
import importlib
from typing import Any, Dict, List, Tuple

import translate as T
import vlib

FORMS = {'_KexDH': 'dh', '_KexDHGex': 'gex', '_KexECDH': 'ecdh', '_KexHybridECDH': 'hybrid', '_KexRSA': 'rsa'}


def _const_bytes_list(node: ast.AST, what: str) -> List[bytes]:
    if not isinstance(node, (ast.List, ast.Tuple)):
        raise T.Untranslatable(f'{what}: not a literal list')
    out = []
    for e in node.elts:
        if not (isinstance(e, ast.Constant) and isinstance(e.value, bytes)):
            raise T.Untranslatable(f'{what}: element is not a bytes literal')
        out.append(e.value)
    return out


def _is_call_self(node: ast.AST, meth: str) -> bool:
    return (isinstance(node, ast.Call) and isinstance(node.func, ast.Attribute) and node.func.attr == meth
            and isinstance(node.func.value, ast.Name) and node.func.value.id == 'self' and not node.args)


def extra_kex_algs(tree: ast.AST) -> Tuple[List[bytes], List[bytes]]:
    fn = T.find_def(tree, 'SSHConnection._get_extra_kex_algs')
    ifs = [n for n in fn.body if isinstance(n, ast.If)]     # type: ignore
    if len(ifs) != 1 or not _is_call_self(ifs[0].test, 'is_client'):
        raise T.Untranslatable('_get_extra_kex_algs: expected `if self.is_client(): return [...] else: return [...]`')
    node = ifs[0]
    if not (len(node.body) == 1 and isinstance(node.body[0], ast.Return) and len(node.orelse) == 1
            and isinstance(node.orelse[0], ast.Return)):
        raise T.Untranslatable('_get_extra_kex_algs: unexpected body')
    return (_const_bytes_list(node.body[0].value, 'extra client algs'),
            _const_bytes_list(node.orelse[0].value, 'extra server algs'))


def strict_markers(tree: ast.AST) -> Tuple[bytes, bytes]:
    """(marker a server looks for in the client's list, marker a client looks for in the server's list)"""
    fn = T.find_def(tree, 'SSHConnection._process_kexinit')
    top = [n for n in fn.body if isinstance(n, ast.If) and _is_call_self(n.test, 'is_server')   # type: ignore
           and n.orelse and '_strict_kex' in ast.unparse(n)]
    if len(top) != 1:
        raise T.Untranslatable('_process_kexinit: `if self.is_server():` not found exactly once')

    def marker(stmts: List[ast.stmt]) -> bytes:
        found = []
        for s in stmts:
            for n in ast.walk(s):
                if isinstance(n, ast.If) and isinstance(n.test, ast.Compare) and len(n.test.ops) == 1 and \
                        isinstance(n.test.ops[0], ast.In) and isinstance(n.test.left, ast.Constant) and \
                        isinstance(n.test.left.value, bytes) and \
                        any(isinstance(b, ast.Assign) and T._name_of(b.targets[0]) == 'self._strict_kex'
                            for b in n.body):
                    if ast.unparse(n.test.comparators[0]) != 'peer_kex_algs':
                        raise T.Untranslatable('_process_kexinit: strict marker tested against ' +
                                               ast.unparse(n.test.comparators[0]))
                    found.append(n.test.left.value)
        if len(found) != 1:
            raise T.Untranslatable('_process_kexinit: strict-kex marker test not found')
        return found[0]
    return marker(top[0].body), marker(top[0].orelse)


def hash_prefix_order(tree: ast.AST) -> List[str]:
    fn = T.find_def(tree, 'SSHConnection.get_hash_prefix')
    rets = [n for n in ast.walk(fn) if isinstance(n, ast.Return)]
    if len(rets) != 1:
        raise T.Untranslatable('get_hash_prefix: expected one return')
    v = rets[0].value
    if not (isinstance(v, ast.Call) and isinstance(v.func, ast.Attribute) and v.func.attr == 'join' and
            isinstance(v.func.value, ast.Constant) and v.func.value.value == b'' and len(v.args) == 1 and
            isinstance(v.args[0], (ast.Tuple, ast.List))):
        raise T.Untranslatable("get_hash_prefix: expected b''.join((...))")
    names = {'self._client_version': 'String(client_version)', 'self._server_version': 'String(server_version)',
             'self._client_kexinit': 'String(client_kexinit)', 'self._server_kexinit': 'String(server_kexinit)'}
    out = []
    for e in v.args[0].elts:
        if isinstance(e, ast.Call) and isinstance(e.func, ast.Name) and e.func.id == 'String' and len(e.args) == 1 \
                and ast.unparse(e.args[0]) in names:
            out.append(names[ast.unparse(e.args[0])])
        elif ast.unparse(e) in names:
            out.append(names[ast.unparse(e)].replace('String(', 'Raw('))
        else:
            raise T.Untranslatable('get_hash_prefix: element ' + ast.unparse(e))
    return out


def update_order(fn: ast.AST, names: Dict[str, str], what: str) -> List[str]:
    out = []
    for n in ast.walk(fn):
        if isinstance(n, ast.Call) and isinstance(n.func, ast.Attribute) and n.func.attr == 'update':
            src = ast.unparse(n.args[0])
            if src not in names:
                raise T.Untranslatable(f'{what}: hash_obj.update({src}) not understood')
            out.append((n.lineno, n.col_offset, names[src]))
    if not out:
        raise T.Untranslatable(f'{what}: no update() call found')
    return [x[2] for x in sorted(out)]


def range_check(fn: ast.AST, var: str, what: str) -> str:
    """`if not <range test on var, self._p>: raise ProtocolError` -> Lean proposition over (x p : Int)."""
    for n in fn.body:   # type: ignore
        if isinstance(n, ast.If) and isinstance(n.test, ast.UnaryOp) and isinstance(n.test.op, ast.Not) and \
                len(n.body) == 1 and isinstance(n.body[0], ast.Raise) and 'ProtocolError' in ast.unparse(n.body[0]):
            return T.expr_to_lean(n.test.operand, {var: 'x', 'self._p': 'p'})
    raise T.Untranslatable(f'{what}: `if not <range test>: raise ProtocolError(...)` not found')


def _calls(node: ast.AST, attr: str) -> List[ast.Call]:
    return [n for n in ast.walk(node) if isinstance(n, ast.Call) and isinstance(n.func, ast.Attribute)
            and n.func.attr == attr]


def host_key_alg_flags(tree: ast.AST) -> Dict[str, bool]:
    """What the code does with the server host key algorithm (each flag is a fact a theorem of Props/C03 needs):

    sigAlgPerConnection     `choose_server_host_key` never calls `set_sig_algorithm` on a key pair taken from the
                            shared `self._server_host_keys` mapping: every such call is on a name that was
                            bound to a `copy(...)` first (or there is no such call at all)
    clientChoosesHostKeyAlg `_process_kexinit` stores `_choose_alg(.., self._server_host_key_algs,
                            peer_host_key_algs)` in `self._host_key_alg`
    clientChecksKeyAlg      `validate_server_host_key` hands `self._host_key_alg` to `_validate_host_key`, which
                            refuses a certificate / key whose `host_key_algorithms` / `sig_algorithms` lack it
    clientChecksSigAlg      `validate_server_host_key` compares the algorithm named in the signature with
                            `get_signature_alg(self._host_key_alg)` and raises KeyExchangeFailed otherwise, or
                            restricts the returned key to that one signature algorithm"""
    flags: Dict[str, bool] = {}
    fn = T.find_def(tree, 'SSHServerConnection.choose_server_host_key')
    ok = True
    for call in _calls(fn, 'set_sig_algorithm'):
        tgt = ast.unparse(call.func.value)          # type: ignore
        copied = any(isinstance(n, ast.Assign) and len(n.targets) == 1 and ast.unparse(n.targets[0]) == tgt
                     and isinstance(n.value, ast.Call) and ast.unparse(n.value.func) in ('copy', 'copy.copy')
                     and len(n.value.args) == 1 and n.lineno < call.lineno for n in ast.walk(fn))
        ok = ok and copied
    flags['sigAlgPerConnection'] = ok
    pk = T.find_def(tree, 'SSHConnection._process_kexinit')
    flags['clientChoosesHostKeyAlg'] = any(
        isinstance(n, ast.Assign) and len(n.targets) == 1 and ast.unparse(n.targets[0]) == 'self._host_key_alg'
        and isinstance(n.value, ast.Call) and ast.unparse(n.value.func) == 'self._choose_alg'
        and [ast.unparse(a) for a in n.value.args[1:]] == ['self._server_host_key_algs', 'peer_host_key_algs']
        for n in ast.walk(pk))
    try:
        vs = T.find_def(tree, 'SSHClientConnection.validate_server_host_key')
        vh = T.find_def(tree, 'SSHConnection._validate_host_key')
    except T.Untranslatable:
        raise
    params = [a.arg for a in vh.args.args]          # type: ignore
    passed = None
    for call in _calls(vs, '_validate_host_key'):
        for i, a in enumerate(call.args):
            if ast.unparse(a) == 'self._host_key_alg' and i + 1 < len(params):
                passed = params[i + 1]
        for kw in call.keywords:
            if ast.unparse(kw.value) == 'self._host_key_alg':
                passed = kw.arg
    tests = [ast.unparse(n.test) for n in ast.walk(vh) if isinstance(n, ast.If) and
             any(isinstance(b, ast.Raise) and 'ValueError' in ast.unparse(b) for b in n.body)]
    flags['clientChecksKeyAlg'] = passed is not None and \
        any(f'{passed} not in cert.host_key_algorithms' in t for t in tests) and \
        any(f'{passed} not in key.sig_algorithms' in t for t in tests)
    # either an explicit comparison that raises KeyExchangeFailed, or the key handed back to the key exchange is
    # restricted to the one signature algorithm (`host_key.all_sig_algorithms = {get_signature_alg(...)}`), so that
    # `host_key.verify()` refuses any other
    explicit = any(
        isinstance(n, ast.If) and isinstance(n.test, ast.Compare) and len(n.test.ops) == 1
        and isinstance(n.test.ops[0], ast.NotEq)
        and 'get_signature_alg(self._host_key_alg)' in (ast.unparse(n.test.left), ast.unparse(n.test.comparators[0]))
        and any(isinstance(b, ast.Raise) and 'KeyExchangeFailed' in ast.unparse(b) for b in n.body)
        for n in ast.walk(vs))
    rets = [ast.unparse(n.value) for n in ast.walk(vs) if isinstance(n, ast.Return) and n.value is not None]
    restricted = any(
        isinstance(n, ast.Assign) and len(n.targets) == 1 and isinstance(n.targets[0], ast.Attribute)
        and n.targets[0].attr == 'all_sig_algorithms' and ast.unparse(n.targets[0].value) in rets
        and ast.unparse(n.value) == '{get_signature_alg(self._host_key_alg)}'
        for n in ast.walk(vs))
    flags['clientChecksSigAlg'] = explicit or restricted
    return flags


def generate() -> Dict[str, Any]:
    conn_tree = ast.parse(T.read_source('asyncssh/connection.py'))
    dh_tree = ast.parse(T.read_source('asyncssh/kex_dh.py'))
    rsa_tree = ast.parse(T.read_source('asyncssh/kex_rsa.py'))
    kex = importlib.import_module('asyncssh.kex')
    kex_dh = importlib.import_module('asyncssh.kex_dh')
    kex_rsa = importlib.import_module('asyncssh.kex_rsa')
    consts = importlib.import_module('asyncssh.constants')
    connmod = importlib.import_module('asyncssh.connection')
    enc = importlib.import_module('asyncssh.encryption')
    mac = importlib.import_module('asyncssh.mac')
    cmp_ = importlib.import_module('asyncssh.compression')

    out = T.header('C03', ['asyncssh/kex.py (registry)', 'asyncssh/kex_dh.py', 'asyncssh/kex_rsa.py',
                           'asyncssh/connection.py (_get_extra_kex_algs, _process_kexinit, get_hash_prefix)',
                           'asyncssh/constants.py', 'asyncssh/encryption.py, mac.py, compression.py (live tables)'])
    out += 'namespace AsyncsshModel.Gen.C03\n\n'

    # ---- message numbers
    out += '/-! message numbers -/\n'
    msgs: List[Tuple[str, int]] = []
    for nm in ('MSG_DISCONNECT', 'MSG_IGNORE', 'MSG_UNIMPLEMENTED', 'MSG_DEBUG', 'MSG_KEXINIT', 'MSG_NEWKEYS',
               'MSG_KEX_FIRST', 'MSG_KEX_LAST', 'DISC_PROTOCOL_ERROR', 'DISC_KEY_EXCHANGE_FAILED',
               'DISC_HOST_KEY_NOT_VERIFIABLE'):
        msgs.append((nm, getattr(consts, nm)))
    for nm in ('MSG_KEXDH_INIT', 'MSG_KEXDH_REPLY', 'MSG_KEX_DH_GEX_REQUEST_OLD', 'MSG_KEX_DH_GEX_GROUP',
               'MSG_KEX_DH_GEX_INIT', 'MSG_KEX_DH_GEX_REPLY', 'MSG_KEX_DH_GEX_REQUEST', 'MSG_KEX_ECDH_INIT',
               'MSG_KEX_ECDH_REPLY', 'KEX_DH_GEX_MIN_SIZE', 'KEX_DH_GEX_PREFERRED_SIZE', 'KEX_DH_GEX_MAX_SIZE'):
        msgs.append((nm, getattr(kex_dh, nm)))
    for nm in ('MSG_KEXRSA_PUBKEY', 'MSG_KEXRSA_SECRET', 'MSG_KEXRSA_DONE'):
        msgs.append((nm, getattr(kex_rsa, nm)))
    for nm in ('_MAX_BANNER_LINES', '_MAX_BANNER_LINE_LEN', '_MAX_VERSION_LINE_LEN'):
        msgs.append((nm.lstrip('_'), getattr(connmod, nm)))
    for nm, v in msgs:
        if not isinstance(v, int) or v < 0:
            raise T.Untranslatable(f'{nm} is not a natural number')
        out += f'def {nm} : Nat := {v}\n'
    out += '\n'

    # ---- handler message numbers per class (which messages a kex handler dispatches)
    handlers: Dict[str, List[int]] = {}
    for cls_name in FORMS:
        cls = getattr(kex_dh, cls_name, None) or getattr(kex_rsa, cls_name, None)
        if cls is None:
            raise T.Untranslatable(f'kex handler class {cls_name} not found')
        handlers[FORMS[cls_name]] = sorted(cls._packet_handlers.keys())
    out += '/-- message numbers each key-exchange handler class dispatches (`_packet_handlers`) -/\n'
    out += 'def kexHandlerMsgs : List (String × List Nat) :=\n  ' + T.lean_list(
        [f'({T.lean_str(f)}, {T.lean_list([str(x) for x in ms])})' for f, ms in handlers.items()]) + '\n\n'

    # ---- DH groups
    groups: List[Tuple[int, int]] = []

    def group_index(g: int, p: int) -> int:
        if (g, p) not in groups:
            groups.append((g, p))
        return groups.index((g, p))
    gex_rows = []
    fallback = group_index(kex_dh._group1_g, kex_dh._group1_p)      # `g, p = _group1_g, _group1_p`
    for size, g, p in kex_dh._dh_gex_groups:
        gex_rows.append((size, group_index(g, p)))
    rows = []
    for alg in kex._kex_algs:
        handler, hash_alg, args = kex._kex_handlers[alg]
        if handler.__name__ not in FORMS:
            raise T.Untranslatable(f'kex handler class {handler.__name__} of {alg!r} is not modelled')
        form = FORMS[handler.__name__]
        gi = 0
        if form == 'dh':
            if len(args) != 2:
                raise T.Untranslatable(f'{alg!r}: expected (g, p) arguments')
            gi = group_index(args[0], args[1])
        hname = hash_alg().name
        rows.append((alg, form, hname, gi, alg in kex._default_kex_algs))
    out += '/-- the distinct Diffie-Hellman groups `(g, p)` of kex_dh.py -/\n'
    out += 'def dhGroups : List (Nat × Nat) :=\n  ' + T.lean_list([f'({g}, 0x{p:x})' for g, p in groups]) + '\n\n'
    out += '/-- `_dh_gex_groups`: (size in bits, index into `dhGroups`) in table order -/\n'
    out += 'def gexGroups : List (Nat × Nat) :=\n  ' + T.lean_list([f'({s}, {i})' for s, i in gex_rows]) + '\n\n'
    out += '/-- group used by `_process_request` when no table entry fits (`_group1_g, _group1_p`) -/\n'
    out += f'def gexFallbackGroup : Nat := {fallback}\n\n'
    out += '/-- the non-GSS registry in registration order: (name, message form, hash, index into `dhGroups` ' \
           '(form dh only), default) -/\n'
    out += 'def kexTable : List (String × String × String × Nat × Bool) :=\n  ' + T.lean_list(
        [f'({T.lean_str(a)}, {T.lean_str(f)}, {T.lean_str(h)}, {gi}, {T.lean_bool(d)})' for a, f, h, gi, d in rows]) \
        + '\n\n'
    out += '/-- GSS key exchange names (modelled at the message level only) -/\n'
    out += 'def gssKexAlgs : List String :=\n  ' + T.lean_list([T.lean_str(a) for a in kex._gss_kex_algs]) + '\n\n'

    # ---- other algorithm tables
    encs = enc.get_encryption_algs()
    out += '/-- encryption algorithms: (name, needs a separate MAC, default) -/\n'
    out += 'def encTable : List (String × Bool × Bool) :=\n  ' + T.lean_list(
        [f'({T.lean_str(e)}, {T.lean_bool(enc.encryption_needs_mac(e))}, '
         f'{T.lean_bool(e in enc.get_default_encryption_algs())})' for e in encs]) + '\n\n'
    out += 'def macAlgs : List String :=\n  ' + T.lean_list([T.lean_str(m) for m in mac.get_mac_algs()]) + '\n'
    out += 'def defaultMacAlgs : List String :=\n  ' + \
        T.lean_list([T.lean_str(m) for m in mac.get_default_mac_algs()]) + '\n'
    out += 'def cmpAlgs : List String :=\n  ' + \
        T.lean_list([T.lean_str(m) for m in cmp_.get_compression_algs()]) + '\n'
    out += 'def defaultCmpAlgs : List String :=\n  ' + \
        T.lean_list([T.lean_str(m) for m in cmp_.get_default_compression_algs()]) + '\n\n'

    # ---- KEXINIT markers
    ec, es = extra_kex_algs(conn_tree)
    sc, ss = strict_markers(conn_tree)
    out += '/-- pseudo-algorithms appended to the kex list of KEXINIT (`_get_extra_kex_algs`) -/\n'
    out += 'def extraKexClient : List String := ' + T.lean_list([T.lean_str(x) for x in ec]) + '\n'
    out += 'def extraKexServer : List String := ' + T.lean_list([T.lean_str(x) for x in es]) + '\n'
    out += '/-- strict-kex marker a server looks for in the client list / a client in the server list -/\n'
    out += f'def strictMarkerFromClient : String := {T.lean_str(sc)}\n'
    out += f'def strictMarkerFromServer : String := {T.lean_str(ss)}\n\n'

    # ---- the server host key algorithm
    pubkey = importlib.import_module('asyncssh.public_key')
    out += '/-- `_certificate_sig_alg_map`: certificate host key algorithm ↦ signature algorithm -/\n'
    out += 'def certSigAlgMap : List (String × String) :=\n  ' + T.lean_list(
        [f'({T.lean_str(k)}, {T.lean_str(v)})' for k, v in pubkey._certificate_sig_alg_map.items()]) + '\n\n'
    flags = host_key_alg_flags(conn_tree)
    out += '/-! what the code does with the negotiated server host key algorithm (from the AST of\n'
    out += '    `choose_server_host_key`, `_process_kexinit`, `validate_server_host_key`, `_validate_host_key`) -/\n'
    for k, v in flags.items():
        out += f'def {k} : Bool := {T.lean_bool(v)}\n'
    out += '\n'

    # ---- hash input construction
    pref = hash_prefix_order(conn_tree)
    dh_order = update_order(T.find_def(dh_tree, '_KexDHBase._compute_hash'), {
        'self._conn.get_hash_prefix()': 'prefix', 'String(host_key_data)': 'String(host_key)',
        'host_key_data': 'Raw(host_key)', 'self._gex_data': 'gex_data',
        'self._format_client_key()': 'client_key', 'self._format_server_key()': 'server_key', 'k': 'k'},
        '_KexDHBase._compute_hash')
    rsa_order = update_order(T.find_def(rsa_tree, '_KexRSA._compute_hash'), {
        'self._conn.get_hash_prefix()': 'prefix', 'String(self._host_key_data)': 'String(host_key)',
        'self._host_key_data': 'Raw(host_key)', 'String(self._trans_key_data)': 'String(trans_key)',
        'String(self._encrypted_k)': 'String(encrypted_k)', 'MPInt(self._k)': 'MPInt(k)'},
        '_KexRSA._compute_hash')
    out += '/-- `get_hash_prefix`: the joined fields in order -/\n'
    out += 'def hashPrefixOrder : List String := ' + T.lean_list([T.lean_str(x) for x in pref]) + '\n'
    out += '/-- `_KexDHBase._compute_hash`: the `update()` calls in order -/\n'
    out += 'def dhHashOrder : List String := ' + T.lean_list([T.lean_str(x) for x in dh_order]) + '\n'
    out += '/-- `_KexRSA._compute_hash`: the `update()` calls in order -/\n'
    out += 'def rsaHashOrder : List String := ' + T.lean_list([T.lean_str(x) for x in rsa_order]) + '\n\n'

    # ---- DH range checks
    cchk = range_check(T.find_def(dh_tree, '_KexDHBase._compute_client_shared'), 'self._f', 'client range check')
    schk = range_check(T.find_def(dh_tree, '_KexDHBase._compute_server_shared'), 'self._e', 'server range check')
    out += '/-- the test a client applies to the server value `f` (`_compute_client_shared`) -/\n'
    out += f'def dhClientRangeOk (x p : Int) : Prop :=\n  {cchk}\n'
    out += 'instance (x p : Int) : Decidable (dhClientRangeOk x p) := by unfold dhClientRangeOk; exact inferInstance\n'
    out += '/-- the test a server applies to the client value `e` (`_compute_server_shared`) -/\n'
    out += f'def dhServerRangeOk (x p : Int) : Prop :=\n  {schk}\n'
    out += 'instance (x p : Int) : Decidable (dhServerRangeOk x p) := by unfold dhServerRangeOk; exact inferInstance\n\n'
    out += 'end AsyncsshModel.Gen.C03\n'
    changed = vlib.write_if_changed(vlib.module_path('AsyncsshModel.Gen.C03'), out)
    return {'gen_file': 'Gen/C03.lean', 'changed': changed, 'kex_algs': len(rows), 'dh_groups': len(groups),
            'hash_prefix': pref, 'dh_hash_order': dh_order, 'rsa_hash_order': rsa_order,
            'range_checks': [cchk, schk], 'host_key_alg_flags': flags}
