"""C16 oracle, part 2: cases added after the model/code audit of 2026-09-26.

Each block evaluates a clause of the property text directly on the real code and reports at most one failing input
per root cause (further hits are counted in the histogram):

  cert-subject-key-error-leaks-exception          a CA-signed certificate whose subject key fields do not make a
                                                  key must be *refused* (KeyImportError / False), not escape as a
                                                  raw OverflowError from decode_ssh_certificate / validate_sshsig
  sshsig-accepts-host-certificate-signer          "its type matches the use": a HOST certificate of a listed CA
                                                  is not an SSHSIG signer
  allowed-signers-malformed-option-leaks-exception malformed options (`foo,foo=1`, bare `namespaces`) must give
                                                  the loader's ValueError, not AttributeError / TypeError
  sshsig-option-keyword-case-sensitive            "a signer the allowed-signers data authorises": option keywords
                                                  are case-insensitive in the file format (OpenSSH), so
                                                  `Namespaces=`, `Valid-Before=`, `Cert-Authority` restrict
  sshsig-ignores-unknown-option                   (recorded) an unknown / misspelt option is ignored, OpenSSH
                                                  refuses the line
  verify-accepts-edit-of-unbound-webauthn-field   (recorded) "fails if ... the signature ... differs in any way":
                                                  origin / extensions of a webauthn-sk signature are bound to nothing

`h` is the props.C16 module (keys, build_cert, clock, pub_line ...).
"""

from __future__ import annotations

import hashlib
from typing import Any, Dict, List, Optional, Tuple

import asyncssh
from asyncssh.packet import Byte, MPInt, String, UInt32

from vlib import Failure

SIG_SUBJECT = 'cert-subject-key-error-leaks-exception'
SIG_HOSTCERT = 'sshsig-accepts-host-certificate-signer'
SIG_OPTEXC = 'allowed-signers-malformed-option-leaks-exception'
SIG_OPTCASE = 'sshsig-option-keyword-case-sensitive'
SIG_OPTUNKNOWN = 'sshsig-ignores-unknown-option'
SIG_WEBAUTHN = 'verify-accepts-edit-of-unbound-webauthn-field'
RECORDED = (SIG_OPTUNKNOWN, SIG_WEBAUTHN)


class RawSubject:
    """A certificate subject given by its raw key fields (they need not make a key)."""

    def __init__(self, algorithm: bytes, fields: bytes):
        self.algorithm = algorithm
        self._fields = fields

    def encode_ssh_public(self) -> bytes:
        return self._fields


class Once:
    """keeps the first failing input per signature"""

    def __init__(self, hist: Any):
        self.fails: List[Failure] = []
        self.seen: Dict[str, int] = {}
        self.hist = hist

    def add(self, sig: str, what: str, replay: Dict[str, Any]) -> None:
        self.seen[sig] = self.seen.get(sig, 0) + 1
        self.hist.hit('audit:' + sig)
        if self.seen[sig] == 1:
            self.fails.append(Failure(sig, what, {'kind': 'audit', **replay}))


def bad_subjects(h: Any, rng: Any, n_random: int) -> List[Tuple[str, RawSubject]]:
    rsa = h.key('ssh-rsa', 1).convert_to_public()
    nums = rsa.pyca_key.public_numbers() if hasattr(rsa.pyca_key, 'public_numbers') else None
    out: List[Tuple[str, RawSubject]] = []
    if nums is not None:
        e, n = nums.e, nums.n
        for label, ee, nn in (('rsa e=-1', -1, n), ('rsa n=-n', e, -n), ('rsa e=0', 0, n), ('rsa n=1', e, 1),
                              ('rsa e=-e n=-n', -e, -n), ('rsa e even', 4, n), ('rsa n=0', e, 0)):
            out.append((label, RawSubject(b'ssh-rsa', MPInt(ee) + MPInt(nn))))
        for i in range(n_random):
            ee = rng.choice([e, -e, 0, 1, -1, rng.randint(-2 ** 40, 2 ** 40)])
            nn = rng.choice([n, -n, 0, 1, -1, rng.randint(-2 ** 80, 2 ** 80), n >> rng.randint(1, 2000)])
            out.append((f'rsa random e={ee if abs(ee) < 2 ** 41 else "±e"}', RawSubject(b'ssh-rsa', MPInt(ee) + MPInt(nn))))
    out += [
        ('dsa negative', RawSubject(b'ssh-dss', MPInt(-5) + MPInt(-3) + MPInt(2) + MPInt(3))),
        ('dsa zeros', RawSubject(b'ssh-dss', MPInt(0) * 4)),
        ('ed25519 31 bytes', RawSubject(b'ssh-ed25519', String(b'\1' * 31))),
        ('ed448 3 bytes', RawSubject(b'ssh-ed448', String(b'abc'))),
        ('ecdsa bad point', RawSubject(b'ecdsa-sha2-nistp256', String(b'nistp256') + String(b'\4' + b'\1' * 64))),
        ('ecdsa empty point', RawSubject(b'ecdsa-sha2-nistp256', String(b'nistp256') + String(b''))),
        ('ecdsa curve mismatch', RawSubject(b'ecdsa-sha2-nistp256', String(b'nistp384') + String(b'\4' + b'\1' * 64))),
        ('sk-ed25519 bad utf-8 application', RawSubject(b'sk-ssh-ed25519@openssh.com',
                                                        String(b'\1' * 32) + String(b'\xff\xfe'))),
    ]
    return out


def subject_key_errors(h: Any, ctx: Any, rng: Any, once: Once, res: Any) -> None:
    """finding 2"""
    ca = h.key('ssh-ed25519')
    signer_line = f'alice cert-authority {h.pub_line(ca)}\n'
    for label, subj in bad_subjects(h, rng, ctx.n(30, 300)):
        try:
            blob = h.build_cert(ca, subj, h.cert_alg_for(subj), ctype=1, key_id=b'id', principals=String('alice'),
                                after=0, before=2 ** 64 - 1, options=b'', exts=b'')
        except Exception:
            continue
        res.evaluations += 1
        st, _c = h.impl_cert(blob)
        if st.startswith('exc:'):
            once.add(SIG_SUBJECT,
                     f'decode_ssh_certificate on a certificate with a valid CA signature and subject key [{label}] '
                     f'raises {st[4:]} instead of KeyImportError (this is the call connect(), the server\'s public '
                     f'key auth and validate_sshsig make on untrusted bytes)',
                     {'case': 'decode', 'label': label, 'blob': blob.hex()})
        sig = b'SSHSIG' + UInt32(1) + String(blob) + String('file') + String(b'') + String(b'sha512') + \
            String(String(b'rsa-sha2-512') + String(b'x' * 256))
        res.evaluations += 1
        with h.clock(1500):
            try:
                got: Any = asyncssh.validate_sshsig(b'msg', sig, 'alice', signer_line.encode())
            except ValueError:
                got = 'ValueError'
            except Exception as e:
                got = 'exc:' + type(e).__name__
        if got is True:
            once.add('sshsig-accepts-garbage-signature', f'SSHSIG with certificate subject [{label}] validates',
                     {'case': 'sshsig', 'label': label, 'blob': blob.hex()})
        elif isinstance(got, str) and got.startswith('exc:'):
            once.add(SIG_SUBJECT,
                     f'validate_sshsig on a signature whose public-key field is a CA-signed certificate with subject '
                     f'key [{label}] raises {got[4:]} instead of returning False',
                     {'case': 'sshsig', 'label': label, 'blob': blob.hex()})


def _validate(h: Any, res: Any, hist: Any, msg: bytes, sig: bytes, principal: str, signers: str,
              now: Any = 1500) -> str:
    res.evaluations += 1
    with h.clock(now):
        try:
            return 'valid' if asyncssh.validate_sshsig(msg, sig, principal, signers.encode()) else 'invalid'
        except ValueError:
            return 'raises'
        except Exception as e:
            hist.hit('audit-sshsig-exception:' + type(e).__name__)
            return 'raises:' + type(e).__name__


def host_cert_signers(h: Any, ctx: Any, rng: Any, once: Once, res: Any, algs: List[str]) -> None:
    """finding 5: every (certificate type, principals, window, wanted principal, now)"""
    msg = b'signed with a certificate'
    combos: List[Tuple[str, str, str, List[str], str, Any]] = []
    for kind in ('user', 'host'):
        for princs in (['alice'], [], ['web1.example.com'], ['alice', 'web1.example.com']):
            for principal in ('alice', 'web1.example.com'):
                combos.append((algs[0], 'ssh-ed25519', kind, princs, principal, 1500))
    for _ in range(ctx.n(20, 200)):
        combos.append((rng.choice(algs), rng.choice(algs), rng.choice(['user', 'host']),
                       rng.choice([[], ['alice'], ['bob'], ['alice', 'bob']]), rng.choice(['alice', 'bob']),
                       rng.choice([999, 1000, 1500, 1999, 2000])))
    for kalg, caalg, kind, princs, principal, now in combos:
        k, ca = h.key(kalg), h.key(caalg)
        gen = ca.generate_user_certificate if kind == 'user' else ca.generate_host_certificate
        try:
            cert = gen(k, 'id', principals=princs, valid_after=1000, valid_before=2000)
            sig = asyncssh.create_sshsig((k, cert), msg, raw=True)
        except Exception as e:
            once.hist.hit('audit-hostcert-refused:' + type(e).__name__)
            continue
        signers = f'* cert-authority {h.pub_line(ca)}\n'
        got = _validate(h, res, once.hist, msg, sig, principal, signers, now)
        want = kind == 'user' and 1000 <= now < 2000 and (not princs or principal in princs)
        rp = {'case': 'hostcert', 'key': kalg, 'ca': caalg, 'type': kind, 'principals': princs,
              'principal': principal, 'now': str(now)}
        if got == 'valid' and kind == 'host':
            once.add(SIG_HOSTCERT,
                     f'a message signed with a HOST certificate (principals {princs}) of a CA listed as '
                     f'cert-authority validates as signed by {principal!r} at now={now}: the certificate\'s type does '
                     f'not match the use (ssh-keygen: "Certificate invalid: not a user certificate")', rp)
        elif (got == 'valid') != want:
            once.add('sshsig-cert-decision-wrong',
                     f'{kind} certificate {princs} window [1000,2000) as {principal!r} at now={now} -> {got}', rp)


OPT_NAMES = ['namespaces', 'valid-after', 'valid-before', 'cert-authority', 'foo', 'Namespaces', 'FOO', 'no-pty']
OPT_VALUES = ['"file"', 'git', '19700101001640Z', '1', '"a b"', 'x']
MALFORMED = ['foo,foo=1', 'cert-authority,cert-authority=x', 'namespaces', 'namespaces,namespaces="file"',
             'valid-after', 'valid-before', 'valid-after,valid-after=19700101001640Z', 'foo=1,foo', 'Foo,foo=1',
             'cert-authority=x,cert-authority', 'namespaces="file",namespaces', 'a,a=,a']


def malformed_options(h: Any, ctx: Any, rng: Any, once: Once, res: Any, algs: List[str]) -> None:
    """finding 3"""
    k = h.key('ssh-ed25519' if 'ssh-ed25519' in algs else algs[0])
    msg = b'options'
    sig = asyncssh.create_sshsig(k, msg, namespace='file', raw=True)
    forms = list(MALFORMED)
    for _ in range(ctx.n(60, 600)):
        parts = []
        for _i in range(rng.randint(1, 3)):
            n = rng.choice(OPT_NAMES)
            parts.append(n if rng.random() < 0.5 else n + '=' + rng.choice(OPT_VALUES))
        forms.append(','.join(parts))
    for opts in forms:
        text = f'alice {opts} {h.pub_line(k)}\n'
        got = _validate(h, res, once.hist, msg, sig, 'alice', text)
        if got.startswith('raises:'):
            once.add(SIG_OPTEXC,
                     f'allowed-signers line with options [{opts}] makes validate_sshsig raise {got[7:]} (the '
                     f'loader\'s error for a malformed line is ValueError)', {'case': 'optexc', 'options': opts})
        res.evaluations += 1
        try:
            with h.clock(1500):
                h.sshsig.import_allowed_signers(text)
        except ValueError:
            pass
        except Exception as e:
            once.add(SIG_OPTEXC, f'import_allowed_signers on a line with options [{opts}] raises '
                                 f'{type(e).__name__}', {'case': 'optexc-load', 'options': opts})


def recase(rng: Any, word: str) -> str:
    r = rng.random()
    if r < 0.3:
        return word.upper()
    if r < 0.6:
        return '-'.join(p.capitalize() for p in word.split('-'))
    out = ''.join(c.upper() if rng.random() < 0.5 else c for c in word)
    return out if out != word else word.capitalize()


def option_case(h: Any, ctx: Any, rng: Any, once: Once, res: Any, algs: List[str]) -> None:
    """finding 1 (keyword case) and the recorded part (unknown keywords)"""
    k = h.key('ssh-ed25519' if 'ssh-ed25519' in algs else algs[0])
    ca = h.key(algs[0])
    msg = b'keyword case'
    sig = asyncssh.create_sshsig(k, msg, namespace='file', raw=True)
    sig_ca = asyncssh.create_sshsig(ca, msg, namespace='file', raw=True)
    line, ca_line = h.pub_line(k), h.pub_line(ca)
    # (lower-case options, signature, key line, now): each must be INVALID as written in lower case
    base = [('namespaces="git"', sig, line, 1500, 'restricted to namespace git, signature is for file'),
            ('valid-before=19700101001640Z', sig, line, 1500, 'expired at 1000, now=1500'),
            ('valid-after=19700101003320Z', sig, line, 1500, 'not valid before 2000, now=1500'),
            ('cert-authority', sig_ca, ca_line, 1500, 'key listed as a CA only, message signed by that key itself'),
            ('namespaces="file",valid-before=19700101001640Z', sig, line, 1500, 'right namespace but expired')]
    for opts, s, ln, now, why in base:
        low = _validate(h, res, once.hist, msg, s, 'alice', f'alice {opts} {ln}\n', now)
        if low != 'invalid':
            once.add('sshsig-restriction-not-applied', f'[{opts}] ({why}) -> {low}', {'case': 'optcase-base', 'options': opts})
            continue
        variants = []
        name = opts.split('=', 1)[0]
        for _ in range(ctx.n(4, 20)):
            if ',' in opts:
                a, b = opts.split(',', 1)
                an, bn = a.split('=', 1)[0], b.split('=', 1)[0]
                variants.append(recase(rng, an) + a[len(an):] + ',' + rng.choice([bn, recase(rng, bn)]) + b[len(bn):])
            else:
                variants.append(recase(rng, name) + opts[len(name):])
        for var in dict.fromkeys(variants):
            got = _validate(h, res, once.hist, msg, s, 'alice', f'alice {var} {ln}\n', now)
            if got == 'valid':
                once.add(SIG_OPTCASE,
                         f'allowed-signers entry [{var}] ({why}) validates: the keyword is looked up '
                         f'case-sensitively and the restriction is dropped, while [{opts}] is refused (OpenSSH reads '
                         f'option keywords case-insensitively)', {'case': 'optcase', 'options': var})
    # unknown keywords: OpenSSH refuses the line ("bad options: unknown key option")
    for var, why in (('namespace="git"', 'misspelt namespaces= restriction'), ('no-such-option', 'unknown flag'),
                     ('valid_before=19700101001640Z', 'misspelt valid-before')):
        got = _validate(h, res, once.hist, msg, sig, 'alice', f'alice {var} {line}\n', 1500)
        if got == 'valid':
            once.add(SIG_OPTUNKNOWN,
                     f'allowed-signers entry with the unknown option [{var}] ({why}) authorises the signer: the '
                     f'option is ignored, OpenSSH refuses the line', {'case': 'optunknown', 'options': var})


def sk_signatures(h: Any, ctx: Any, rng: Any, once: Once, res: Any, deep: bool) -> None:
    """finding 4: security-key signature formats with a software key as the authenticator"""
    from cryptography.hazmat.primitives import hashes
    from cryptography.hazmat.primitives.asymmetric import ec, utils
    try:
        sk_mod = __import__('asyncssh.sk', fromlist=['sk_webauthn_prefix'])
        prefix_fn = sk_mod.sk_webauthn_prefix
        eck = h.key('ecdsa-sha2-nistp256', 1)
        edk = h.key('ssh-ed25519', 1)
        pubs = {p.algorithm: p for p in h.sk_public_keys()}
        skec = pubs[b'sk-ecdsa-sha2-nistp256@openssh.com']
        sked = pubs[b'sk-ssh-ed25519@openssh.com']
    except Exception as e:
        once.hist.hit('audit-sk-unavailable:' + type(e).__name__)
        return
    app = 'ssh:'
    apph = hashlib.sha256(app.encode()).digest()
    data = b'data signed with a security key'
    flags, counter = 1, 7

    def ec_raw(m: bytes) -> bytes:
        r, s = utils.decode_dss_signature(eck.pyca_key.sign(m, ec.ECDSA(hashes.SHA256())))
        return String(MPInt(r) + MPInt(s))

    def pre(d: bytes) -> bytes:
        return apph + Byte(flags) + UInt32(counter) + hashlib.sha256(d).digest()
    cdata = prefix_fn(data, app) + b'}'
    origin, exts = b'ssh:', b''
    blobs = {
        'sk-ecdsa': (skec, String(b'sk-ecdsa-sha2-nistp256@openssh.com') + ec_raw(pre(data)) + Byte(flags) +
                     UInt32(counter), None),
        'sk-ed25519': (sked, String(b'sk-ssh-ed25519@openssh.com') + String(edk.pyca_key.sign(pre(data))) +
                       Byte(flags) + UInt32(counter), None),
    }
    head = String(b'webauthn-sk-ecdsa-sha2-nistp256@openssh.com') + ec_raw(pre(cdata)) + Byte(flags) + UInt32(counter)
    web = head + String(origin) + String(cdata) + String(exts)
    blobs['webauthn-sk-ecdsa'] = (skec, web, (len(head), len(head) + 4 + len(origin), len(web) - 4 - len(exts)))
    for label, (pub, blob, spans) in blobs.items():
        res.evaluations += 1
        ok = h.impl_verify(pub, data, blob)
        once.hist.hit(f'audit-sk-honest:{label}:{ok}')
        if ok != '1':
            once.add(f'verify-rejects-honest-signature:{label}', f'honest {label} signature -> {ok}',
                     {'case': 'sk', 'label': label})
            continue
        res.nontrivial += 1
        res.evaluations += 1
        if h.impl_verify(pub, data + b'x', blob) == '1':
            once.add('verify-accepts-other-data', f'{label}: verifies for other data', {'case': 'sk', 'label': label})
        for i, v, ed in h.edits_of(blob, deep, rng):
            res.evaluations += 1
            if h.impl_verify(pub, data, ed) != '1':
                continue
            if spans is not None and (spans[0] <= i < spans[1] or i >= spans[2]):
                field = 'origin' if i < spans[1] else 'extensions'
                once.add(SIG_WEBAUTHN,
                         f'webauthn-sk-ecdsa signature blob with byte {i} (inside the {field} string) set to {v:#x} '
                         f'still verifies: sk_ecdsa.verify_ssh reads origin and extensions and binds them to nothing '
                         f'(ssh-keygen refuses the edited blob)', {'case': 'sk-edit', 'label': label, 'index': i})
            else:
                once.add(f'verify-accepts-single-byte-edit:{label}',
                         f'{label}: signature blob with byte {i} set to {v:#x} verifies',
                         {'case': 'sk-edit', 'label': label, 'index': i})
    # whole-field replacements of the two unbound fields
    for field, o2, e2 in (('origin', b'https://evil.example', b''), ('extensions', b'ssh:', b'\1\2garbage')):
        res.evaluations += 1
        if h.impl_verify(skec, data, head + String(o2) + String(cdata) + String(e2)) == '1':
            once.add(SIG_WEBAUTHN, f'webauthn-sk-ecdsa signature with the {field} field replaced still verifies',
                     {'case': 'sk-field', 'field': field})


def oracle_audit(h: Any, ctx: Any, rng: Any, hist: Any, res: Any, algs: List[str], deep: bool,
                 only: Optional[str] = None) -> List[Failure]:
    once = Once(hist)
    subject_key_errors(h, ctx, rng, once, res)
    host_cert_signers(h, ctx, rng, once, res, algs)
    malformed_options(h, ctx, rng, once, res, algs)
    option_case(h, ctx, rng, once, res, algs)
    sk_signatures(h, ctx, rng, once, res, deep)
    return [f for f in once.fails if only is None or f.signature == only]
